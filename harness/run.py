"""Entry point:  run.py <ID> --tier quick|thorough [--replay FILE]

exit 0: property held on everything explored; exit 1: a `VIOLATION property=<id> replay=<path>`
line was printed; exit 2: infrastructure problem (never a VIOLATION line).
"""
from __future__ import annotations

import argparse
import importlib
import json
import os
import signal
import sys
import traceback

sys.path.insert(0, os.path.dirname(os.path.abspath(__file__)))
import common  # noqa: E402


def main() -> int:
    ap = argparse.ArgumentParser()
    ap.add_argument("prop")
    ap.add_argument("--tier", default=os.environ.get("VERIF_TIER", "quick"))
    ap.add_argument("--replay", default=None)
    args = ap.parse_args()
    prop = args.prop.upper()
    tier = args.tier if args.tier in ("quick", "thorough") else "quick"
    try:
        seed = int(os.environ.get("VERIF_SEED", "0"))
    except ValueError:
        seed = 0
    common.protect_stdout()
    budget = int(os.environ.get("VERIF_BUDGET_S", "1500" if tier == "quick" else "14400"))

    def on_alarm(signum, frame):
        common.log(f"[{prop}] time budget of {budget}s exceeded")
        os._exit(2)

    signal.signal(signal.SIGALRM, on_alarm)
    signal.alarm(budget)
    ctx = None
    try:
        mod = importlib.import_module(f"props.{prop.lower()}")
        replay = None
        if args.replay:
            replay = json.loads(open(args.replay).read())
            seed = int(replay.get("seed", seed))
            tier = replay.get("tier", tier)
        ctx = common.Ctx(prop, tier, seed)
        ctx.audit_result = common.audit(prop, tier)
        import tie
        tie_res = tie.run(prop, ctx.audit_result)
        if tie_res is not None:
            ctx.notes["translator_tie"] = tie_res
        common.start_coverage(f"{prop}-{tier}")
        common.import_ginjax()
        if replay is not None and hasattr(mod, "replay") and replay.get("kind") != "theorem":
            ctx.is_replay = True
            mod.replay(ctx, replay)
        else:
            mod.run(ctx)
            changed = common.changed_anchor_files(prop)
            tie_lost = tie_res is not None and tie_res["status"] != "proved"
            if (changed or tie_lost) and not ctx.violations and not os.environ.get("VERIF_NO_SECOND_PASS"):
                # the modelled source differs from the tree the correspondence was last validated on:
                # explore more of it (second pass, different random stream); never an alarm by itself
                common.log(f"[{prop}] anchor files changed: {changed} -> second pass with another random stream")
                import numpy as np
                ctx.rng = np.random.Generator(np.random.PCG64(seed + 7919))
                ctx.notes["anchor_files_changed"] = changed
                mod.run(ctx)
        return ctx.finish()
    except common.InfraError as e:
        common.log(f"[{prop}] infrastructure error: {e}")
        return 2
    except Exception:
        common.log(f"[{prop}] harness crashed:\n{traceback.format_exc()}")
        # a crash after violations were already recorded must not swallow them
        try:
            if ctx is not None and ctx.violations:
                return ctx.finish()
        except Exception:
            pass
        return 2


if __name__ == "__main__":
    sys.exit(main())
