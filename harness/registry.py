"""Per-property registration: what MANIFEST.json says about each claimed check."""

COMMON_NOTE = (
    "Trusted: Lean 4 kernel with axioms propext/Classical.choice/Quot.sound only (audited per theorem "
    "on every run, no sorry/native_decide/own axioms); the hand-written Lean model is tied to /repo by "
    "the correspondence run of this check (model driver vs real ginjax imported from /repo/src on the "
    "same generated inputs); numpy/jax primitives are modelled, not verified. "
)

CLAIMED = {
    "C19": dict(
        text=(
            "Lean theorems for every loss history, patience and min_delta over any ordered loss type: the "
            "patience state machine's verdict after a history is exactly 'more than patience trailing "
            "non-improvements' (stop_true_iff, pRun_spec), the model handed back is the one of the tracked "
            "best (best_is_loss_of_argBest, bestOf_zero_le), the training loop stops at the first such epoch "
            "(trainLoop_terminates) and EpochStop after exactly `epochs` epochs (epochStop_exact). The model "
            "is tied to the code by an exhaustive small-scope correspondence run over all histories up to a "
            "length bound in four scalar representations plus real ml.train runs with scripted losses."
        ),
        note=COMMON_NOTE + "NaN/inf losses excluded; optax/pmap inside ml.train exercised, not modelled.",
        technique="Lean 4 proof (induction over the call history of a state-machine model) + exhaustive small-scope correspondence with the real classes",
        design_ref="DESIGN.md §5 C19",
    ),
}

PLANNED_REASON = (
    "check not built yet in this round (design in DESIGN.md §5); no claim is made until its Lean model, "
    "theorems and correspondence run exist"
)
