"""C12 - multi-image arithmetic pairs blocks by type, whatever their storage history.

Every case is a JSON-able description {"op", "a": operand, "b": operand, "s": scalar} where an
operand = constructor arguments + a history of steps (setitem / append / concat / copy / pytree
round trip / from_vector).  The same description is
  * executed on the real `ginjax.geometric.MultiImage` (imported from GINJAX_SRC), and
  * sent to the Lean model (driver ops c12.build / c12.binop / c12.smul / c12.div / c12.eq).

oracle (the property's own sentence, independent of the model): for operands holding the same
  set of types, `(a op b)[t] == a[t] op b[t]` for every t, read from the real operands' own
  blocks with exact integer / dyadic arithmetic; `a*s`, `a/s` blockwise; `a == b` iff same key
  set and all blocks within TINY; operands with different type sets must be rejected.
correspondence: real result vs Lean model result, compared by key (block order is recorded as a
  diagnostic only, the property does not fix it); the python oracle is also diffed against the
  Lean blockwise spec (`c12.spec`).
"""
from __future__ import annotations

import itertools
from fractions import Fraction

import numpy as np

from common import Ctx, DriverReject, jrat

TYPES = [(0, 0), (0, 1), (1, 0), (1, 1), (2, 0), (2, 1)]
TREE_VARIANTS = ["flatten", "tree_map", "jit", "vmap"]
_JIT = {}


# ---------------------------------------------------------------------------------------------
# wire helpers


def wblock(arr) -> dict:
    arr = np.asarray(arr)
    return {"shape": [int(v) for v in arr.shape], "data": [int(v) for v in arr.reshape(-1)]}


def rblock(j) -> np.ndarray:
    return np.array([int(v) for v in j["data"]], dtype=np.int64).reshape(j["shape"])


def model_blocks(m) -> dict:
    """driver MI -> {(k,p): float64 array} (exact for the dyadic rationals used here)"""
    out = {}
    for key, blk in zip(m["keys"], m["blocks"]):
        data = np.array([v[0] / v[1] for v in blk["data"]], dtype=np.float64).reshape(blk["shape"])
        out[(key[0], key[1])] = data
    return out


def real_blocks(mi) -> dict:
    return {key: np.asarray(val).astype(np.float64) for key, val in mi.items()}


# ---------------------------------------------------------------------------------------------
# executing an operand description on the real library


def f32(j):
    import jax.numpy as jnp

    return jnp.asarray(rblock(j).astype(np.float32))


def tree_roundtrip(mi, variant):
    import jax

    if variant == "flatten":
        leaves, treedef = jax.tree_util.tree_flatten(mi)
        return jax.tree_util.tree_unflatten(treedef, leaves)
    if variant == "tree_map":
        return jax.tree_util.tree_map(lambda x: x, mi)
    if variant == "vmap":
        return jax.vmap(lambda m: m)(mi)
    if "id" not in _JIT:
        _JIT["id"] = jax.jit(lambda m: m)
    return _JIT["id"](mi)


def build_real(geom, spec):
    torus = tuple(bool(t) for t in spec["torus"])
    mi = geom.MultiImage({(k, p): f32(b) for k, p, b in spec["items"]}, spec["D"], torus)
    for st in spec["steps"]:
        s = st["s"]
        if s == "setitem":
            mi[(st["k"], st["p"])] = f32(st["b"])
        elif s == "append":
            mi = mi.append(st["k"], st["p"], f32(st["b"]), st["axis"])
        elif s == "concat":
            other = geom.MultiImage({(k, p): f32(b) for k, p, b in st["items"]}, spec["D"], torus)
            mi = mi.concat(other, st["axis"])
        elif s == "copy":
            mi = mi.copy()
        elif s == "tree":
            mi = tree_roundtrip(mi, st.get("variant", "flatten"))
        elif s == "from_vector":
            mi = geom.MultiImage.from_vector(mi.to_vector(), mi)
        else:
            raise ValueError(s)
    return mi


# ---------------------------------------------------------------------------------------------
# generators


def block_shape(D, key, lead, spatial, equalise):
    """lead = tuple of leading extents; with `equalise` the last leading extent is scaled so that
    all blocks of the operand have the same number of elements (a wrong pairing raises nothing)"""
    k = key[0]
    lead = list(lead)
    if equalise and lead:
        lead[-1] = lead[-1] * (D ** (2 - k))
    return tuple(lead) + tuple(spatial) + (D,) * k


def encode(key, shape, base, stride):
    """position-encoded integers: which operand, which type, which flat position"""
    code = TYPES.index(key) + 1
    n = int(np.prod(shape)) if len(shape) else 1
    return (base * code + stride * np.arange(n, dtype=np.int64) + 1).reshape(shape)


def targets(D, order, lead, spatial, equalise, base, stride):
    return [(key, encode(key, block_shape(D, key, lead, spatial, equalise), base, stride)) for key in order]


def split0(arr, rng):
    cut = int(rng.integers(1, arr.shape[0]))
    return arr[:cut], arr[cut:]


def plan(kind, D, torus, tg, n_lead, rng):
    """an operand description whose final blocks are `tg` (list of (key, array) in the intended
    insertion order), reached through a history of the given kind"""
    items = [[k, p, wblock(a)] for (k, p), a in tg]
    steps = []
    if kind == "ctor":
        pass
    elif kind == "append":
        steps = [{"s": "append", "k": k, "p": p + 2 * int(rng.integers(0, 2)), "b": b, "axis": 0} for k, p, b in items]
        items = []
    elif kind in ("flatten", "tree_map", "jit", "vmap"):
        steps = [{"s": "tree", "variant": kind}]
    elif kind == "copy":
        steps = [{"s": "copy"}]
    elif kind == "from_vector":
        steps = [{"s": "from_vector"}]
    elif kind == "setitem":
        # constructor holds placeholders for some keys (position is kept), overwritten later
        items2, steps = [], []
        for (k, p), a in tg:
            if rng.integers(0, 2):
                items2.append([k, p, wblock(np.zeros_like(a) + 7)])
                steps.append({"s": "setitem", "k": k, "p": p, "b": wblock(a)})
            else:
                items2.append([k, p, wblock(a)])
        rng.shuffle(steps)
        items = items2
    elif kind == "concat":
        # split along leading axis 0 between `self` and `other`; other is stored in another order
        first, second = [], []
        for (k, p), a in tg:
            mode = int(rng.integers(0, 3))
            if mode == 1:
                second.append([k, p, wblock(a)])
            elif mode == 0 or n_lead == 0 or a.shape[0] < 2:
                first.append([k, p, wblock(a)])
            else:
                x, y = split0(a, rng)
                first.append([k, p, wblock(x)])
                second.append([k, p, wblock(y)])
        second = [second[i] for i in rng.permutation(len(second))]
        items = first
        steps = [{"s": "concat", "items": second, "axis": 0}]
    elif kind == "append2":
        # constructor with the first half, append the second half along axis 0, in another order
        first, second = [], []
        for (k, p), a in tg:
            if n_lead >= 1 and a.shape[0] >= 2 and rng.integers(0, 2):
                x, y = split0(a, rng)
                first.append([k, p, wblock(x)])
                second.append({"s": "append", "k": k, "p": p, "b": wblock(y), "axis": 0})
            else:
                first.append([k, p, wblock(a)])
        rng.shuffle(second)
        items, steps = first, second
    elif kind == "mixed":
        steps = [{"s": "copy"}, {"s": "tree", "variant": "flatten"}, {"s": "from_vector"}]
    else:
        raise ValueError(kind)
    return {"D": D, "torus": [bool(t) for t in torus], "items": items, "steps": steps}


KINDS = ["ctor", "append", "flatten", "tree_map", "copy", "from_vector", "setitem", "concat", "append2", "mixed"]


# ---------------------------------------------------------------------------------------------
# one case


def impl_close(x, y):
    """|x - y| <= TINY + TINY |y| elementwise, exactly, on integer/dyadic float64 arrays"""
    if x.shape != y.shape:
        return False
    for u, v in zip(x.reshape(-1), y.reshape(-1)):
        fu, fv = Fraction(float(u)), Fraction(float(v))
        if abs(fu - fv) > Fraction(1, 100000) + Fraction(1, 100000) * abs(fv):
            return False
    return True


def run_case(ctx: Ctx, geom, case, sample=False, jit_op=False):
    drv = ctx.driver
    op = case["op"]
    ctx.hist("op", op)
    binary = op in ("add", "sub", "eq")

    # ---- build both operands, on both sides
    real, model = {}, {}
    for who in ("a", "b") if binary else ("a",):
        try:
            real[who] = build_real(geom, case[who])
        except Exception as e:  # noqa: BLE001
            real[who] = e
        try:
            model[who] = drv.call("c12.build", a=case[who])
        except DriverReject as e:
            model[who] = e
        ri, mi_ = isinstance(real[who], Exception), isinstance(model[who], DriverReject)
        if ri != mi_:
            ctx.case(("build", case), False)
            ctx.violation("correspondence", f"history of operand {who}: implementation "
                          f"{'raises' if ri else 'accepts'}, Lean model {'rejects' if mi_ else 'accepts'}",
                          dict(case, error=str(real[who]) if ri else str(model[who])))
            return
        if ri:
            ctx.case(("build-rejected", case), False)
            ctx.hist("history", "rejected by both")
            return
        rb, mb = real_blocks(real[who]), model_blocks(model[who])
        if set(rb) != set(mb) or any(rb[t].shape != mb[t].shape or not np.array_equal(rb[t], mb[t]) for t in rb):
            ctx.case(("build", case), False)
            ctx.violation("correspondence", f"operand {who} built by the history differs from the Lean model (by key)",
                          dict(case, impl_keys=[list(t) for t in rb], model_keys=[list(t) for t in mb]))
            return
        ctx.hist("operand_order_matches_model", [list(t) for t in rb] == [list(t) for t in mb])

    a = real["a"]
    A = real_blocks(a)
    ka = list(A)
    if binary:
        b = real["b"]
        B = real_blocks(b)
        kb = list(B)
        same_set = set(ka) == set(kb)
        same_meta = a.D == b.D and tuple(a.is_torus) == tuple(b.is_torus)
        differently_ordered = same_set and ka != kb
        nontrivial = len(ka) >= 2 and (differently_ordered or not same_set)
        ctx.hist("key orders", "different" if differently_ordered else ("same" if same_set else "different sets"))
    else:
        nontrivial = len(ka) >= 2 and ka != sorted(ka)
    ctx.hist("n_types", len(ka))
    smp = None
    if sample:
        smp = {"op": op, "a_keys": [list(t) for t in ka], "a_history": [s["s"] for s in case["a"]["steps"]] or ["ctor"]}
        if binary:
            smp["b_keys"] = [list(t) for t in kb]
            smp["b_history"] = [s["s"] for s in case["b"]["steps"]] or ["ctor"]
            smp["shapes"] = {str(t): list(A[t].shape) for t in ka}
    ctx.case(case, nontrivial, sample=smp)

    def viol(kind, what, **extra):
        ctx.violation(kind, what, dict(case, **extra))

    # ---- the operation on the implementation
    try:
        if op == "add":
            res = (_jitted("add")(a, b) if jit_op else a + b)
        elif op == "sub":
            res = (_jitted("sub")(a, b) if jit_op else a - b)
        elif op == "mul":
            res = a * float(Fraction(*case["s"]))
        elif op == "div":
            res = a / float(Fraction(*case["s"]))
        else:
            res = bool(a == b)
        impl_rej = None
    except Exception as e:  # noqa: BLE001
        res, impl_rej = None, e

    # ---- the operation on the model
    try:
        if op in ("add", "sub"):
            mres = drv.call("c12.binop", f=op, a=case["a"], b=case["b"])
        elif op == "mul":
            mres = drv.call("c12.smul", a=case["a"], s=case["s"])
        elif op == "div":
            mres = drv.call("c12.div", a=case["a"], s=case["s"])
        else:
            mres = drv.call("c12.eq", a=case["a"], b=case["b"])
        model_rej = None
    except DriverReject as e:
        mres, model_rej = None, e

    # ---- oracle
    oracle_ok = True
    if op in ("add", "sub"):
        if same_set and same_meta:
            f = (lambda x, y: x + y) if op == "add" else (lambda x, y: x - y)
            shapes_ok = all(A[t].shape == B[t].shape for t in ka)
            assert shapes_ok, "generator produced operands whose blocks of one type differ in shape"
            want = {t: f(A[t], B[t]) for t in ka}
            if impl_rej is not None:
                oracle_ok = False
                viol("oracle", f"a {op} b: operands with the same set of types were rejected", error=repr(impl_rej)[:300])
            else:
                R = real_blocks(res)
                if set(R) != set(want):
                    oracle_ok = False
                    viol("oracle", f"a {op} b: result holds other types than the operands", result_keys=[list(t) for t in R])
                else:
                    bad = [t for t in ka if R[t].shape != want[t].shape or not np.array_equal(R[t], want[t])]
                    if bad:
                        oracle_ok = False
                        t = bad[0]
                        viol("oracle", f"(a {op} b)[t] != a[t] {op} b[t] for t={t}",
                             a_keys=[list(t) for t in ka], b_keys=[list(t) for t in kb], t=list(t),
                             expected=want[t].reshape(-1)[:8].tolist(), observed=R[t].reshape(-1)[:8].tolist())
            # the python oracle itself against the Lean blockwise spec
            try:
                sp = drv.call("c12.spec", f=op, a=case["a"], b=case["b"])
                for key, blk in sp:
                    w = want[(key[0], key[1])]
                    got = np.array([v[0] / v[1] for v in blk["data"]]).reshape(blk["shape"])
                    if got.shape != w.shape or not np.array_equal(got, w):
                        viol("correspondence", "python blockwise oracle differs from the Lean spec specGet", t=key)
            except DriverReject as e:
                viol("correspondence", f"Lean spec undefined on valid operands: {e}")
        elif not same_set:
            ctx.hist("malformed", "different key sets")
            if impl_rej is None:
                oracle_ok = False
                viol("oracle", f"a {op} b: operands holding different sets of types were combined, not rejected",
                     a_keys=[list(t) for t in ka], b_keys=[list(t) for t in kb])
        else:
            ctx.hist("malformed", "D / is_torus differ")
    elif op in ("mul", "div"):
        s = Fraction(*case["s"])
        fs = float(s)
        want = {t: (A[t] * fs if op == "mul" else A[t] / fs) for t in ka}
        if impl_rej is not None:
            oracle_ok = False
            viol("oracle", f"a {op} s raised", error=repr(impl_rej)[:300])
        else:
            R = real_blocks(res)
            bad = [t for t in ka if t not in R or R[t].shape != want[t].shape or not np.array_equal(R[t], want[t])]
            if bad or set(R) != set(want):
                oracle_ok = False
                viol("oracle", f"(a {op} s)[t] != a[t] {op} s", t=[list(t) for t in bad], result_keys=[list(t) for t in R])
    else:
        want_eq = same_set and same_meta and all(impl_close(A[t], B[t]) for t in ka)
        ctx.hist("eq expected", want_eq)
        if impl_rej is not None:
            oracle_ok = False
            viol("oracle", "a == b raised", error=repr(impl_rej)[:300])
        elif res != want_eq:
            oracle_ok = False
            viol("oracle", f"a == b returned {res}, blockwise comparison by type says {want_eq}",
                 a_keys=[list(t) for t in ka], b_keys=[list(t) for t in kb])

    # ---- correspondence (only where the oracle did not already show the property failing)
    if not oracle_ok:
        return
    if (impl_rej is None) != (model_rej is None):
        viol("correspondence", f"{op}: implementation {'accepts' if impl_rej is None else 'rejects'}, "
             f"Lean model {'accepts' if model_rej is None else 'rejects'}",
             error=repr(impl_rej)[:200] if impl_rej is not None else str(model_rej))
        return
    if impl_rej is not None:
        return
    if op == "eq":
        if bool(mres) != res:
            viol("correspondence", f"a == b: implementation {res}, Lean model {mres}")
        return
    R, M = real_blocks(res), model_blocks(mres)
    if set(R) != set(M) or any(R[t].shape != M[t].shape or not np.array_equal(R[t], M[t]) for t in R):
        viol("correspondence", f"{op}: result differs from the Lean model (compared by key)")
    ctx.hist("result_order_matches_model", [list(t) for t in R] == [list(t) for t in M])
    if res.D != mres["D"] or [bool(t) for t in res.is_torus] != mres["torus"]:
        viol("correspondence", f"{op}: D / is_torus of the result differ from the Lean model")


def _jitted(name):
    import jax

    if name not in _JIT:
        _JIT[name] = jax.jit((lambda x, y: x + y) if name == "add" else (lambda x, y: x - y))
    return _JIT[name]


# ---------------------------------------------------------------------------------------------
# streams


def witness_d7(ctx, geom):
    """the D7 witness: same types, different order, equal-sized blocks"""
    ones = np.ones((1, 2, 2), dtype=np.int64)
    a = {"D": 2, "torus": [True, True], "items": [[0, 0, wblock(ones)], [0, 1, wblock(10 * ones)]], "steps": []}
    b = {"D": 2, "torus": [True, True], "items": [[0, 1, wblock(200 * ones)], [0, 0, wblock(3 * ones)]], "steps": []}
    for op in ("add", "sub"):
        run_case(ctx, geom, {"op": op, "a": a, "b": b, "label": "D7 witness"}, sample=(op == "add"))
    # the same through a jitted function: the second operand comes back sorted
    b2 = dict(a, items=[[0, 1, wblock(10 * ones)], [0, 0, wblock(ones)]], steps=[])
    a2 = dict(b2, steps=[{"s": "tree", "variant": "jit"}])
    run_case(ctx, geom, {"op": "add", "a": a2, "b": b2, "label": "D7 witness via jit"})


def exhaustive_orders(ctx, geom, D, max_types, spatial, lead):
    """every insertion order of both operands for 1..max_types types, equal-sized blocks"""
    rng = ctx.rng
    torus = [True] * D
    count = 0
    for n in range(1, max_types + 1):
        types = TYPES[:n]
        perms = list(itertools.permutations(types))
        for pa in perms:
            for pb in perms:
                count += 1
                ka = KINDS[count % len(KINDS)] if count % 3 == 0 else "ctor"
                kb = KINDS[(count // 3) % len(KINDS)] if count % 5 == 0 else "ctor"
                ta = targets(D, pa, lead, spatial, True, 1000, 1)
                tb = targets(D, pb, lead, spatial, True, 100000, 3)
                a = plan(ka, D, torus, ta, len(lead), rng)
                b = plan(kb, D, torus, tb, len(lead), rng)
                for op in ("add", "sub"):
                    run_case(ctx, geom, {"op": op, "a": a, "b": b}, sample=(count in (7, 300) and op == "add"))
                if pb == perms[0]:
                    # scalar multiple / quotient of every insertion order, one order after the other in the same
                    # process (a result must not depend on which order of the same types was seen before)
                    run_case(ctx, geom, {"op": "mul", "a": a, "s": [[2, 1], [-3, 1], [1, 2]][count % 3]})
                    run_case(ctx, geom, {"op": "div", "a": a, "s": [[2, 1], [-4, 1], [1, 2]][count % 3]})
                # equality across orders: same values, other order; and a perturbed one
                tb2 = targets(D, pb, lead, spatial, True, 1000, 1)
                if count % 2 == 0:
                    key, arr = tb2[count % n]
                    arr = arr.copy()
                    arr.reshape(-1)[count % arr.size] += 1
                    tb2[count % n] = (key, arr)
                b2 = plan(kb, D, torus, tb2, len(lead), rng)
                run_case(ctx, geom, {"op": "eq", "a": a, "b": b2}, sample=(count == 11))
    return count


def random_cases(ctx, geom, n_cases, jit_budget):
    rng = ctx.rng
    scal_mul = [[2, 1], [-3, 1], [5, 1], [1, 2], [-1, 4], [8, 1], [0, 1]]
    scal_div = [[2, 1], [-4, 1], [1, 2], [8, 1], [-1, 1]]
    jit_used = 0
    for i in range(n_cases):
        D = 2 if rng.random() < 0.7 else 3
        n_lead = int(rng.integers(0, 3))
        lead = tuple(int(rng.integers(1, 4)) for _ in range(n_lead))
        spatial = tuple(int(rng.integers(1, 4)) for _ in range(D))
        kmax = 2 if D == 2 else 1
        pool = [t for t in TYPES if t[0] <= kmax]
        n = int(rng.integers(1, 5))
        types = [pool[j] for j in rng.permutation(len(pool))[:n]]
        equalise = bool(rng.integers(0, 2)) and n_lead >= 1
        torus = [bool(rng.integers(0, 2)) for _ in range(D)]
        op = ["add", "sub", "mul", "div", "eq"][int(rng.integers(0, 5))]
        oa = [types[j] for j in rng.permutation(n)]
        ob = [types[j] for j in rng.permutation(n)]

        def kind():
            k = KINDS[int(rng.integers(0, len(KINDS)))]
            r = rng.random()
            if r < 0.08 and jit_used < jit_budget:
                return "jit"
            if r < 0.16 and n_lead == 2 and jit_used < jit_budget:
                return "vmap"
            return k

        ka, kb = kind(), kind()
        jit_used += (ka in ("jit", "vmap")) + (kb in ("jit", "vmap"))
        ctx.hist("history kind", ka)
        ctx.hist("history kind", kb)
        ctx.hist("D", D)
        ctx.hist("n_lead", n_lead)
        ta = targets(D, oa, lead, spatial, equalise, 1000, 1)
        a = plan(ka, D, torus, ta, n_lead, rng)
        case = {"op": op, "a": a}
        if op in ("add", "sub"):
            case["b"] = plan(kb, D, torus, targets(D, ob, lead, spatial, equalise, 100000, 3), n_lead, rng)
        elif op == "eq":
            tb = targets(D, ob, lead, spatial, equalise, 1000, 1)
            if rng.integers(0, 2):
                j = int(rng.integers(0, n))
                arr = tb[j][1].copy()
                arr.reshape(-1)[int(rng.integers(0, arr.size))] -= 1
                tb[j] = (tb[j][0], arr)
            case["b"] = plan(kb, D, torus, tb, n_lead, rng)
        elif op == "mul":
            case["s"] = scal_mul[int(rng.integers(0, len(scal_mul)))]
        else:
            case["s"] = scal_div[int(rng.integers(0, len(scal_div)))]
        jit_op = op in ("add", "sub") and rng.random() < 0.05 and jit_used < jit_budget
        jit_used += jit_op
        run_case(ctx, geom, case, sample=(i in (3, 17)), jit_op=jit_op)


def malformed(ctx, geom, n_cases):
    """operands that must be rejected (different key sets; equal sizes so nothing else trips),
    plus D / is_torus mismatches (model and implementation must agree)"""
    rng = ctx.rng
    D, lead, spatial = 2, (2,), (2, 2)
    for i in range(n_cases):
        n = int(rng.integers(1, 5))
        pool = [TYPES[j] for j in rng.permutation(4)]
        ta_types = pool[:n]
        mode = i % 5
        if mode == 0 and n >= 2:  # b misses one type
            tb_types = ta_types[:-1]
        elif mode == 1 and n < 4:  # b has one more type
            tb_types = ta_types + [pool[n]]
        elif mode == 2 and n < 4:  # same count, one type swapped for another of the same shape
            tb_types = ta_types[:-1] + [pool[n]]
        elif mode == 3:
            tb_types = list(ta_types)
        else:
            tb_types = list(ta_types)
        tb_types = [tb_types[j] for j in rng.permutation(len(tb_types))]
        ta = targets(D, ta_types, lead, spatial, True, 1000, 1)
        tb = targets(D, tb_types, lead, spatial, True, 100000, 3)
        a = plan("ctor", D, [True, True], ta, 1, rng)
        torus_b = [True, False] if mode == 3 else [True, True]
        b = plan(KINDS[i % 6], D, torus_b, tb, 1, rng)
        for op in ("add", "sub", "eq"):
            run_case(ctx, geom, {"op": op, "a": a, "b": b, "label": "malformed stream"})
        if mode in (0, 1, 2) and set(ta_types) != set(tb_types):
            # the SHARED types hold equal blocks: only the key sets tell the operands apart, so `a == b` and
            # `b == a` must both be False and +/- must reject, whichever side holds the extra type
            tb_same = targets(D, tb_types, lead, spatial, True, 1000, 1)
            b2 = plan(KINDS[(i + 1) % 6], D, [True, True], tb_same, 1, rng)
            for op in ("eq", "add", "sub"):
                run_case(ctx, geom, {"op": op, "a": a, "b": b2, "label": "type sets differ, shared blocks equal"})
                run_case(ctx, geom, {"op": op, "a": b2, "b": a, "label": "type sets differ, shared blocks equal (swapped)"})
    # histories the library itself refuses
    blk = wblock(np.ones((2, 2, 2), dtype=np.int64))
    bad_hist = [
        {"D": 2, "torus": [True, True], "items": [[0, 0, blk]], "steps": [{"s": "append", "k": 1, "p": 0, "b": blk, "axis": 0}]},
        {"D": 2, "torus": [True, True], "items": [[0, 0, blk]], "steps": [{"s": "append", "k": 0, "p": 0, "b": blk, "axis": 1}]},
        {"D": 2, "torus": [True, True], "items": [[0, 0, blk]],
         "steps": [{"s": "append", "k": 0, "p": 0, "b": wblock(np.ones((2, 3, 2), dtype=np.int64)), "axis": 0}]},
    ]
    for h in bad_hist:
        run_case(ctx, geom, {"op": "mul", "a": h, "s": [2, 1], "label": "refused history"})


def run(ctx: Ctx):
    import ginjax.geometric as geom

    quick = ctx.tier == "quick"
    ctx.rule = (
        "Every case = (operation, history of a, history of b). Exhaustive stream: every ordered pair of "
        "insertion orders of both operands for 1..4 types (1+4+36+576 pairs; thorough also d=3) with "
        "equal-sized blocks (so a wrong pairing raises nothing), for a+b, a-b and a==b (and a*s, a/s for every insertion "
        "order of a, consecutively in one process), histories rotating "
        "over {constructor, append, pytree flatten, tree_map, copy, from_vector, setitem, concat, split append, mixed}. "
        "Random stream: d in {2,3}, 0-2 leading axes, non-square shapes, 1-4 types out of 6, histories "
        "incl. jit / vmap round trips, operations add/sub/mul/div/eq (some under jit). Malformed stream: "
        "different key sets, is_torus mismatch, refused histories. Values are position-encoded integers "
        "(operand, type, flat index) so float32 arithmetic is exact. A case is non-trivial when the "
        "operand(s) hold >= 2 types and (binary ops) the two key orders differ or the key sets differ, "
        "(scalar ops) the operand's key order is not the sorted one; distinct = distinct full case description."
    )
    ctx.assumptions = [
        "blocks of one type have the same shape in both operands (what the property's a[t]+b[t] presupposes)",
        "scalars for * and / are dyadic rationals (a/s is computed as a*(1.0/s); exact only then)",
        "values are integers below 2^24 so float32 arithmetic is exact; closeness tolerance TINY=1e-5 as an exact rational",
    ]
    ctx.trusted_extra = [
        "jax pytree flattening of dicts sorts keys (modelled as Dict.sortKeys; exercised by the jit/vmap/tree_flatten histories)",
    ]
    witness_d7(ctx, geom)
    exhaustive_orders(ctx, geom, 2, 4, (2, 3), (2,))
    if not quick:
        exhaustive_orders(ctx, geom, 3, 4, (2, 1, 2), (1, 1))
        exhaustive_orders(ctx, geom, 2, 3, (3, 2), ())
    random_cases(ctx, geom, 350 if quick else 6000, 24 if quick else 200)
    malformed(ctx, geom, 40 if quick else 300)
    ctx.exhaustive = False
    ctx.notes["exhaustive_scope"] = "all ordered pairs of insertion orders of <= 4 types (fixed shapes) are enumerated; values and histories are sampled"


def replay(ctx: Ctx, rp):
    import ginjax.geometric as geom

    case = {k: v for k, v in rp["case"].items() if k in ("op", "a", "b", "s", "label")}
    run_case(ctx, geom, case, sample=True)
