"""C06 - the equivariant linear layer is equivariant for every parameter value.

Real `ml.ConvContract` objects over real invariant filter banks (`get_invariant_filters` for B_d, the
rotation subgroup and C2^d; every filter rescaled to integer entries, which keeps it invariant), with
integer weights AND biases set away from initialisation through `eqx.tree_at`, on integer MultiImages.

oracle (metamorphic, on the implementation only): for every g of the group the bank was built for
  `layer(g.x) == g.layer(x)`, where g. is the exact reference action of harness/refs.py (validated
  against the Lean spec by the C02 check), the `is_torus` flags travel with the image, and every output
  block is transformed with its declared (k, parity); keys in order, shapes, values (exact; tolerance
  1e-5*scale only where the float32 spatial mean enters).  Square and non-square inputs, all five bias
  settings, padding kinds {default, TORUS, SAME, VALID, integer, explicit equal pairs}, filter dilation
  1-2, image dilation 1-2 (with literal padding); for C2^d (no axis exchange) per-axis different
  dilations / paddings.  Plus: `layer(shift.x) == shift.layer(x)` for cyclic shifts along the toroidal
  axes under TORUS/default padding without image dilation.
correspondence: the same layers, on x and on one g.x, against the Lean model `layerV` / spec
  `layerSpec` (driver op `c11.layer`), exact.
negative control: a layer over a NON-invariant (random integer) bank must be flagged by the oracle;
  this validates the oracle and is not a violation (if it is not flagged the run ends as an
  infrastructure error).
"""
from __future__ import annotations

import time

import numpy as np

import refs
from common import Ctx, DriverReject, InfraError, log
from props import c11 as L

BIASES = L.BIASES
_BANKS: dict = {}


# ---------------------------------------------------------------------------------------------
# groups and their invariant banks


def group_elements(name: str, D: int):
    allg = refs.signed_perms(D)
    if name == "B":
        return allg
    if name == "SO":
        return [g for g in allg if refs.det(g) == 1]
    if name == "C2":
        return [g for g in allg if np.array_equal(np.abs(g), np.eye(D, dtype=np.int64))]
    raise ValueError(name)


def bank_for(name: str, D: int, kmax: int):
    key = (name, D, kmax)
    if key not in _BANKS:
        import jax.numpy as jnp
        import ginjax.geometric as geom

        t0 = time.time()
        ops = [np.asarray(g) for g in group_elements(name, D)]
        b = geom.get_invariant_filters(Ms=[3], ks=list(range(kmax + 1)), parities=[0, 1], D=D, operators=ops)
        b, integer = L.rescale_bank(geom, jnp, b)
        log(f"[C06] invariant bank of {name}_{D}, k<={kmax}: {{{', '.join(f'{k}:{v.shape[0]}' for k, v in b.items())}}} "
            f"integer={integer} in {time.time() - t0:.1f}s")
        _BANKS[key] = (b, integer)
    return _BANKS[key]


def synth_bank(name: str, D: int, kmax: int, M: int, nf: int = 2):
    """a LARGE-filter invariant bank (side M) without computing a full invariant basis: sparse random integer
    tensor filters summed over the group with the exact reference action (the sum over the orbit is invariant and
    stays integer; the property is quantified over whatever invariant filters are supplied).  Deterministic in
    (name, D, kmax, M), so that a replay rebuilds the same bank; the invariance is asserted exactly."""
    key = ("synth", name, D, kmax, M)
    if key not in _BANKS:
        import jax.numpy as jnp
        import ginjax.geometric as geom

        t0 = time.time()
        rng = np.random.default_rng([7919, D, kmax, M, ["B", "SO", "C2"].index(name)])
        gs = group_elements(name, D)
        data = {}
        for k in range(kmax + 1):
            for p in (0, 1):
                fs = []
                for _ in range(40):
                    if len(fs) == nf:
                        break
                    shape = (1,) + (M,) * D + (D,) * k
                    raw = rng.integers(-1, 2, size=shape) * (rng.random(size=shape) < 0.25)
                    acc = sum(refs.act_block(raw.astype(np.float64), D, k, p, g) for g in gs)
                    if np.any(acc != 0):
                        fs.append(acc[0])
                if fs:
                    # every filter divided by the gcd of its entries (stays integer and invariant)
                    block = np.array([f / max(1, int(np.gcd.reduce(np.abs(f).astype(np.int64).reshape(-1)))) for f in fs])
                    for g in gs:
                        if not np.array_equal(refs.act_block(block, D, k, p, g), block):
                            raise InfraError(f"C06 synthetic bank: filter of type ({k},{p}) is not invariant under {name}_{D}")
                    data[(k, p)] = jnp.asarray(block, dtype=jnp.float32)
        b, integer = geom.MultiImage(data, D, True), True
        amax = max(float(np.max(np.abs(np.asarray(v)))) for v in b.values())
        log(f"[C06] synthetic invariant bank of {name}_{D}, side {M}, k<={kmax}: "
            f"{{{', '.join(f'{k}:{v.shape[0]}' for k, v in b.items())}}} max |entry| {amax:g} in {time.time() - t0:.1f}s")
        _BANKS[key] = (b, integer)
    return _BANKS[key]


# ---------------------------------------------------------------------------------------------
# one layer, all group elements


def run_layer(geom, layer, blocks, D, torus):
    return L.run_impl(geom, layer, blocks, D, torus)


def close(a, b, float_ok, scale):
    """float_ok: False = exact; True = 1e-5*scale (float32 spatial mean); a number = that relative tolerance"""
    if a.shape != b.shape:
        return False
    if a.size == 0:
        return True
    if float_ok:
        tol = 1e-5 if float_ok is True else float(float_ok)
        return bool(np.max(np.abs(a.astype(np.float64) - b.astype(np.float64))) <= tol * scale)
    return bool(np.array_equal(a.astype(np.float64), b.astype(np.float64)))


def equivariance_failures(geom, layer, c, gs, float_ok):
    """list of (g, description) for which layer(g.x) != g.layer(x)"""
    D = c["D"]
    y = run_layer(geom, layer, c["x_blocks"], D, c["torus"])
    scale = max([float(np.max(np.abs(v))) for _, v in y if v.size] + [0.0]) + 1.0
    fails = []
    for g in gs:
        gx = {k: refs.act_block(v, D, k[0], k[1], g).astype(np.float32) for k, v in c["x_blocks"].items()}
        gt = refs.transport(g, [bool(t) for t in c["torus"]])
        try:
            y2 = run_layer(geom, layer, gx, D, gt)
        except Exception as e:  # noqa: BLE001
            fails.append((g, f"the transformed call raised {type(e).__name__}: {str(e)[:160]}"))
            continue
        want = [(k, refs.act_block(v.astype(np.float64), D, k[0], k[1], g)) for k, v in y]
        if [k for k, _ in y2] != [k for k, _ in want]:
            fails.append((g, f"output keys {[k for k, _ in y2]} instead of {[k for k, _ in want]}"))
            continue
        for (k, a), (_, b) in zip(y2, want):
            if not close(a, b, float_ok, scale):
                err = "shape" if a.shape != b.shape else f"{float(np.max(np.abs(a.astype(np.float64) - b))):.4g}"
                fails.append((g, f"block {k} transformed as a ({k[0]},{k[1]}) tensor image differs ({err})"))
                break
    return y, fails


def shift_failures(geom, layer, c, shifts, float_ok):
    D = c["D"]
    y = run_layer(geom, layer, c["x_blocks"], D, c["torus"])
    scale = max([float(np.max(np.abs(v))) for _, v in y if v.size] + [0.0]) + 1.0
    axes = [j for j in range(D) if c["torus"][j]]
    fails = []
    for s in shifts:
        xs = {k: np.roll(v, shift=[s[j] for j in axes], axis=[1 + j for j in axes]) for k, v in c["x_blocks"].items()}
        y2 = run_layer(geom, layer, xs, D, c["torus"])
        for (k, a), (k2, b) in zip(y2, y):
            want = np.roll(b, shift=[s[j] for j in axes], axis=[1 + j for j in axes])
            if k != k2 or not close(a, want, float_ok, scale):
                fails.append((s, f"block {k} after a cyclic shift by {s}"))
                break
    return fails


def describe(c, group):
    extra = {"bank_M": int(c["bank_M"])} if c.get("bank_M") else {}  # large-filter cases: side of the synthetic bank
    return {
        **extra,
        "D": c["D"], "group": group, "input_keys": L.jsig(c["in_sig"]), "target_keys": L.jsig(c["target"]),
        "use_bias": c["bias"], "opts": c["opts"], "is_torus": [bool(t) for t in c["torus"]],
        "x": {str(k): list(np.asarray(v).shape) for k, v in c["x_blocks"].items()},
        "bank": {str(k): list(np.asarray(v).shape) for k, v in c["bank"].items()},
    }


def full_case(desc, c, W, B):
    full = dict(desc)
    full["weights"] = [{"s": list(s), "t": list(t), "w": L.jblock(w)} for s, d in W.items() for t, w in d.items()]
    full["bias"] = [{"t": list(t), "data": [int(v) for v in b.reshape(-1)]} for t, b in B.items()]
    full["input"] = [{"key": list(k), "block": L.jblock(v)} for k, v in c["x_blocks"].items()]
    full["bank_kmax"] = max(k[0] for k in c["bank"].keys())
    return full


def one_layer(ctx: Ctx, geom, ml, c, group, gs, integer_bank, with_model=True, params=None):
    D = c["D"]
    desc = describe(c, group)
    ctx.hist("group", f"{group}_{D}"); ctx.hist("use_bias", c["bias"]); ctx.hist("padding", c["padkind"])
    ctx.hist("square", len(set(next(iter(c["x_blocks"].values())).shape[1:1 + D])) == 1)
    ctx.hist("rd>1", any(v > 1 for v in L.per_axis(D, c["opts"].get("rhs_dilation"))))
    ctx.hist("lhs_dilation", c["opts"].get("lhs_dilation") is not None)
    ctx.hist("mixed_torus", len(set(bool(t) for t in c["torus"])) > 1)
    ctx.hist("n_in,n_out", (len(c["x_blocks"]), len(c["target"])))
    layer0 = L.build_layer(ml, D, c["in_sig"], c["target"], c["bank"], c["bias"], c["opts"])
    layer, W, B = L.set_params(layer0, ctx.rng, params=params)
    full = full_case(desc, c, W, B)
    # exact on integer data; 1e-5*scale where the float32 mean enters; 1e-4*scale for a bank that could not be
    # rescaled to integers
    float_ok = 1e-4 if not integer_bank else L.mean_branch(c["bias"], c["target"])
    # ---- metamorphic oracle over the whole group
    try:
        y, fails = equivariance_failures(geom, layer, c, gs, float_ok)
    except Exception as e:  # noqa: BLE001
        ctx.case(("equivariance", desc, full["weights"], full["bias"], full["input"]), False)
        full["raised"] = f"{type(e).__name__}: {str(e)[:300]}"
        ctx.violation("oracle", f"the layer raised {type(e).__name__} on a valid configuration", full)
        return None
    nonid = [g for g in gs if not np.array_equal(g, np.eye(D, dtype=np.int64))]
    has_refl = any(refs.det(g) == -1 for g in gs)
    nontriv = len(y) > 0 and len(nonid) > 0 and any(np.any(v != 0) for _, v in y)
    ctx.case(("equivariance", desc, full["weights"], full["bias"], full["input"]), nontriv, sample=desc)
    ctx.hist("group_elements_checked", len(gs)); ctx.hist("has_reflection", has_refl)
    ctx.notes["group_element_checks"] = ctx.notes.get("group_element_checks", 0) + len(gs)
    if fails:
        g, what = fails[0]
        full["g"] = [[int(v) for v in row] for row in np.asarray(g)]
        full["failing_elements"] = len(fails)
        ctx.violation("oracle", f"layer(g.x) != g.layer(x) for {len(fails)} of {len(gs)} elements of {group}_{D}: {what}", full)
    # ---- cyclic shifts
    pad = c["opts"].get("padding")
    if (pad is None or pad == "TORUS") and any(c["torus"]) and c["opts"].get("lhs_dilation") is None:
        N = next(iter(c["x_blocks"].values())).shape[1:1 + D]
        shifts = [[int(ctx.rng.integers(0, N[j])) for j in range(D)] for _ in range(3)]
        shifts = [s for s in shifts if any(s[j] for j in range(D) if c["torus"][j])] or [[1] * D]
        sf = shift_failures(geom, layer, c, shifts, float_ok)
        ctx.case(("shift", desc, shifts, full["weights"], full["input"]), len(y) > 0)
        ctx.hist("shift_cases", len(shifts))
        if sf:
            full["shift"] = sf[0][0]
            ctx.violation("oracle", f"layer(shift.x) != shift.layer(x) on toroidal axes: {sf[0][1]}", full)
    # ---- correspondence with the Lean model on x and on one g.x
    if with_model and integer_bank:
        for which in ("x", "g.x"):
            blocks, torus = c["x_blocks"], c["torus"]
            if which == "g.x":
                if not nonid:
                    continue
                g = nonid[int(ctx.rng.integers(len(nonid)))]
                blocks = {k: refs.act_block(v, D, k[0], k[1], g).astype(np.float32) for k, v in blocks.items()}
                torus = refs.transport(g, [bool(t) for t in torus])
            req = L.request(D, c["in_sig"], c["target"], c["bank"], W, B, c["bias"], c["opts"], blocks, torus)
            try:
                mo = ctx.driver.call("c11.layer", **req)
            except DriverReject as e:
                ctx.violation("correspondence", f"the Lean model rejects a call the implementation accepts ({e})", full)
                continue
            impl = run_layer(geom, layer, blocks, D, torus)
            ctx.case(("model", which, desc, full["weights"], full["bias"], full["input"]), len(impl) > 0)
            fl = L.mean_branch(c["bias"], c["target"])
            bad = L.compare(impl, L.blocks_of(mo["spec"]), fl)
            if bad is not None:
                ctx.violation("correspondence", f"implementation differs from the Lean spec layerSpec on {which}: {bad}", full)
            else:
                bad = L.compare(impl, L.blocks_of(mo["model"]), fl)
                if bad is not None:
                    ctx.violation("correspondence", f"implementation differs from the Lean model layerV on {which}: {bad}", full)
    return fails


# ---------------------------------------------------------------------------------------------
# generators


PADKINDS = ["none", "TORUS", "SAME", "VALID", "int", "explicit"]


def gen_opts(rng, D, axis_free: bool, kind=None, force_ld=False):
    """options inside the hypotheses of the theorem: unit stride, the same padding on both sides of
    every axis; options that do not distinguish the axes unless the group has no axis exchange"""
    kind = str(rng.choice(PADKINDS)) if kind is None else kind
    o = {}
    literal = kind in ("VALID", "int", "explicit")
    if kind == "none":
        o["padding"] = None
    elif kind in ("TORUS", "SAME", "VALID"):
        o["padding"] = kind
    elif kind == "int":
        o["padding"] = int(rng.integers(0, 3))
    else:
        if axis_free:
            o["padding"] = [[v, v] for v in (int(rng.integers(0, 3)) for _ in range(D))]
        else:
            v = int(rng.integers(0, 3))
            o["padding"] = [[v, v] for _ in range(D)]
    r = rng.random()
    if r < 0.45:
        o["rhs_dilation"] = [int(rng.integers(1, 3)) for _ in range(D)] if axis_free and rng.random() < 0.5 else int(rng.integers(1, 3))
    # image dilation (transposed convolution): with literal padding half of the time, with the string /
    # default paddings a quarter of the time (the code warns there but computes a symmetric padding)
    if force_ld:
        o["lhs_dilation"] = [2] * D
    elif rng.random() < (0.5 if literal else 0.25):
        if axis_free and rng.random() < 0.5:
            o["lhs_dilation"] = [int(rng.integers(1, 3)) for _ in range(D)]
        else:
            o["lhs_dilation"] = [int(rng.integers(1, 3))] * D
    return kind, o


def gen_case(ctx: Ctx, D, bank, types, axis_free, nmax, bias, kind=None, force_ld=False, uniform=False):
    rng = ctx.rng
    in_sig = L.gen_sig(rng, types, nmax)
    target = L.gen_sig(rng, types, nmax)
    if uniform:
        # equal channel counts on each side, one filter size, no missing filter, target types NOT in sorted order:
        # the configuration in which a single fused convolution could replace the per-pair ones
        ci, co = int(rng.integers(1, 4)), int(rng.integers(1, 4))
        in_sig = [((1, 0), ci), ((0, 0), ci)] if rng.integers(2) else [((0, 0), ci), ((1, 0), ci)]
        target = [((1, 0), co), ((0, 0), co)]
    kind, opts = gen_opts(rng, D, axis_free, kind, force_ld)
    rd = L.per_axis(D, opts.get("rhs_dilation"))
    ld = L.per_axis(D, opts.get("lhs_dilation"))
    if rng.random() < 0.5:
        n = int(rng.integers(3, 6 if D == 2 else 4))
        N = [n] * D
    else:
        N = [int(v) for v in rng.permutation([3, 4, 5] if D == 2 else [2, 3, 4])[:D]]
    if kind in ("VALID", "int", "explicit"):
        pads = opts["padding"]
        for j in range(D):
            p = 0 if kind == "VALID" else (pads if kind == "int" else pads[j][0])
            need = 2 * rd[j] + 1 - 2 * p  # filter of side 3 must fit: (N-1)*ld+1 >= need
            while (N[j] - 1) * ld[j] + 1 < need:
                N[j] += 1
    torus = [bool(rng.integers(0, 2)) for _ in range(D)]
    if force_ld and kind == "none":
        torus = [False] * D  # default padding on a non-toroidal image resolves to SAME: transposed conv + SAME
    elif kind in ("none", "TORUS") and not any(torus):
        torus[int(rng.integers(D))] = True  # so that the translation clause is exercised
    present = list(in_sig)
    order = [int(i) for i in rng.permutation(len(present))]
    x_blocks = {}
    for i in order:
        (k, p), ch = present[i]
        x_blocks[(k, p)] = rng.integers(-3, 4, size=(ch,) + tuple(N) + (D,) * k).astype(np.float32)
    return dict(D=D, in_sig=in_sig, target=target, bank=bank, bias=bias, opts=opts, x_blocks=x_blocks,
                torus=torus, padkind=kind)


def gen_large_case(ctx: Ctx, D, M, bank, types, nmax, bias, N, kind, torus=None, rd=None):
    """a layer whose filters have side M >= 5 (M**D >= 49 taps) on an image of extents N with default / TORUS
    padding, unit stride, no image dilation; `torus` None = fully toroidal"""
    rng = ctx.rng
    in_sig = L.gen_sig(rng, types, nmax)
    target = L.gen_sig(rng, types, nmax)
    opts = {"padding": None if kind == "none" else "TORUS"}
    if rd is not None:
        opts["rhs_dilation"] = int(rd)
    order = [int(i) for i in rng.permutation(len(in_sig))]
    x_blocks = {}
    for i in order:
        (k, p), ch = in_sig[i]
        x_blocks[(k, p)] = rng.integers(-2, 3, size=(ch,) + tuple(N) + (D,) * k).astype(np.float32)
    return dict(D=D, in_sig=in_sig, target=target, bank=bank, bias=bias, opts=opts, x_blocks=x_blocks,
                torus=[True] * D if torus is None else [bool(t) for t in torus], padkind=kind, bank_M=M)


def exact_bound(c):
    """crude bound on every partial sum of the bias-free layer: sum |filter| * filters * max |w| * max |x| * channels
    * tensor contraction; below 2**24 integer float32 arithmetic is exact"""
    D = c["D"]
    fmax = max(float(np.max(np.sum(np.abs(np.asarray(v)).reshape(v.shape[0], -1), axis=1))) * v.shape[0] for v in c["bank"].values())
    ch = sum(n * D ** t[0] for t, n in c["in_sig"])
    return fmax * 2 * 2 * ch


def large_filter_cases(ctx: Ctx, geom, ml, quick: bool):
    """filters of side 7 in d=2 and side 5 in d=3 (>= 49 taps) on toroidal images with at least one odd extent, square
    and non-square, judged by the same oracle (whole group, cyclic shifts, Lean model in d=2)"""
    import equiv

    rng = ctx.rng
    t0 = time.time()
    plans = []
    # (D, M, kmax of the bank, types, nmax, extents, number of random extra cases)
    fixed2 = [(11, 11), (9, 10)] if quick else [(11, 11), (9, 10), (10, 9), (7, 7), (8, 8), (7, 12), (13, 13), (9, 9)]
    fixed3 = [(5, 6, 5)] if quick else [(5, 5, 5), (5, 6, 5), (6, 6, 5), (7, 5, 6)]
    plans.append((2, 7, 2, L.TYPES[:4], 2, fixed2, 1 if quick else 24))
    plans.append((3, 5, 2, L.TYPES[:4], 2, fixed3, 0 if quick else 4))
    k = int(rng.integers(len(BIASES)))
    for D, M, kmax, types, nmax, fixed, extra in plans:
        bank, integer = synth_bank("B", D, kmax, M)
        gs_all = group_elements("B", D)
        for i in range(len(fixed) + extra):
            bias = BIASES[k % len(BIASES)]
            kind = ("none", "TORUS")[(k // 2 + i) % 2]
            k += 1
            torus, rd = None, None
            if i < len(fixed):
                N = list(fixed[i])
            else:
                lo = M if D == 2 else M
                N = [int(rng.integers(lo, lo + (6 if D == 2 else 3))) for _ in range(D)]
                if all(n % 2 == 0 for n in N):
                    N[int(rng.integers(D))] += 1
                r = i % 6
                if r == 4:  # mixed boundaries: the flags travel with the axes
                    torus = [bool(rng.integers(0, 2)) for _ in range(D)]
                    torus[int(rng.integers(D))] = True
                elif r == 5 and D == 2:  # dilated large filter: still has to fit on the torus
                    rd = 2
                    N = [int(rng.integers(2 * (M - 1) + 1, 2 * (M - 1) + 4)) for _ in range(D)]
            c = gen_large_case(ctx, D, M, bank, types, nmax, bias, N, kind, torus=torus, rd=rd)
            gs = gs_all
            if D == 3 and len(gs_all) > 12:
                gs = [np.eye(D, dtype=np.int64)] + equiv.group_subset(D, rng, 11 if quick else 23)
            ctx.hist("large_filter", f"d={D} side {M}")
            ctx.hist("large_filter_odd_extent", any(n % 2 for n in N))
            ctx.hist("large_filter_fully_toroidal", all(c["torus"]))
            exact = integer and exact_bound(c) < 2 ** 24
            one_layer(ctx, geom, ml, c, "B", gs, exact, with_model=(D == 2 and i < 2))
    log(f"[C06] large-filter cases done in {time.time() - t0:.1f}s")


def trained_layer(ctx: Ctx, geom, ml, c, group, gs):
    """the layer after two plain gradient steps over ALL its inexact-array leaves (what `ml.train` updates):
    the parameter values training reaches are parameter values, and the layer must still commute with the group"""
    import equinox as eqx
    import jax
    import jax.numpy as jnp

    D = c["D"]
    desc = dict(describe(c, group), trained=True)
    layer0 = L.build_layer(ml, D, c["in_sig"], c["target"], c["bank"], c["bias"], c["opts"])
    layer, W, B = L.set_params(layer0, ctx.rng)
    full = full_case(desc, c, W, B)
    try:
        x = geom.MultiImage({k: jnp.asarray(v, dtype=jnp.float32) for k, v in c["x_blocks"].items()}, D,
                            tuple(bool(t) for t in c["torus"]))

        def loss(params, static):
            y = eqx.combine(params, static)(x)
            # (a float zero first: a layer none of whose requested types is reachable returns no block at all)
            return sum((jnp.sum((v - 1.0) ** 2) for v in y.data.values()), jnp.float32(0.0))

        for _ in range(2):
            params, static = eqx.partition(layer, eqx.is_inexact_array)
            grads = jax.grad(loss)(params, static)
            gmax = max([float(jnp.max(jnp.abs(g))) for g in jax.tree_util.tree_leaves(grads)] + [1.0])
            layer = eqx.apply_updates(layer, jax.tree_util.tree_map(lambda g: -(0.5 / gmax) * g, grads))
        y, fails = equivariance_failures(geom, layer, c, gs, 1e-4)
    except Exception as e:  # noqa: BLE001
        ctx.case(("trained", desc, full["weights"], full["input"]), False)
        full["raised"] = f"{type(e).__name__}: {str(e)[:300]}"
        ctx.violation("oracle", f"training / evaluating the layer raised {type(e).__name__} on a valid configuration", full)
        return
    ctx.case(("trained", desc, full["weights"], full["input"]), len(y) > 0 and any(np.any(v != 0) for _, v in y))
    ctx.hist("trained_layers", 1)
    if fails:
        g, what = fails[0]
        full["g"] = [[int(v) for v in row] for row in np.asarray(g)]
        full["trained_steps"] = 2
        ctx.violation("oracle", f"after two gradient steps over the layer's array leaves layer(g.x) != g.layer(x) for "
                                f"{len(fails)} of {len(gs)} elements of {group}_{D}: {what}", full)


def negative_control(ctx: Ctx, geom, ml, jnp):
    """a non-invariant bank: the oracle has to notice"""
    rng = ctx.rng
    D = 2
    in_sig = [((0, 0), 1), ((1, 0), 2)]
    target = [((1, 0), 1), ((0, 0), 2)]
    keys = sorted({L.fkey(s, t) for s, _ in in_sig for t, _ in target})
    bank = L.random_bank(rng, geom, jnp, D, keys, [3, 3])
    x = {(k, p): rng.integers(-3, 4, size=(ch, 4, 4) + (D,) * k).astype(np.float32) for (k, p), ch in in_sig}
    c = dict(D=D, in_sig=in_sig, target=target, bank=bank, bias="auto", opts={"padding": None}, x_blocks=x,
             torus=[True, True], padkind="none")
    try:
        layer, W, B = L.set_params(L.build_layer(ml, D, in_sig, target, bank, "auto", c["opts"]), rng)
        _, fails = equivariance_failures(geom, layer, c, refs.signed_perms(D), False)
    except Exception as e:  # noqa: BLE001
        # the layer itself is broken on this tree: the control cannot run; the cases below report it
        ctx.notes["negative_control"] = f"not run: the layer raised {type(e).__name__}"
        return
    ctx.hist("negative_control_flagged", bool(fails))
    ctx.notes["negative_control"] = f"random integer (non-invariant) bank: {len(fails)} of 8 elements of B_2 flagged"
    if not fails:
        raise InfraError("C06 negative control (non-invariant bank) was not flagged by the equivariance oracle")


def run(ctx: Ctx):
    import jax.numpy as jnp
    import ginjax.geometric as geom
    import ginjax.ml as ml

    ctx.rule = (
        "real ml.ConvContract layers over real invariant banks (B_2 with filters up to order 4, SO_2 and C2^2 with "
        "filters up to order 2, B_3 up to order 2; thorough also SO_3, C2^3), filters rescaled to integers; integer "
        "weights and non-zero integer biases set through eqx.tree_at; signatures = random subsets (1-3 types) of "
        "{(k,p): k<=2} (k<=1 for the smaller banks) in random order with unequal channel counts; the five bias settings "
        "in turn; padding kinds default/TORUS/SAME/VALID/integer/explicit equal pairs; filter dilation 1-2; image "
        "dilation 1-2 with literal padding (and, less often, with the string / default paddings; always twice with SAME / default on a non-toroidal image); per-axis different options only for C2^d; random torus flags (travel with "
        "the image); square and non-square extents 3-5; every element of the group (B_3 quick: 12 seeded elements incl. "
        "a reflection and an axis exchange); cyclic shifts on toroidal inputs; two layers per run with equal channel counts on each side and target types in unsorted order; three layers per run re-checked after two gradient steps over all their array leaves; LARGE filters: B_2 banks of side 7 and B_3 banks of side 5 (sparse random integer filters summed over the group with the reference action, invariance asserted exactly) on toroidal images with at least one odd extent (11x11, 9x10, 5x6x5; thorough: more extents, mixed flags, filter dilation 2), default / TORUS padding. Non-trivial: non-empty non-zero output "
        "and at least one non-identity element. Distinct = distinct (layer configuration, weights, biases, input)."
    )
    ctx.assumptions = [
        "hypotheses of the theorem: unit stride, the same zero padding on both sides of every axis, layer options that do not distinguish the axes exchanged by g, filters invariant under g",
        "integer-valued float32 data keeps the arithmetic exact; tolerance 1e-5 * (1 + max |output|) where the float32 spatial mean enters",
    ]
    ctx.trusted_extra = [
        "the reference group action harness/refs.py (validated against the Lean spec by the C02 check)",
        "geom.convolve_contract is modelled by convContractImpl (C04); the code's group action by tge (C02)",
    ]
    quick = ctx.tier == "quick"
    import equiv

    t0 = time.time()
    negative_control(ctx, geom, ml, jnp)
    T2 = L.TYPES
    T1 = L.TYPES[:4]
    plans = []
    b2, i2 = bank_for("B", 2, 4)
    plans.append(("B", 2, b2, i2, T2, False, 3, 12 if quick else 500, None))
    bs, i_s = bank_for("SO", 2, 2)
    plans.append(("SO", 2, bs, i_s, T1, False, 2, 5 if quick else 160, None))
    bc, ic = bank_for("C2", 2, 2)
    plans.append(("C2", 2, bc, ic, T1, True, 2, 5 if quick else 160, None))
    b3, i3 = bank_for("B", 3, 2)
    plans.append(("B", 3, b3, i3, T1, False, 2, 2 if quick else 40, 12 if quick else None))
    if not quick:
        for name in ("SO", "C2"):
            bb, ii = bank_for(name, 3, 2)
            plans.append((name, 3, bb, ii, T1, name == "C2", 2, 30, None))
    k = 0
    for name, D, bank, integer, types, axis_free, nmax, n, subset in plans:
        gs_all = group_elements(name, D)
        for i in range(n):
            bias = BIASES[k % len(BIASES)]
            k += 1
            kind = PADKINDS[(k * 5 + k // 6) % 6]
            # two layers of every run: image dilation 2 with the string padding SAME / the default on a
            # non-toroidal image (the code warns but must stay symmetric)
            force_ld = name == "B" and D == 2 and i in (2, 5)
            if force_ld:
                kind = "SAME" if i == 2 else "none"
            uniform = name == "B" and D == 2 and i in (3, 7)
            c = gen_case(ctx, D, bank, types, axis_free, nmax, bias, kind=kind, force_ld=force_ld, uniform=uniform)
            ctx.hist("uniform_channels_unsorted_targets", uniform)
            gs = gs_all
            if subset is not None and len(gs_all) > subset:
                gs = [np.eye(D, dtype=np.int64)] + equiv.group_subset(D, ctx.rng, subset - 1)
            one_layer(ctx, geom, ml, c, name, gs, integer, with_model=(D == 2 or i == 0))
            if name == "B" and D == 2 and i in (1, 3, 8) and c["opts"].get("lhs_dilation") is None:
                trained_layer(ctx, geom, ml, c, name, gs)
    large_filter_cases(ctx, geom, ml, quick)
    log(f"[C06] {ctx.evaluations} cases in {time.time() - t0:.1f}s")


def replay(ctx: Ctx, rep: dict):
    """re-run the stored layer (configuration, weights, biases, input) over its whole group"""
    import ginjax.geometric as geom
    import ginjax.ml as ml

    c0 = rep["case"]
    D, name = c0["D"], c0["group"]
    if c0.get("bank_M"):
        bank, integer = synth_bank(name, D, c0.get("bank_kmax", 2), int(c0["bank_M"]))
    else:
        bank, integer = bank_for(name, D, c0.get("bank_kmax", 2))
    arr = lambda b: np.array(b["data"], dtype=np.float32).reshape(b["shape"])
    c = dict(D=D, in_sig=[(tuple(t), n) for t, n in c0["input_keys"]], target=[(tuple(t), n) for t, n in c0["target_keys"]],
             bank=bank, bias=c0["use_bias"], opts=c0["opts"], torus=c0["is_torus"],
             x_blocks={tuple(e["key"]): arr(e["block"]) for e in c0["input"]}, padkind="replay",
             bank_M=c0.get("bank_M"))
    ctx.rule = "replay of one stored layer over its group"
    if c0.get("bank_M"):
        integer = integer and exact_bound(c) < 2 ** 24
    one_layer(ctx, geom, ml, c, name, group_elements(name, D), integer, params=(c0.get("weights", []), c0.get("bias", [])))
