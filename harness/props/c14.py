"""C14 - no cross-talk between batch entries, channels or tensor types.

correspondence (code <-> Lean model, exact on integer blocks): `MultiImage.times_group_element`,
  `.norm` (through its square), `.average_pool` (through the patch sum), `.get_component`,
  `.batch_get_component`, `.to_images` against the driver ops c14.tge / c14.norm / c14.average_pool /
  c14.get_component / c14.batch_get_component / c14.to_images; the single-image entry points against the
  per-image functions of the model (c14.one); `jax.vmap(f)` and the flatten -> vmap -> restore pattern
  against `vmap0` / `mapLeading` for a small family of per-image functions (c14.vmap, c14.map_leading);
  per-sample group-norm statistics of `ml.GroupNorm` against c14.group_stats (exact rationals).
oracle (the property's sentence on the real code): for every leading index the multi-image result equals
  the SINGLE-IMAGE entry point applied to that image alone (geom.times_group_element /
  GeometricImage.times_group_element, geom.norm / GeometricImage.norm, geom.average_pool /
  GeometricImage.average_pool); get_component / batch_get_component against a direct "channel c,
  component t" reference; to_images against per-index slicing; `jax.vmap(model)(batch)[i]` against
  `model(batch[i])` and against the same entry inside a different batch (others permuted + replaced by
  noise) for layers and models; per-entry losses unchanged when other entries change.
"""
from __future__ import annotations

import itertools
import time

import numpy as np

import refs
from common import Ctx, DriverReject

PRIMES = [2, 3, 5, 7, 11, 13, 17]


# --------------------------------------------------------------------------------------------
# wire format helpers


def arr_json(a) -> dict:
    a = np.asarray(a)
    return {"shape": [int(s) for s in a.shape], "data": [int(v) for v in a.reshape(-1)]}


def un_arr(j) -> np.ndarray:
    return np.array(j["data"], dtype=np.int64).reshape(j["shape"])


def mi_json(blocks: dict, D: int, torus) -> dict:
    return {"D": int(D), "is_torus": [bool(t) for t in torus],
            "data": [{"k": int(k), "p": int(p), "block": arr_json(b)} for (k, p), b in blocks.items()]}


def model_blocks(j: dict) -> dict:
    return {(e["k"], e["p"]): un_arr(e["block"]) for e in j["data"]}


def to_int(a):
    a = np.asarray(a)
    r = np.rint(a).astype(np.int64)
    if a.shape != r.shape or not np.array_equal(r.astype(a.dtype), a):
        return None
    return r


def small(j, limit=200):
    if isinstance(j, dict):
        if set(j.keys()) == {"shape", "data"} and isinstance(j["data"], list) and len(j["data"]) > limit:
            return {"shape": j["shape"], "data": f"<{len(j['data'])} values: see 'values' rule>"}
        return {k: small(v, limit) for k, v in j.items()}
    if isinstance(j, list):
        return [small(v, limit) for v in j]
    return j


def mat_list(g):
    return [[int(v) for v in row] for row in np.asarray(g)]


# --------------------------------------------------------------------------------------------
# generators


def all_types(d: int):
    return [(0, 0), (0, 1)] if d == 1 else [(k, p) for k in range(3) for p in (0, 1)]


def pick_sizes(rng, d: int, n_lead: int, ntypes: int, kmax: int, budget: int, even: int = 0):
    """(spatial, batch, chans): pairwise distinct extents, all different from D, primes when the
    budget allows, otherwise distinct integers >= 2; spatial extents are multiples of `even` when a
    patch has to divide them.  None when nothing fits the budget."""
    nb = max(n_lead - 1, 0)
    nc = ntypes if n_lead > 0 else 0

    def fits(spatial, batch, chans):
        top = max(chans) if chans else 1
        return int(np.prod(spatial + batch)) * top * d ** kmax <= budget

    pools = [[p for p in PRIMES if p != d], [n for n in range(2, 12) if n != d]]
    for pool in pools:
        for _ in range(80):
            if even:
                mult = [even * q for q in (2, 3, 5, 7) if even * q != d]
                spatial = [int(mult[i]) for i in rng.permutation(len(mult))[:d]]
                rest = [n for n in pool if n not in spatial]
            else:
                perm = [int(pool[i]) for i in rng.permutation(len(pool))]
                spatial, rest = perm[:d], perm[d:]
            rest = [int(rest[i]) for i in rng.permutation(len(rest))]
            if len(rest) < nb + min(nc, 1):
                continue
            batch = rest[:nb]
            cpool = rest[nb:]
            if nc > len(cpool):
                # other types may re-use extents of the spatial axes of *other* blocks, never their own
                cpool = cpool + [n for n in pool if n not in batch and n not in spatial and n not in cpool]
            if nc > len(cpool):
                continue
            chans = cpool[:nc]
            if fits(spatial, batch, chans):
                return spatial, batch, chans, pool is pools[0]
        # deterministic smallest assignment of this pool
        srt = sorted(pool)
        if not even and len(srt) >= d + nb + nc:
            spatial, batch, chans = srt[:d], srt[d:d + nb], srt[d + nb:d + nb + nc]
            if fits(spatial, batch, chans):
                return spatial, batch, chans, pool is pools[0]
    return None


def encode(shape, base: int, small_vals: bool = False) -> np.ndarray:
    """position-encoded integer block: every entry distinct (base+1 ...); `small_vals` folds the code
    into [-125, 125] (still different from image to image) so that sums of squares stay exact"""
    n = int(np.prod(shape)) if len(shape) else 1
    v = np.arange(base + 1, base + 1 + n, dtype=np.int64)
    if small_vals:
        v = (v * 7919) % 251 - 125
    return v.reshape(shape)


class Config:
    def __init__(self, d, n_lead, types, spatial, batch, chans, primes, torus):
        self.d, self.n_lead, self.types = d, n_lead, list(types)
        self.spatial, self.batch, self.chans = list(spatial), list(batch), list(chans)
        self.primes, self.torus = primes, tuple(torus)

    def lead(self, i):
        return tuple(self.batch) + ((self.chans[i],) if self.n_lead > 0 else ())

    def blocks(self, small_vals=False) -> dict:
        out, base = {}, 0
        for i, (k, p) in enumerate(self.types):
            shape = self.lead(i) + tuple(self.spatial) + (self.d,) * k
            out[(k, p)] = encode(shape, base, small_vals)
            base += int(np.prod(shape)) + 1000
        return out

    def describe(self) -> dict:
        return {"D": self.d, "n_leading": self.n_lead, "types": [list(t) for t in self.types],
                "spatial": self.spatial, "batch_axes": self.batch,
                "channels": self.chans if self.n_lead else None, "is_torus": list(self.torus),
                "values": "block of type number j (dict order) holds base_j+1.. in row-major order, "
                          "base_0=0, base_{j+1}=base_j+size_j+1000 (folded to (v*7919)%251-125 for norm)"}

    def key(self):
        return (self.d, self.n_lead, tuple(self.types), tuple(self.spatial), tuple(self.batch), tuple(self.chans))


def gen_config(ctx: Ctx, d: int, n_lead: int, ntypes: int, budget: int, even: int = 0, kmax: int = 2):
    rng = ctx.rng
    keys = [t for t in all_types(d) if t[0] <= kmax]
    ntypes = min(ntypes, len(keys))
    types = [keys[i] for i in rng.permutation(len(keys))[:ntypes]]
    got = pick_sizes(rng, d, n_lead, ntypes, max(k for k, _ in types), budget, even)
    while got is None and max(k for k, _ in types) > 0:
        # lower the tensor order of the biggest type until the blocks fit
        kbig = max(k for k, _ in types)
        types = list(dict.fromkeys((min(k, kbig - 1), p) for k, p in types))
        got = pick_sizes(rng, d, n_lead, len(types), max(k for k, _ in types), budget, even)
    if got is None:
        return None
    spatial, batch, chans, primes = got
    torus = tuple(bool(b) for b in rng.integers(0, 2, size=d))
    return Config(d, n_lead, types, spatial, batch, chans[:len(types)], primes, torus)


def entries_bucket(cfg) -> str:
    """histogram bucket of the largest number of leading entries (product of the leading axes) of a block"""
    n = max([int(np.prod(cfg.lead(i))) for i in range(len(cfg.types))] or [1]) if cfg.n_lead else 1
    if n <= 1024:
        return "<=1024"
    return ">1024, multiple of 1024" if n % 1024 == 0 else ">1024, not a multiple of 1024"


def lead_indices(ctx: Ctx, lead, cap: int, tail: int = 0):
    """all leading multi-indices, or first + last + a seeded sample of `cap` (+ the last `tail` ones)"""
    idx = list(itertools.product(*[range(n) for n in lead]))
    if len(idx) <= cap + tail:
        return idx
    pick = {0, len(idx) - 1}
    pick.update(int(i) for i in ctx.rng.choice(len(idx), size=cap - 2, replace=False))
    pick.update(range(len(idx) - tail, len(idx)))
    return [idx[i] for i in sorted(pick)]


def make_mi(geom, jnp, blocks: dict, D: int, torus):
    return geom.MultiImage({key: jnp.asarray(b, dtype=jnp.float32) for key, b in blocks.items()}, D, tuple(torus))


def orders(ctx: Ctx, types, every: bool):
    perms = list(itertools.permutations(types))
    if every or len(perms) <= 2:
        return perms
    sel = [perms[0], perms[-1]] + [perms[int(i)] for i in ctx.rng.choice(len(perms), size=1)]
    return list(dict.fromkeys(sel))


# --------------------------------------------------------------------------------------------
# A. jax.vmap is a map; the flatten -> vmap -> restore pattern


def py_per_image(geom, jnp, f: dict):
    kind = f["kind"]
    if kind == "marker":
        return lambda y: f["mul"] * y + f["add"] + jnp.sum(y)
    if kind == "tge":
        g = np.array(f["M"])
        return lambda y: geom.times_group_element(f["d"], y, f["p"], g)
    if kind == "pool_sum":
        return lambda y: geom.average_pool(f["d"], y, f["patch"]) * (f["patch"] ** f["d"])
    if kind == "norm_sq":
        return lambda y: geom.norm(f["d"], y)  # squared (in float64) by `conv_for`
    raise ValueError(kind)


def sq_int(a):
    """rint(a^2) in float64 for a float32 norm of small integers; None when it is not an integer"""
    a = np.asarray(a, dtype=np.float64) ** 2
    r = np.rint(a)
    return r.astype(np.int64) if np.all(np.abs(r - a) <= 0.25) else None


def conv_for(kind):
    return sq_int if kind == "norm_sq" else to_int


def check_vmap_is_map(ctx: Ctx, geom, jax, jnp, n_cases: int):
    rng = ctx.rng
    for it in range(n_cases):
        d = int(rng.choice([1, 2, 2, 3]))
        kind = ["marker", "tge", "pool_sum", "norm_sq"][it % 4]
        if kind == "pool_sum" and d == 1:
            d = 2
        k = 0 if d == 1 else int(rng.integers(0, 3))
        n_lead = int(rng.integers(1, 4))
        got = pick_sizes(rng, d, n_lead, 1, k, 4000, even=2 if kind == "pool_sum" else 0)
        if got is None:
            continue
        spatial, batch, chans, _ = got
        lead = tuple(batch) + (chans[0],)
        rest = tuple(spatial) + (d,) * k
        x = encode(lead + rest, 0, small_vals=(kind == "norm_sq"))
        if kind == "marker":
            f = {"kind": "marker", "mul": int(rng.integers(2, 5)), "add": int(rng.integers(1, 50))}
        elif kind == "tge":
            ops = [g for g in refs.signed_perms(d)]
            f = {"kind": "tge", "d": d, "M": mat_list(ops[int(rng.integers(len(ops)))]), "p": int(rng.integers(0, 2))}
        elif kind == "pool_sum":
            f = {"kind": "pool_sum", "d": d, "patch": 2}
        else:
            f = {"kind": "norm_sq", "d": d}
        fpy = py_per_image(geom, jnp, f)
        case = {"part": "vmap", "f": f, "leading": list(lead), "image_shape": list(rest),
                "values": "x = 1..n row-major" + (" folded to (v*7919)%251-125" if kind == "norm_sq" else "")}
        ctx.case(("vmap", kind, d, k, lead, rest, str(f)), len(lead) >= 1 and int(np.prod(lead)) > 1,
                 sample=case if it < 2 else None)
        ctx.hist("vmap_family", kind)
        # (1) jax.vmap over the first axis of the flattened block == map over rows
        flat = x.reshape((-1,) + rest)
        conv = conv_for(kind)
        try:
            impl_flat = conv(jax.vmap(fpy)(jnp.asarray(flat, dtype=jnp.float32)))
            impl = None if impl_flat is None else impl_flat.reshape(lead + impl_flat.shape[1:])
        except Exception as e:
            ctx.violation("correspondence", f"jax.vmap of the per-image function raised: {e!r}"[:300], case)
            continue
        rows = [conv(fpy(jnp.asarray(r, dtype=jnp.float32))) for r in flat[: 6]]
        try:
            m_flat = un_arr(ctx.driver.call("c14.vmap", x=arr_json(flat), f=f))
            m_full = un_arr(ctx.driver.call("c14.map_leading", x=arr_json(x), n_lead=len(lead), f=f))
        except DriverReject as e:
            ctx.violation("correspondence", f"model rejected a valid vmap case: {e}", case)
            continue
        if impl_flat is None or any(r is None or not np.array_equal(r, impl_flat[i]) for i, r in enumerate(rows)):
            ctx.violation("oracle", "jax.vmap(f)(x)[i] differs from f(x[i])", case)
        elif impl_flat.shape != m_flat.shape or not np.array_equal(impl_flat, m_flat):
            ctx.violation("correspondence", "jax.vmap(f) differs from the Lean model vmap0 (stack . map f . rows)", case)
        elif impl.shape != m_full.shape or not np.array_equal(impl, m_full):
            ctx.violation("correspondence", "flatten -> vmap -> restore differs from the Lean model mapLeading", case)


# --------------------------------------------------------------------------------------------
# B. MultiImage methods


def single_tge(geom, jnp, d, img, p, g, torus, alt: bool):
    x = jnp.asarray(img, dtype=jnp.float32)
    if alt:
        return to_int(geom.GeometricImage(x, p, d, tuple(torus)).times_group_element(np.asarray(g)).data)
    return to_int(geom.times_group_element(d, x, p, np.asarray(g)))


def check_tge(ctx: Ctx, geom, jnp, cfg: Config, g, cap: int, tail: int = 0):
    blocks = cfg.blocks()
    mi = make_mi(geom, jnp, blocks, cfg.d, cfg.torus)
    case = {"op": "times_group_element", **cfg.describe(), "g": mat_list(g)}
    nontriv = not np.array_equal(np.asarray(g), np.eye(cfg.d, dtype=np.int64)) and cfg.n_lead > 0
    ctx.case(("tge",) + cfg.key() + (str(mat_list(g)),), nontriv, sample=case)
    ctx.hist("op", "times_group_element"); ctx.hist("d", cfg.d); ctx.hist("n_leading", cfg.n_lead)
    ctx.hist("n_types", len(cfg.types)); ctx.hist("prime_extents", cfg.primes)
    ctx.hist("leading_entries", entries_bucket(cfg))
    for k, _ in cfg.types:
        ctx.hist("k", k)
    try:
        out = mi.times_group_element(np.asarray(g))
    except Exception as e:
        case["raised"] = repr(e)[:300]
        ctx.violation("oracle", "MultiImage.times_group_element raised on a valid multi image", case)
        return
    rot = refs.rotated_dims(g, cfg.spatial)
    bad = []
    if set(out.keys()) != set(blocks.keys()):
        bad.append(f"keys {list(out.keys())} != {list(blocks.keys())}")
    if out.D != cfg.d:
        bad.append("D changed")
    impl = {}
    for i, ((k, p), b) in enumerate(blocks.items()):
        if (k, p) not in out:
            continue
        ob = to_int(out[(k, p)])
        want_shape = cfg.lead(i) + rot + (cfg.d,) * k
        if ob is None or ob.shape != want_shape:
            bad.append(f"block {(k, p)}: shape {None if ob is None else ob.shape}, expected {want_shape}")
            continue
        impl[(k, p)] = ob
        for n, li in enumerate(lead_indices(ctx, cfg.lead(i), cap, tail)):
            want = single_tge(geom, jnp, cfg.d, b[li], p, g, cfg.torus, alt=bool(n % 2))
            if want is None or not np.array_equal(ob[li], want):
                bad.append(f"block {(k, p)} at leading index {list(li)} is not the single-image action on that image")
                break
    if bad:
        case["problems"] = bad[:4]
        ctx.violation("oracle", "MultiImage.times_group_element: " + "; ".join(bad[:2]), case)
        return
    try:
        mj = ctx.driver.call("c14.tge", mi=mi_json(blocks, cfg.d, cfg.torus), d=cfg.d, M=mat_list(g))
    except DriverReject as e:
        ctx.violation("correspondence", f"model rejected times_group_element: {e}", case)
        return
    mb = model_blocks(mj)
    diffs = [key for key in impl if key not in mb or mb[key].shape != impl[key].shape or not np.array_equal(mb[key], impl[key])]
    if diffs or set(mb) != set(impl):
        ctx.violation("correspondence", f"MultiImage.times_group_element differs from the Lean model on blocks {diffs}", case)
    elif tuple(mj["is_torus"]) != tuple(out.is_torus) or tuple(out.is_torus) != refs.transport(g, cfg.torus):
        ctx.violation("correspondence", f"is_torus {tuple(out.is_torus)} vs model {mj['is_torus']}", case)


def check_pool(ctx: Ctx, geom, jnp, cfg: Config, patch: int, cap: int, tail: int = 0):
    blocks = cfg.blocks()
    mi = make_mi(geom, jnp, blocks, cfg.d, cfg.torus)
    scale = patch ** cfg.d
    exact = patch == 2
    case = {"op": "average_pool", **cfg.describe(), "patch_len": patch}
    ctx.case(("pool",) + cfg.key() + (patch,), cfg.n_lead > 0, sample=case)
    ctx.hist("op", "average_pool"); ctx.hist("d", cfg.d); ctx.hist("n_leading", cfg.n_lead)
    ctx.hist("leading_entries", entries_bucket(cfg))

    def as_sum(a):
        a = np.asarray(a, dtype=np.float64) * scale
        r = np.rint(a)
        if exact:
            return r.astype(np.int64) if np.array_equal(r, a) else None
        return r.astype(np.int64) if np.all(np.abs(r - a) <= 1e-5 * (1 + np.abs(a))) else None

    try:
        out = mi.average_pool(patch)
    except Exception as e:
        case["raised"] = repr(e)[:300]
        ctx.violation("oracle", "MultiImage.average_pool raised on a valid multi image", case)
        return
    bad, impl = [], {}
    if set(out.keys()) != set(blocks.keys()) or out.D != cfg.d or tuple(out.is_torus) != cfg.torus:
        bad.append("keys / D / is_torus changed")
    for i, ((k, p), b) in enumerate(blocks.items()):
        if (k, p) not in out:
            continue
        ob = as_sum(out[(k, p)])
        want_shape = cfg.lead(i) + tuple(s // patch for s in cfg.spatial) + (cfg.d,) * k
        if ob is None or ob.shape != want_shape:
            bad.append(f"block {(k, p)}: shape {np.asarray(out[(k, p)]).shape}, expected {want_shape} (or non-integer patch sums)")
            continue
        impl[(k, p)] = ob
        for n, li in enumerate(lead_indices(ctx, cfg.lead(i), cap, tail)):
            x = jnp.asarray(b[li], dtype=jnp.float32)
            if n % 2:
                want = as_sum(geom.GeometricImage(x, p, cfg.d, cfg.torus).average_pool(patch).data)
            else:
                want = as_sum(geom.average_pool(cfg.d, x, patch))
            if want is None or not np.array_equal(ob[li], want):
                bad.append(f"block {(k, p)} at leading index {list(li)} is not the single-image average pool of that image")
                break
    if bad:
        case["problems"] = bad[:4]
        ctx.violation("oracle", "MultiImage.average_pool: " + "; ".join(bad[:2]), case)
        return
    try:
        mb = model_blocks(ctx.driver.call("c14.average_pool", mi=mi_json(blocks, cfg.d, cfg.torus), patch=patch))
    except DriverReject as e:
        ctx.violation("correspondence", f"model rejected average_pool: {e}", case)
        return
    diffs = [key for key in impl if key not in mb or mb[key].shape != impl[key].shape or not np.array_equal(mb[key], impl[key])]
    if diffs or set(mb) != set(impl):
        ctx.violation("correspondence", f"MultiImage.average_pool differs from the Lean model (patch sums) on {diffs}", case)


def check_pool_rejects(ctx: Ctx, geom, jnp):
    """inputs both entry points must treat alike: D = 1 (no pooling), a patch that does not divide"""
    for d, shape, patch, what in [(1, (4,), 2, "D=1"), (1, (6,), 3, "D=1"), (2, (4, 5), 2, "non-dividing patch"),
                                  (3, (4, 6, 9), 2, "non-dividing patch")]:
        img = encode(shape, 0)
        x = jnp.asarray(img, dtype=jnp.float32)
        res = {}
        for name, fn in [("geom.average_pool", lambda: geom.average_pool(d, x, patch)),
                         ("GeometricImage.average_pool", lambda: geom.GeometricImage(x, 0, d).average_pool(patch)),
                         ("MultiImage.average_pool", lambda: geom.MultiImage({(0, 0): x[None]}, d).average_pool(patch))]:
            try:
                fn()
                res[name] = "ok"
            except Exception:
                res[name] = "rejected"
        try:
            ctx.driver.call("c14.average_pool", mi=mi_json({(0, 0): img[None]}, d, (True,) * d), patch=patch)
            res["model"] = "ok"
        except DriverReject:
            res["model"] = "rejected"
        ctx.case(("pool_reject", d, shape, patch), False)
        ctx.hist("malformed", f"average_pool {what}: " + "/".join(sorted(set(res.values()))))
        case = {"op": "average_pool", "D": d, "shape": list(shape), "patch_len": patch, "outcomes": res}
        if res["MultiImage.average_pool"] != res["geom.average_pool"] or res["GeometricImage.average_pool"] != res["geom.average_pool"]:
            ctx.violation("oracle", f"average_pool ({what}): the multi-image and the single-image entry points disagree on acceptance", case)
        elif res["model"] != res["geom.average_pool"]:
            ctx.violation("correspondence", f"average_pool ({what}): model and implementation disagree on acceptance", case)


def check_norm(ctx: Ctx, geom, jnp, cfg: Config, cap: int):
    blocks = cfg.blocks(small_vals=True)
    mi = make_mi(geom, jnp, blocks, cfg.d, cfg.torus)
    case = {"op": "norm", **cfg.describe()}
    ctx.case(("norm",) + cfg.key(), cfg.n_lead > 0 and (len(cfg.types) > 1 or cfg.chans[0] > 1), sample=case)
    ctx.hist("op", "norm"); ctx.hist("d", cfg.d); ctx.hist("n_leading", cfg.n_lead); ctx.hist("n_types", len(cfg.types))

    def sq(a):
        a = np.asarray(a, dtype=np.float64) ** 2
        r = np.rint(a)
        return r.astype(np.int64) if np.all(np.abs(r - a) <= 0.25) else None

    if cfg.n_lead == 0:
        try:
            mi.norm()
            ri = "ok"
        except Exception:
            ri = "rejected"
        try:
            ctx.driver.call("c14.norm", mi=mi_json(blocks, cfg.d, cfg.torus))
            rm = "ok"
        except DriverReject:
            rm = "rejected"
        ctx.hist("malformed", f"norm without a channel axis: impl={ri} model={rm}")
        return
    try:
        out = mi.norm()
    except Exception as e:
        case["raised"] = repr(e)[:300]
        ctx.violation("oracle", "MultiImage.norm raised on a valid multi image", case)
        return
    nb = cfg.n_lead - 1
    total = sum(cfg.chans)
    want_shape = tuple(cfg.batch) + (total,) + tuple(cfg.spatial)
    Z = sq(out[(0, 0)]) if list(out.keys()) == [(0, 0)] else None
    if Z is None or Z.shape != want_shape or out.D != cfg.d or tuple(out.is_torus) != cfg.torus:
        case["problems"] = [f"keys {list(out.keys())}, shape {None if Z is None else Z.shape}, expected one (0,0) block of shape {want_shape}"]
        ctx.violation("oracle", "MultiImage.norm: wrong container / shape / non-integer squared norms", case)
        return
    # expected channels, in dict order, from the single-image entry point
    off, bad, misplaced = 0, [], False
    for i, ((k, p), b) in enumerate(blocks.items()):
        for n, li in enumerate(lead_indices(ctx, cfg.lead(i), cap)):
            x = jnp.asarray(b[li], dtype=jnp.float32)
            if n % 2:
                want = sq(geom.GeometricImage(x, p, cfg.d, cfg.torus).norm().data)
            else:
                want = sq(geom.norm(cfg.d, x))
            bi, ci = li[:nb], li[nb]
            got = Z[tuple(bi) + (off + ci,)]
            if want is None or not np.array_equal(got, want):
                # does this channel exist elsewhere in the same batch entry? (placement vs cross-talk)
                same = [c for c in range(total) if want is not None and np.array_equal(Z[tuple(bi) + (c,)], want)]
                if same:
                    misplaced = True
                else:
                    bad.append(f"type {(k, p)} batch {list(bi)} channel {ci}: scalar channel {off + ci} is not the "
                               "single-image norm of that image, and no channel of that batch entry is")
                    break
        off += cfg.chans[i]
    if bad:
        case["problems"] = bad[:4]
        ctx.violation("oracle", "MultiImage.norm: " + bad[0], case)
        return
    try:
        mb = model_blocks(ctx.driver.call("c14.norm", mi=mi_json(blocks, cfg.d, cfg.torus)))
    except DriverReject as e:
        ctx.violation("correspondence", f"model rejected norm: {e}", case)
        return
    if misplaced or set(mb) != {(0, 0)} or mb[(0, 0)].shape != Z.shape or not np.array_equal(mb[(0, 0)], Z):
        ctx.violation("correspondence", "MultiImage.norm: every channel is a single-image norm, but the channel placement "
                      "(offset = channels of the preceding types) differs from the Lean model" if misplaced else
                      "MultiImage.norm squared differs from the Lean model", case)


def component_columns(blocks: dict, d: int, T: int):
    """the property's sentence: component number i of the (time, spatial, c*tensor) layout is
    channel c, tensor component t of its type, types in dict order; returns [(type, c, t, array (T,)+spatial)]"""
    cols = []
    for (k, p), b in blocks.items():
        c = b.shape[0] // T
        v = b.reshape((c, T) + b.shape[1:1 + d] + (d ** k,))
        for ci in range(c):
            for tc in range(d ** k):
                cols.append(((k, p), ci, tc, v[ci, ..., tc]))
    return cols


def check_component(ctx: Ctx, geom, jnp, cfg: Config, T: int, batched: bool, n_comps: int):
    """cfg has n_lead = 1 (get_component) or 2 (batch_get_component); channel extents are c*T"""
    blocks = {}
    base = 0
    for i, (k, p) in enumerate(cfg.types):
        shape = tuple(cfg.batch) + (cfg.chans[i] * T,) + tuple(cfg.spatial) + (cfg.d,) * k
        blocks[(k, p)] = encode(shape, base)
        base += int(np.prod(shape)) + 1000
    mi = make_mi(geom, jnp, blocks, cfg.d, cfg.torus)
    W = sum(c * cfg.d ** k for c, (k, _) in zip(cfg.chans, cfg.types))
    comps = [("idx", i) for i in range(W)]
    if len(comps) > n_comps:
        keep = {0, W - 1} | {int(i) for i in ctx.rng.choice(W, size=n_comps - 2, replace=False)}
        comps = [("idx", i) for i in sorted(keep)]
    for _ in range(2):
        lo = int(ctx.rng.integers(0, W))
        hi = int(ctx.rng.integers(lo + 1, W + 1))
        comps.append(("slice", (lo, hi)))
    comps.append(("slice", (0, W)))
    name = "batch_get_component" if batched else "get_component"
    for kind, c in comps:
        comp_py = c if kind == "idx" else slice(c[0], c[1])
        comp_js = {"idx": c} if kind == "idx" else {"slice": [c[0], c[1]]}
        case = {"op": name, **cfg.describe(), "channels_times_future_steps": [ch * T for ch in cfg.chans],
                "future_steps": T, "component": comp_js}
        ctx.case((name,) + cfg.key() + (T, str(comp_js)), len(cfg.types) > 1 or T > 1, sample=case)
        ctx.hist("op", name); ctx.hist("future_steps", T); ctx.hist("component_kind", kind)
        ctx.hist("d", cfg.d); ctx.hist("n_types", len(cfg.types))
        try:
            out = mi.batch_get_component(comp_py, T) if batched else mi.get_component(comp_py, T)
        except Exception as e:
            case["raised"] = repr(e)[:300]
            ctx.violation("oracle", f"MultiImage.{name} raised on a valid multi image", case)
            continue
        Z = to_int(out[(0, 0)]) if list(out.keys()) == [(0, 0)] else None

        def ref_for(bl):
            cols = component_columns(bl, cfg.d, T)
            if kind == "idx":
                return cols[c][3]
            return np.concatenate([cols[i][3] for i in range(c[0], c[1])], axis=0)

        if batched:
            B = cfg.batch[0]
            ref = np.stack([ref_for({key: b[bi] for key, b in blocks.items()}) for bi in range(B)])
        else:
            ref = ref_for(blocks)
        bad = None
        if Z is None or Z.shape != ref.shape or out.D != cfg.d or tuple(out.is_torus) != cfg.torus:
            bad = f"container/shape: keys {list(out.keys())}, shape {None if Z is None else Z.shape}, expected {ref.shape}"
        elif not np.array_equal(Z, ref):
            bad = "the selected component is not (channel, tensor component) of the type the index designates"
        elif batched:
            # the property's sentence: entry b == get_component of entry b alone
            for bi in lead_indices(ctx, (cfg.batch[0],), 3):
                one = make_mi(geom, jnp, {key: b[bi[0]] for key, b in blocks.items()}, cfg.d, cfg.torus)
                alone = to_int(one.get_component(comp_py, T)[(0, 0)])
                if alone is None or not np.array_equal(alone, Z[bi[0]]):
                    bad = f"batch entry {bi[0]} differs from get_component applied to that entry alone"
                    break
        if bad:
            case["problem"] = bad
            key = None
            if batched and Z is not None:
                # diagnostic: is it the legacy behaviour D12 (types taken in sorted key order inside the vmap)?
                try:
                    lj = ctx.driver.call("c14.batch_get_component_legacy", mi=mi_json(blocks, cfg.d, cfg.torus),
                                         component=comp_js, future_steps=T)
                    lb = model_blocks(lj).get((0, 0))
                    if lb is not None and lb.shape == Z.shape and np.array_equal(lb, Z):
                        case["diagnostic"] = ("the output equals the legacy model batchGetComponentLegacy: the types are "
                                              "concatenated in SORTED key order inside the vmap (defect D12)")
                        key = "D12-batch-get-component-key-order"
                except DriverReject:
                    pass
            ctx.violation("oracle", f"MultiImage.{name}: {bad}", case, key=key)
            continue
        try:
            mj = ctx.driver.call("c14." + name, mi=mi_json(blocks, cfg.d, cfg.torus), component=comp_js, future_steps=T)
        except DriverReject as e:
            ctx.violation("correspondence", f"model rejected {name}: {e}", case)
            continue
        mb = model_blocks(mj)
        if set(mb) != {(0, 0)} or mb[(0, 0)].shape != Z.shape or not np.array_equal(mb[(0, 0)], Z):
            ctx.violation("correspondence", f"MultiImage.{name} differs from the Lean model", case)


def check_to_images(ctx: Ctx, geom, jnp, cfg: Config):
    blocks = cfg.blocks()
    mi = make_mi(geom, jnp, blocks, cfg.d, cfg.torus)
    case = {"op": "to_images", **cfg.describe()}
    ctx.case(("to_images",) + cfg.key(), cfg.n_lead > 0, sample=case)
    ctx.hist("op", "to_images"); ctx.hist("d", cfg.d); ctx.hist("n_leading", cfg.n_lead); ctx.hist("n_types", len(cfg.types))
    try:
        imgs = mi.to_images()
    except Exception as e:
        case["raised"] = repr(e)[:300]
        ctx.violation("oracle", "MultiImage.to_images raised on a valid multi image", case)
        return
    want = []
    for i, ((k, p), b) in enumerate(blocks.items()):
        for li in itertools.product(*[range(n) for n in cfg.lead(i)]):
            want.append((k, p, b[li]))
    got = []
    for g in imgs:
        a = to_int(g.data)
        got.append((int(g.k), int(g.parity), a, int(g.D), tuple(g.is_torus)))

    def same(w, g):
        return g[2] is not None and w[0] == g[0] and w[1] == g[1] and w[2].shape == g[2].shape and np.array_equal(w[2], g[2])

    meta_ok = all(g[3] == cfg.d and g[4] == cfg.torus for g in got)
    if len(got) == len(want) and meta_ok and all(same(w, g) for w, g in zip(want, got)):
        pass
    else:
        # a re-ordering of the right images, or wrong images?
        used, perm_ok = set(), len(got) == len(want) and meta_ok
        if perm_ok:
            for w in want:
                hit = next((j for j, g in enumerate(got) if j not in used and same(w, g)), None)
                if hit is None:
                    perm_ok = False
                    break
                used.add(hit)
        if perm_ok:
            ctx.violation("correspondence", "MultiImage.to_images returns the right images in another order than "
                          "(dict order, row-major leading index) of the Lean model", case)
        else:
            first = next((j for j, (w, g) in enumerate(zip(want, got)) if not same(w, g)), None)
            case["problem"] = f"{len(got)} images, expected {len(want)}; first wrong image: number {first}"
            ctx.violation("oracle", "MultiImage.to_images: image number offset+ravel(li) is not the image at leading index li "
                          "of its type (per-index slicing)", case)
        return
    mj = ctx.driver.call("c14.to_images", mi=mi_json(blocks, cfg.d, cfg.torus))
    ok = len(mj) == len(got) and all(
        e["parity"] == g[1] and e["D"] == g[3] and tuple(e["is_torus"]) == g[4]
        and e["data"]["shape"] == list(g[2].shape) and np.array_equal(un_arr(e["data"]), g[2]) for e, g in zip(mj, got))
    if not ok:
        ctx.violation("correspondence", "MultiImage.to_images differs from the Lean model", case)


def check_single_entry_points(ctx: Ctx, geom, jnp, n_cases: int):
    """the single-image entry points against the per-image functions of the model"""
    rng = ctx.rng
    for it in range(n_cases):
        kind = ["tge", "pool_sum", "norm_sq"][it % 3]
        d = int(rng.choice([2, 3])) if kind == "pool_sum" else int(rng.choice([1, 2, 3]))
        k = 0 if d == 1 else int(rng.integers(0, 3))
        got = pick_sizes(rng, d, 0, 1, k, 3000, even=2 if kind == "pool_sum" else 0)
        if got is None:
            continue
        spatial = got[0]
        img = encode(tuple(spatial) + (d,) * k, 0, small_vals=(kind == "norm_sq"))
        x = jnp.asarray(img, dtype=jnp.float32)
        if kind == "tge":
            ops = refs.signed_perms(d)
            g = ops[int(rng.integers(len(ops)))]
            p = int(rng.integers(0, 2))
            f = {"kind": "tge", "d": d, "M": mat_list(g), "p": p}
            impl = to_int(geom.times_group_element(d, x, p, np.asarray(g)))
        elif kind == "pool_sum":
            f = {"kind": "pool_sum", "d": d, "patch": 2}
            impl = to_int(np.asarray(geom.average_pool(d, x, 2), dtype=np.float64) * 2 ** d)
        else:
            f = {"kind": "norm_sq", "d": d}
            impl = sq_int(geom.norm(d, x))
        case = {"part": "single-image entry point", "f": f, "image_shape": list(img.shape)}
        ctx.case(("one", kind, d, k, tuple(spatial), str(f)), True)
        ctx.hist("single_entry_point", kind)
        try:
            model = un_arr(ctx.driver.call("c14.one", x=arr_json(img), f=f))
        except DriverReject as e:
            ctx.violation("correspondence", f"model rejected a valid single image: {e}", case)
            continue
        if impl is None or impl.shape != model.shape or not np.array_equal(impl, model):
            ctx.violation("correspondence", f"single-image {kind} differs from the per-image function of the Lean model", case)


def check_many_entries(ctx: Ctx, geom, jnp, cap: int):
    """times_group_element / average_pool on blocks with MANY leading entries (product of the leading axes in the
    thousands, neither a power of two nor a multiple of 1024; 1-3 leading axes), tiny images: "for any number of
    leading axes" includes any extents of them.  A second type with few channels rides along (blocks of one multi
    image may take different code paths).  Judged like every other case: per entry against the single-image entry
    points, on the first, seeded and the last 100 leading indices of each block."""
    rng = ctx.rng
    quick = ctx.tier == "quick"
    leads = [((37,), 31), ((3, 7), 53), ((), 1100)]
    if quick:
        # one more seeded shape: one axis, or two axes (prime x anything) with 1025..3100 entries
        extra = 1
    else:
        leads += [((), 2100), ((2, 3), 343), ((), 2048), ((41,), 50)]
        extra = 4
    for _ in range(extra):
        while True:
            if rng.integers(0, 2):
                batch, c = (), int(rng.integers(1025, 3100))
            else:
                b0 = int(rng.choice([3, 5, 7, 11, 13, 29, 43]))
                batch, c = (b0,), int(rng.integers(1025 // b0 + 1, 3100 // b0))
            n = int(np.prod(batch)) * c
            if n > 1024 and n % 1024 and c not in batch and c > 3:
                break
        leads.append((batch, c))
    for j, (batch, c) in enumerate(leads):
        n_lead = len(batch) + 1
        # --- times_group_element: 2x3 (d=2) or 2x3x1.. kept tiny; k <= 1
        d = 2 if quick or j % 3 else 3
        spatial = [2, 3] if d == 2 else [2, 3, 1]
        types = [[(0, 0), (1, 1)], [(1, 0)], [(0, 1), (0, 0)], [(1, 1), (0, 1)]][j % 4]
        chans = [c] + [2] * (len(types) - 1)
        if j % 2:
            types, chans = types[::-1], chans[::-1]  # the big block is not always the first one
        torus = tuple(bool(b) for b in rng.integers(0, 2, size=d))
        cfg = Config(d, n_lead, types, spatial, list(batch), chans, False, torus)
        gs = [g for g in refs.signed_perms(d) if np.any(np.abs(g) != np.eye(d, dtype=np.int64))]
        check_tge(ctx, geom, jnp, cfg, gs[int(rng.integers(len(gs)))], cap, tail=100)
        # --- average_pool, patch 2 (exact patch sums)
        d = 2 if quick or (j + 1) % 3 else 3
        spatial = [2, 4] if d == 2 else [2, 4, 2]
        cfg = Config(d, n_lead, types, spatial, list(batch), chans, False, tuple(bool(b) for b in rng.integers(0, 2, size=d)))
        check_pool(ctx, geom, jnp, cfg, 2, cap, tail=100)


def run_methods(ctx: Ctx, geom, jax, jnp):
    quick = ctx.tier == "quick"
    budget = 6000 if quick else 60000
    cap = 6 if quick else 48
    rng = ctx.rng
    for d in (1, 2, 3):
        for n_lead in (0, 1, 2, 3):
            big = budget if not (d == 3 and n_lead == 3) else max(budget, 14000)
            reps = 2 if quick else 6
            for rep in range(reps):
                # --- times_group_element
                cfg = gen_config(ctx, d, n_lead, int(rng.integers(1, 4)), big)
                if cfg is None:
                    ctx.hist("skipped", f"tge d={d} n_lead={n_lead}: over budget")
                else:
                    gs = [g for g in refs.signed_perms(d) if not np.array_equal(g, np.eye(d, dtype=np.int64))]
                    swaps = [g for g in gs if np.any(np.abs(g) != np.eye(d, dtype=np.int64))] or gs
                    picks = [swaps[int(rng.integers(len(swaps)))], gs[int(rng.integers(len(gs)))]]
                    for oi, order in enumerate(orders(ctx, cfg.types, every=False)[: (2 if quick else 6)]):
                        c2 = Config(d, n_lead, order, cfg.spatial, cfg.batch,
                                    [cfg.chans[cfg.types.index(t)] for t in order] if n_lead else [], cfg.primes, cfg.torus)
                        check_tge(ctx, geom, jnp, c2, picks[oi % 2], cap)
                # --- norm (order of the types is the content: every insertion order)
                cfg = gen_config(ctx, d, n_lead, 3 if d > 1 else 2, big)
                if cfg is not None:
                    for order in orders(ctx, cfg.types, every=(n_lead in (1, 2)) or not quick):
                        c2 = Config(d, n_lead, order, cfg.spatial, cfg.batch,
                                    [cfg.chans[cfg.types.index(t)] for t in order] if n_lead else [], cfg.primes, cfg.torus)
                        check_norm(ctx, geom, jnp, c2, cap)
                        if n_lead == 0:
                            break
                # --- to_images
                cfg = gen_config(ctx, d, n_lead, 3 if d > 1 else 2, big)
                if cfg is not None:
                    for order in orders(ctx, cfg.types, every=(n_lead == 1) or not quick):
                        c2 = Config(d, n_lead, order, cfg.spatial, cfg.batch,
                                    [cfg.chans[cfg.types.index(t)] for t in order] if n_lead else [], cfg.primes, cfg.torus)
                        check_to_images(ctx, geom, jnp, c2)
                # --- average_pool
                if d >= 2:
                    cfg = gen_config(ctx, d, n_lead, 2, max(big, 20000), even=2)
                    if cfg is None:
                        ctx.hist("skipped", f"pool d={d} n_lead={n_lead}: over budget")
                    else:
                        check_pool(ctx, geom, jnp, cfg, 2, cap)
                    if d == 2 and n_lead in (1, 2):
                        cfg = gen_config(ctx, d, n_lead, 2, max(big, 20000), even=3)
                        if cfg is not None:
                            check_pool(ctx, geom, jnp, cfg, 3, cap)
    check_many_entries(ctx, geom, jnp, cap)
    check_pool_rejects(ctx, geom, jnp)
    # --- thin images: a spatial axis of extent 1 is a spatial axis (to_images, norm)
    for w in (Config(2, 1, [(1, 0), (0, 0)], [1, 4], [], [2, 3], False, (True, False)),
              Config(2, 2, [(1, 1)], [4, 1], [2], [3], False, (False, True)),
              Config(3, 1, [(1, 0), (0, 1)], [3, 1, 2], [], [2, 1], False, (True, True, False)),
              Config(2, 0, [(1, 0)], [1, 3], [], [], False, (True, True))):
        check_to_images(ctx, geom, jnp, w)
        if w.n_lead:
            check_norm(ctx, geom, jnp, w, cap)
    # --- corpus: the witness of defect D12 (pseudo-scalars stored before scalars, batched selection)
    w = Config(1, 2, [(0, 1), (0, 0)], [2], [5], [3, 1], True, (True,))
    check_component(ctx, geom, jnp, w, 1, True, 4)
    w = Config(2, 2, [(1, 0), (0, 1), (0, 0)], [3, 5], [7], [1, 2, 1], True, (True, False))
    check_component(ctx, geom, jnp, w, 2, True, 5)
    # --- get_component (one leading axis) / batch_get_component (batch + one leading axis)
    for d in (1, 2, 3):
        for T in ((1, 2, 3) if quick else (1, 2, 3, 5)):
            for batched in (False, True):
                reps = 1 if quick else 3
                for _ in range(reps):
                    ntypes = 2 if d == 1 else int(rng.integers(2, 4))
                    cfg = gen_config(ctx, d, 2 if batched else 1, ntypes, budget // T)
                    if cfg is None:
                        continue
                    # small channel counts keep the number of components readable
                    cfg.chans = [int(c) for c in rng.permutation([1, 2, 3])[: len(cfg.types)]]
                    every = (not batched and T == 2) or not quick
                    for order in orders(ctx, cfg.types, every=every):
                        c2 = Config(d, cfg.n_lead, order, cfg.spatial, cfg.batch,
                                    [cfg.chans[cfg.types.index(t)] for t in order], cfg.primes, cfg.torus)
                        check_component(ctx, geom, jnp, c2, T, batched, 5 if quick else 40)


# --------------------------------------------------------------------------------------------
# C. per-sample group-norm statistics


def check_group_stats(ctx: Ctx, geom, ml, jax, jnp, n_cases: int):
    import equiv

    rng = ctx.rng
    eps = 1e-5
    for it in range(n_cases):
        d = int(rng.choice([1, 2, 3]))
        groups = int(rng.choice([1, 2, 3]))
        c = groups * int(rng.integers(1, 4))
        spatial = [int(s) for s in rng.permutation([s for s in (3, 4, 5, 7) if s != c])[:d]]
        B = int(rng.choice([2, 3, 5]))
        x = rng.integers(-9, 10, size=(B, c) + tuple(spatial)).astype(np.int64)
        x[0] *= 50  # one sample of a very different scale: batch statistics would show at once
        sig = equiv.signature([((0, 0), c)])
        layer = ml.GroupNorm(sig, d, groups, eps) if groups > 1 or it % 2 else ml.LayerNorm(sig, d, eps)
        mi = geom.MultiImage({(0, 0): jnp.asarray(x, dtype=jnp.float32)}, d)
        case = {"part": "group norm statistics", "D": d, "groups": groups, "channels": c, "spatial": spatial,
                "batch": B, "x": small(arr_json(x))}
        ctx.case(("group_stats", d, groups, c, tuple(spatial), B, x.tobytes().hex()[:32]), B > 1)
        ctx.hist("group_norm_groups", groups)
        try:
            out = np.asarray(jax.vmap(layer, axis_name="batch")(mi)[(0, 0)], dtype=np.float64)
        except Exception as e:
            case["raised"] = repr(e)[:300]
            ctx.violation("oracle", "GroupNorm could not be applied to a batch through jax.vmap", case)
            continue
        worst_model, worst_alone = 0.0, 0.0
        for b in range(B):
            r = ctx.driver.call("c14.group_stats", x=arr_json(x[b]), groups=groups)
            cen = np.array([n / q for n, q in r["centred"]["data"]], dtype=np.float64).reshape(r["centred"]["shape"])
            var = np.array([n / q for n, q in r["var"]["data"]], dtype=np.float64).reshape(r["var"]["shape"])
            want = cen / np.sqrt(var + eps)
            worst_model = max(worst_model, float(np.max(np.abs(out[b] - want))))
            try:
                alone = np.asarray(layer(geom.MultiImage({(0, 0): jnp.asarray(x[b], dtype=jnp.float32)}, d))[(0, 0)],
                                   dtype=np.float64)
                worst_alone = max(worst_alone, float(np.max(np.abs(out[b] - alone))))
            except Exception as e:  # e.g. a collective over the batch axis: the layer needs the other samples
                case["raised_alone"] = repr(e)[:300]
                worst_alone = float("inf")
        if worst_alone > 1e-4:
            case["max_abs_diff"] = worst_alone
            ctx.violation("oracle", "vmap(GroupNorm)(batch)[b] differs from GroupNorm(batch[b]): statistics are not per sample", case)
        elif worst_model > 2e-3:
            case["max_abs_diff"] = worst_model
            ctx.violation("correspondence", "GroupNorm on scalars differs from (x - mean_group)/sqrt(var_group + eps) of the Lean model", case)


def check_group_independence(ctx: Ctx, geom, ml, jnp, n_cases: int):
    """channel groups of one sample do not talk to each other: the output of a group of channels of
    ml.GroupNorm(groups=G) equals the layer with one group applied to those channels alone, and does not
    change when the channels of the other groups are replaced (vector and scalar blocks)"""
    import equiv

    rng = ctx.rng
    for it in range(n_cases):
        d = int(rng.choice([2, 3]))
        k = int(rng.choice([1, 1, 0]))
        p = int(rng.integers(0, 2))
        G = int(rng.choice([2, 3]))
        cpg = int(rng.integers(1, 3))
        c = G * cpg
        spatial = [int(v) for v in rng.permutation([3, 4, 5])[:d]]
        shape = (c,) + tuple(spatial) + (d,) * k
        x = rng.normal(size=shape).astype(np.float32)
        x += rng.normal(size=(c,) + (1,) * d + (d,) * k).astype(np.float32) * 3  # groups with different means
        sig = equiv.signature([((k, p), c)])
        sig1 = equiv.signature([((k, p), cpg)])
        full = ml.GroupNorm(sig, d, G)
        one = ml.GroupNorm(sig1, d, 1)
        case = {"part": "channel-group independence of GroupNorm", "D": d, "type": [k, p], "groups": G,
                "channels": c, "spatial": spatial}
        ctx.case(("group_indep", d, k, p, G, c, tuple(spatial), it), True,
                 sample=case if it == 0 else None)
        ctx.hist("group_independence", f"k={k},G={G}")
        try:
            out = np.asarray(full(geom.MultiImage({(k, p): jnp.asarray(x)}, d))[(k, p)])
            g0 = int(rng.integers(G))
            sl = slice(g0 * cpg, (g0 + 1) * cpg)
            alone = np.asarray(one(geom.MultiImage({(k, p): jnp.asarray(x[sl])}, d))[(k, p)])
            x2 = x.copy()
            mask = np.ones(c, dtype=bool); mask[sl] = False
            x2[mask] = rng.normal(size=x2[mask].shape).astype(np.float32) * 10 + 5
            out2 = np.asarray(full(geom.MultiImage({(k, p): jnp.asarray(x2)}, d))[(k, p)])
        except Exception as e:
            case["raised"] = repr(e)[:300]
            ctx.violation("oracle", "GroupNorm raised on a valid block", case)
            continue
        scale = max(1.0, float(np.max(np.abs(alone))))
        d1 = float(np.max(np.abs(out[sl] - alone))) / scale
        d2 = float(np.max(np.abs(out[sl] - out2[sl]))) / scale
        if d1 > 1e-3 or d2 > 1e-3:
            case["diff_vs_group_alone"] = d1
            case["diff_when_other_groups_replaced"] = d2
            ctx.violation("oracle", "channels of other groups influence a channel group of GroupNorm (cross-talk between channels)", case)


# --------------------------------------------------------------------------------------------
# D. layers and models through jax.vmap; E. per-entry losses


def model_zoo(ctx: Ctx, geom, ml, models, jax, D: int):
    import equiv
    from jax import random

    filt = equiv.filter_bank(D)
    in_sig = equiv.signature([((0, 0), 2), ((1, 0), 1)])
    out_sig = equiv.signature([((1, 0), 1), ((0, 1), 1)])
    mid = equiv.signature([((0, 0), 2), ((1, 0), 2), ((0, 1), 1)])
    key = random.PRNGKey(ctx.seed + 11)
    first = lambda m, x: m(x)[0]  # noqa: E731  MultiImageModule returns (out, aux)
    zoo = [
        ("ConvContract", lambda: ml.ConvContract(in_sig, out_sig, filt, use_bias="auto", key=key), lambda m, x: m(x)),
        ("ConvBlock/LayerNorm+VectorNeuronNonlinear",
         lambda: models.ConvBlock(D, in_sig, mid, activation_f=jax.nn.gelu, equivariant=True, conv_filters=filt,
                                  use_group_norm=True, key=key), first),
        ("DilResNet/conventional/group_norm",
         lambda: models.DilResNet(D, in_sig, out_sig, depth=4, num_blocks=1, equivariant=False, kernel_size=3,
                                  use_group_norm=True, key=key), first),
        ("ResNet/equivariant/group_norm",
         lambda: models.ResNet(D, in_sig, out_sig, depth=2, num_blocks=1, num_conv=1, equivariant=True,
                               conv_filters=filt, use_group_norm=True, key=key), first),
        ("UNet/conventional/group_norm",
         lambda: models.UNet(D, in_sig, out_sig, depth=4, num_downsamples=1, num_conv=1, equivariant=False,
                             kernel_size=3, use_group_norm=True, key=key), first),
        ("GroupNorm+MaxNormPool",
         lambda: _Seq([ml.GroupNorm(in_sig, D, 1), ml.MaxNormPool(2)]), lambda m, x: m(x)),
        ("DilResNet/equivariant/group_norm",
         lambda: models.DilResNet(D, in_sig, out_sig, depth=2, num_blocks=1, equivariant=True, conv_filters=filt,
                                  use_group_norm=True, key=key), first),
        ("ResNet/conventional/group_norm",
         lambda: models.ResNet(D, in_sig, out_sig, depth=4, num_blocks=1, num_conv=1, equivariant=False,
                               kernel_size=3, use_group_norm=True, key=key), first),
    ]
    return zoo, in_sig


class _Seq:
    """plain composition of layers (a callable pytree is not needed: used un-jitted through vmap)"""

    def __init__(self, layers):
        self.layers = layers

    def __call__(self, x):
        for layer in self.layers:
            x = layer(x)
        return x


def check_models(ctx: Ctx, geom, ml, models, jax, jnp):
    import equinox as eqx
    import equiv

    quick = ctx.tier == "quick"
    rng = ctx.rng
    D = 2
    spatial = (8, 12)
    B = 4
    zoo, in_sig = model_zoo(ctx, geom, ml, models, jax, D)
    if quick:
        # the layer, the block with LayerNorm + VectorNeuronNonlinear, one conventional net with group
        # norm always; the equivariant ResNet or the conventional UNet depending on the seed
        zoo = zoo[:3] + [zoo[3 + ctx.seed % 2]]
    timings = {}
    for name, build, call in zoo:
        t0 = time.time()
        try:
            model = build()
        except Exception as e:
            ctx.hist("models", f"{name}: could not be built ({type(e).__name__})")
            continue

        if isinstance(model, _Seq):
            batched = lambda m, x: jax.vmap(lambda xi: call(m, xi), axis_name="batch")(x)  # noqa: E731
            single = lambda m, x: call(m, x)  # noqa: E731
        else:
            batched = eqx.filter_jit(lambda m, x: jax.vmap(lambda xi: call(m, xi), axis_name="batch")(x))
            single = eqx.filter_jit(lambda m, x: call(m, x))

        def run_batch(blocks):
            y = batched(model, equiv.to_multi_image(blocks, D, True))
            return {key: np.asarray(v) for key, v in y.items()}

        x = equiv.random_blocks(rng, in_sig, D, spatial, lead=(B,))
        try:
            y = run_batch(x)
        except Exception as e:
            ctx.hist("models", f"{name}: could not be run through vmap ({type(e).__name__}: {str(e)[:80]})")
            continue
        scale = max(float(np.max(np.abs(v))) for v in y.values()) or 1.0
        case0 = {"part": "jax.vmap(model)", "model": name, "D": D, "spatial": list(spatial), "batch": B,
                 "input_signature": equiv.sig_str(in_sig), "inputs": "standard normal float32, numpy PCG64(VERIF_SEED)",
                 "output_scale": scale}
        worst = {"alone": 0.0, "other_batch": 0.0, "noise_floor": 0.0}
        fails = []

        def run_single(blocks):
            out = single(model, equiv.to_multi_image(blocks, D, True))
            return {key: np.asarray(v) for key, v in out.items()}

        for i in range(B):
            # (1) the entry alone, no vmap at all.  The batched and the unbatched program are different
            # float32 programs (batched eigh / convolutions), so their difference is judged against the
            # model's own amplification of 2-ulp input noise at this input (as in harness/equiv.py);
            # the cross-talk comparison (2) below runs the SAME program and stays at 1e-5.
            xi = {k: v[i] for k, v in x.items()}
            try:
                alone = run_single(xi)
                e1 = max(float(np.max(np.abs(alone[k] - y[k][i]))) for k in y) / scale if set(alone) == set(y) else float("inf")
                eta = 0.0
                if e1 > 1e-5 and np.isfinite(e1):
                    for _ in range(3):
                        xp = {k: (v.astype(np.float64) * (1 + 2.0 ** -22 * rng.uniform(-1, 1, size=v.shape))).astype(np.float32)
                              for k, v in xi.items()}
                        yp = run_single(xp)
                        eta = max(eta, max(float(np.max(np.abs(yp[k] - alone[k]))) for k in alone) / scale)
            except Exception as e:
                e1, eta = float("inf"), 0.0
                case0["raised_alone"] = repr(e)[:200]
            tol1 = max(1e-5, 20.0 * eta)
            worst["alone"] = max(worst["alone"], e1)
            worst["noise_floor"] = max(worst["noise_floor"], eta)
            if tol1 > 1e-2:
                ctx.hist("models", f"{name}: entry alone not judged (noise amplification {eta:.1e} too large for float32)")
            elif not e1 <= tol1:
                fails.append(f"entry {i}: vmap(model)(batch)[{i}] differs from model(batch[{i}]) by {e1:.3g} (relative; "
                             f"tolerance {tol1:.1e}, measured 2-ulp noise amplification {eta:.1e})")
            # (2) the same entry inside a different batch: others permuted, replaced by noise, rescaled
            j = int(rng.integers(0, B))
            perm = [int(t) for t in rng.permutation(B)]
            x2 = {}
            for k, v in x.items():
                w = v[perm].copy()
                w = w + (rng.normal(size=w.shape) * 30.0).astype(np.float32)
                w[j] = v[i]
                x2[k] = w
            y2 = run_batch(x2)
            e2 = max(float(np.max(np.abs(y2[k][j] - y[k][i]))) for k in y) / scale
            worst["other_batch"] = max(worst["other_batch"], e2)
            if not e2 <= 1e-5:
                fails.append(f"entry {i} placed at index {j} of a batch whose other entries were permuted and replaced "
                             f"by noise: output changed by {e2:.3g} (relative)")
            ctx.case(("model", name, i, j, tuple(perm)), True,
                     sample={**case0, "entry": i, "moved_to": j, "rel_diff_alone": e1, "rel_diff_other_batch": e2} if i == 0 else None)
        ctx.hist("models", f"{name}: alone {worst['alone']:.1e} other-batch {worst['other_batch']:.1e}")
        timings[name] = round(time.time() - t0, 1)
        if fails:
            ctx.violation("oracle", f"{name} through jax.vmap: " + fails[0], {**case0, "failures": fails[:6], "worst": worst})
    ctx.notes["model_timing_s"] = timings


def check_models_unsorted_order(ctx: Ctx, geom, ml, models, jax, jnp):
    """The batch is stored with (1,0) BEFORE (0,0) (an insertion order that is not the sorted one).  jax.vmap
    rebuilds the dict inside the mapped function in sorted key order, the per-entry call sees the caller's order.
    Equivariant layers address blocks by type, so both calls must agree; a conventional model flattens the tensor
    components into scalar channels in storage order (to_scalar_multi_image), so its weights meet other channels
    under vmap than alone: defect D13 of the unchanged tree (known finding), reported under its own key."""
    import equiv
    from jax import random

    D, spatial, B = 2, (8, 8), 3
    rng = np.random.Generator(np.random.PCG64(ctx.seed + 4242))
    sig_sorted = equiv.signature([((0, 0), 1), ((1, 0), 1)])
    sig_unsorted = equiv.signature([((1, 0), 1), ((0, 0), 1)])
    key = random.PRNGKey(ctx.seed + 5)
    filt = equiv.filter_bank(D)
    first = lambda m, x: m(x)[0]  # noqa: E731
    zoo = [
        ("ConvContract/equivariant", None,
         lambda sig: ml.ConvContract(sig, sig, filt, use_bias="auto", key=key), lambda m, x: m(x)),
        ("ResNet/equivariant", None,
         lambda sig: models.ResNet(D, sig, sig, depth=2, num_blocks=1, num_conv=1, equivariant=True, conv_filters=filt,
                                   key=key), first),
        ("ResNet/conventional", "D13-conventional-model-vmap-unsorted-key-order",
         lambda sig: models.ResNet(D, sig, sig, depth=4, num_blocks=1, equivariant=False, kernel_size=3, key=key), first),
    ]
    x_sorted = equiv.random_blocks(rng, sig_sorted, D, spatial, lead=(B,))
    for name, known_key, build, call in zoo:
        for order_name, sig in (("sorted", sig_sorted), ("unsorted", sig_unsorted)):
            x = {k: x_sorted[k] for k, _ in sig}  # same values, other storage order
            try:
                model = build(sig)
                y = jax.vmap(lambda xi: call(model, xi), axis_name="batch")(equiv.to_multi_image(x, D, True))
                y = {k: np.asarray(v) for k, v in y.items()}
                scale = max(float(np.max(np.abs(v))) for v in y.values()) or 1.0
                worst = 0.0
                for i in range(B):
                    alone = call(model, equiv.to_multi_image({k: v[i] for k, v in x.items()}, D, True))
                    alone = {k: np.asarray(v) for k, v in alone.items()}
                    if set(alone) != set(y):
                        worst = float("inf")
                        break
                    worst = max(worst, max(float(np.max(np.abs(alone[k] - y[k][i]))) for k in y) / scale)
            except Exception as e:
                worst = float("inf")
                name = f"{name} (raised {type(e).__name__}: {str(e)[:80]})"
            case = {"part": "jax.vmap(model), storage order of the input types", "model": name, "D": D,
                    "spatial": list(spatial), "batch": B, "storage_order": [list(k) for k, _ in sig],
                    "rel_diff_vmap_vs_alone": worst, "inputs": "standard normal float32, PCG64(VERIF_SEED+4242)"}
            ctx.case(("model-order", name, order_name), order_name == "unsorted", sample=case if order_name == "unsorted" and known_key else None)
            ctx.hist("models_storage_order", f"{name}/{order_name}: {worst:.1e}")
            if not worst <= 1e-3:
                ctx.violation("oracle", f"{name}: vmap(model)(batch)[i] differs from model(batch[i]) by {worst:.3g} (relative) when the "
                              f"input types are stored in {order_name} order {[list(k) for k, _ in sig]}", case,
                              key=known_key if order_name == "unsorted" else None)


def check_losses(ctx: Ctx, geom, ml, jnp):
    import equiv

    rng = ctx.rng
    n = 6 if ctx.tier == "quick" else 40
    for it in range(n):
        D = int(rng.choice([1, 2, 3]))
        B = int(rng.choice([2, 3, 5]))
        T = int(rng.choice([1, 2, 3]))
        types = all_types(D)
        keys = [types[i] for i in rng.permutation(len(types))[: int(rng.integers(1, 4))]]
        sig = equiv.signature([(kp, T * int(rng.integers(1, 3))) for kp in keys])
        spatial = tuple(int(s) for s in rng.permutation([3, 4, 5])[:D])
        x = equiv.random_blocks(rng, sig, D, spatial, lead=(B,))
        y = equiv.random_blocks(rng, sig, D, spatial, lead=(B,))
        y = {k: y[k] for k in reversed(list(y.keys()))}  # targets in another dict order
        i = int(rng.integers(0, B))

        def losses(xb, yb):
            a, b = equiv.to_multi_image(xb, D, True), equiv.to_multi_image(yb, D, True)
            return (np.asarray(ml.smse_loss(a, b, reduce=None), dtype=np.float64),
                    np.asarray(ml.timestep_smse_loss(a, b, T, reduce=None), dtype=np.float64))

        l1, t1 = losses(x, y)
        x2 = {k: (v + (rng.normal(size=v.shape) * 20).astype(np.float32)) for k, v in x.items()}
        y2 = {k: (v + (rng.normal(size=v.shape) * 20).astype(np.float32)) for k, v in y.items()}
        for k in x2:
            x2[k][i] = x[k][i]
        for k in y2:
            y2[k][i] = y[k][i]
        l2, t2 = losses(x2, y2)
        l3, t3 = losses({k: v[i:i + 1] for k, v in x.items()}, {k: v[i:i + 1] for k, v in y.items()})
        case = {"part": "per-entry loss", "D": D, "batch": B, "future_steps": T, "signature": equiv.sig_str(sig),
                "spatial": list(spatial), "entry": i}
        ctx.case(("loss", D, B, T, equiv.sig_str(sig), spatial, i, it), B > 1)
        ctx.hist("loss_checks", "smse+timestep_smse")
        tol = lambda a: 1e-5 * (1 + abs(a))  # noqa: E731
        bad = []
        if l1.shape != (B,) or t1.shape != (B, T):
            bad.append(f"shapes {l1.shape} {t1.shape}")
        else:
            if abs(l1[i] - l2[i]) > tol(l1[i]) or np.any(np.abs(t1[i] - t2[i]) > 1e-5 * (1 + np.abs(t1[i]))):
                bad.append(f"loss of entry {i} changed when OTHER entries changed: {l1[i]} -> {l2[i]}")
            if abs(l1[i] - l3[0]) > tol(l1[i]) or np.any(np.abs(t1[i] - t3[0]) > 1e-5 * (1 + np.abs(t1[i]))):
                bad.append(f"loss of entry {i} in the batch {l1[i]} differs from its loss alone {l3[0]}")
        if bad:
            ctx.violation("oracle", "smse_loss/timestep_smse_loss(reduce=None): " + bad[0], {**case, "problems": bad})


# --------------------------------------------------------------------------------------------


def run(ctx: Ctx):
    import jax
    import jax.numpy as jnp

    import ginjax.geometric as geom
    import ginjax.ml as ml
    import ginjax.models as models

    ctx.rule = (
        "MultiImage methods: d in 1..3 x 0..3 leading axes, 1-3 types (k<=2, p in {0,1}; d=1 scalars only) in several / "
        "every insertion order (every order for norm, get_component, to_images at 1-2 leading axes), all axis extents of a "
        "block pairwise distinct and different from D, primes (2,3,5,7,11,13,17) whenever the element budget allows "
        "(histogram prime_extents), 2*prime / 3*prime spatial extents for pooling; additionally times_group_element / average_pool on tiny images (2x3, 2x4) "
        "with 1025..3100 leading entries over 1-3 leading axes, e.g. (37,31), (3,7,53), (1100,), never a multiple of 1024 except "
        "one (2048,) case in thorough (histogram leading_entries), the last 100 leading indices always compared; position-encoded integer blocks (every "
        "entry distinct; folded to [-125,125] for norm); B_d elements that swap axes; future_steps 1..3; every integer "
        "component (sampled beyond 5 in quick) and random slices. Per block all leading indices, or beyond 6 (quick) / 48 "
        "(thorough) the first, the last and seeded ones, are compared with the single-image entry points, alternating between the functional and the "
        "GeometricImage entry point. Models: batch of 4 standard-normal inputs, every entry compared alone and inside a "
        "batch whose other entries are permuted, replaced by noise of 30x the scale. distinct = distinct (operation, d, "
        "leading shape, type order, extents, group element / component / model entry). non-trivial = at least one leading "
        "axis (methods; for norm additionally >1 channel or type; for get_component >1 type or future_steps>1), batch>1 "
        "(vmap, losses, models); malformed / rejected inputs count as trivial."
    )
    ctx.assumptions = [
        "integer-valued float32 blocks below 2^24 make the implementation's arithmetic exact (action, patch sums with patch 2, "
        "sums of squares); norm is compared through its square (rint(norm^2), |error| <= 0.25), average_pool through "
        "patch_len^D * mean (exact for patch 2, 1e-5 relative for patch 3)",
        "jax.vmap is modelled as stack . map f . rows (validated against jax.vmap on a family of per-image functions every run)",
        "models are float32 and nonlinear: the same entry inside two different batches (same program) must agree to 1e-5 of "
        "the output scale; vmap(model)(batch)[i] against the unbatched model(batch[i]) (a different float32 program) to "
        "max(1e-5, 20 x the model's measured amplification of 2-ulp input noise), no verdict beyond 1e-2",
        "BatchNorm with axis names deliberately reaches across the batch and is outside the property (not tested)",
        "group norm of vectors (eigh whitening) is covered by the model runs only; the exact statistics check is for scalars",
    ]
    ctx.trusted_extra = [
        "jax.vmap / eqx.filter_vmap (a map over the leading axis), jnp.reshape / moveaxis / concatenate / indexing as written in "
        "lean/GinjaxVerif/Model/NDArr.lean; eqx.nn.GroupNorm (per-group mean and biased variance of one sample)",
        "the single-image action is the Lean model tge of C02 read through the array<->image bridge toImg/ofImg",
    ]
    ctx.max_samples = 14
    quick = ctx.tier == "quick"
    t = [time.time()]
    check_vmap_is_map(ctx, geom, jax, jnp, 12 if quick else 80)
    check_single_entry_points(ctx, geom, jnp, 9 if quick else 60)
    t.append(time.time())
    run_methods(ctx, geom, jax, jnp)
    t.append(time.time())
    check_group_stats(ctx, geom, ml, jax, jnp, 8 if quick else 60)
    check_group_independence(ctx, geom, ml, jnp, 10 if quick else 80)
    check_losses(ctx, geom, ml, jnp)
    t.append(time.time())
    check_models(ctx, geom, ml, models, jax, jnp)
    check_models_unsorted_order(ctx, geom, ml, models, jax, jnp)
    t.append(time.time())
    ctx.notes["timing_s"] = {"vmap+single": round(t[1] - t[0], 1), "methods": round(t[2] - t[1], 1),
                             "group_stats+losses": round(t[3] - t[2], 1), "models": round(t[4] - t[3], 1)}
    ctx.notes["driver_calls"] = ctx.driver.calls


def replay(ctx: Ctx, rep: dict):
    """re-run the whole check with the recorded seed and tier (cases are regenerated from the seed)"""
    run(ctx)
