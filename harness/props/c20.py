"""C20 - every model maps its input signature to exactly its requested output signature.

correspondence: real `models.UNet / ResNet / DilResNet` in equivariant and conventional mode (and
  `ml.ConvContract` directly, and `to_scalar_multi_image` / `from_scalar_multi_image`) are built
  and run on small inputs; the observable `(get_signature() in order, get_spatial_dims(), D,
  is_torus)` - or the fact that construction/call raises - is compared with the Lean signature
  calculus (`c20.model`, `c20.conv`, `c20.scalar`, `c20.union`).
oracle: the property's own sentence evaluated in Python, independently of the Lean model: the
  output signature is the requested one (equivariant mode: the requested types reachable through
  the bank, in requested order, with the requested channel counts), extents/D/flags are the
  input's; flatten + unflatten puts every component back (position-encoded values).
The D6 / D10 witnesses run first.
"""
from __future__ import annotations

import itertools
import time

import numpy as np

from common import Ctx, DriverReject, log

TYPES = [(0, 0), (0, 1), (1, 0), (1, 1), (2, 0), (2, 1)]
BIASES = ["auto", "mean", "scalar", True, False]
_BANKS: dict = {}


# ---------------------------------------------------------------------------------------------
# filter banks (generated once per process: a few seconds each)


def get_bank(D: int, M: int, kmax: int = 2):
    key = (D, M, kmax)
    if key not in _BANKS:
        import ginjax.geometric as geom

        t0 = time.time()
        _BANKS[key] = geom.get_invariant_filters(
            Ms=[M], ks=list(range(kmax + 1)), parities=[0, 1], D=D, operators=geom.make_all_operators(D)
        )
        log(f"[C20] bank D={D} M={M} k<={kmax}: {sorted(_BANKS[key].keys())} in {time.time() - t0:.1f}s")
    return _BANKS[key]


def sub_bank(bank, drop):
    import ginjax.geometric as geom

    return geom.MultiImage({k: v for k, v in bank.items() if k not in drop}, bank.D, bank.is_torus)


def bank_keys(bank):
    return [tuple(int(v) for v in k) for k in bank.keys()]


def bank_json(bank):
    first = next(iter(bank.values()))
    return {"keys": [list(k) for k in bank_keys(bank)], "M": int(first.shape[1])}


def bank_from_json(D, bj):
    """rebuild a (sub-)bank from its key list and side length (replays)"""
    keys = {tuple(k) for k in bj["keys"]}
    kmax = max([2] + [k[0] for k in keys])
    full = get_bank(D, bj["M"], kmax)
    return sub_bank(full, set(full.keys()) - keys)


def jsig(sig):
    return [[[int(t[0]), int(t[1])], int(c)] for t, c in sig]


def tsig(sig):
    return tuple(((int(t[0]), int(t[1])), int(c)) for t, c in sig)


def fkey(s, t):
    return (s[0] + t[0], (s[1] + t[1]) % 2)


def reach(bkeys, ins, t):
    return any(fkey(s, t) in bkeys for s in ins)


def make_input(geom, D, sig, dims, torus, order=None):
    """blocks in `order` (default: signature order); position-encoded integer values"""
    import jax.numpy as jnp

    data = {}
    base = 1
    entries = list(sig) if order is None else [sig[i] for i in order]
    for (k, p), c in entries:
        shape = (c,) + tuple(dims) + (D,) * k
        n = int(np.prod(shape))
        data[(k, p)] = jnp.asarray((np.arange(n, dtype=np.float32) + base).reshape(shape))
        base += n
    return geom.MultiImage(data, D, tuple(torus))


def observe(out):
    return {
        "sig": jsig(out.get_signature()),
        "dims": [int(v) for v in out.get_spatial_dims()],
        "D": int(out.D),
        "torus": [bool(v) for v in out.is_torus],
    }


# ---------------------------------------------------------------------------------------------
# direct ConvContract cases


def conv_case(ctx: Ctx, geom, ml, bank, in_sig, target, bias, dims, torus, opts=None, x_order=None, tag=""):
    import jax.random as random

    D = bank.D
    bkeys = set(bank_keys(bank))
    opts = opts or {}
    x = make_input(geom, D, in_sig, dims, torus, x_order)
    x_sig = tsig(x.get_signature())
    case = {
        "kind": "ConvContract",
        "D": D,
        "bank": bank_json(bank),
        "input_keys": jsig(in_sig),
        "target_keys": jsig(target),
        "use_bias": bias,
        "opts": opts,
        "x": {"sig": jsig(x_sig), "dims": list(dims), "D": D, "torus": list(torus)},
    }
    kw = {}
    if "stride" in opts:
        kw["stride"] = (opts["stride"],) * D
    if "padding" in opts:
        kw["padding"] = (tuple(opts["padding"]),) * D
    if "lhs_dilation" in opts:
        kw["lhs_dilation"] = (opts["lhs_dilation"],) * D
    if "rhs_dilation" in opts:
        kw["rhs_dilation"] = (opts["rhs_dilation"],) * D
    try:
        layer = ml.ConvContract(tsig(in_sig), tsig(target), bank, bias, key=random.PRNGKey(0), **kw)
        impl = observe(layer(x))
    except Exception as e:  # noqa: BLE001
        impl = {"raises": type(e).__name__}
    case["impl"] = impl
    try:
        mo = ctx.driver.call("c20.conv", bank=case["bank"], input_keys=case["input_keys"],
                             target_keys=case["target_keys"], use_bias=bias, opts=opts, x=case["x"])
    except DriverReject as e:
        mo = {"out": {"raises": str(e)}}
    case["model"] = mo.get("out")
    # oracle: the property's sentence, independently
    want_sig = jsig([(t, c) for t, c in target if reach(bkeys, [s for s, _ in x_sig], t)])
    missing = any(fkey(s, t) not in bkeys for s, _ in in_sig for t, _ in target)
    ctx.hist("conv_bias", bias)
    ctx.hist("conv_missing_filter", missing)
    ctx.hist("conv_targets", len(target))
    nontriv = len(target) >= 2 or missing
    ctx.case(("conv", case["bank"]["keys"], case["input_keys"], case["target_keys"], str(bias), opts,
              case["x"]["sig"], list(dims), list(torus)), nontriv,
             sample={k: case[k] for k in ("kind", "input_keys", "target_keys", "use_bias", "impl")})
    plain = not opts
    if "raises" in impl:
        if "raises" not in (case["model"] or {}):
            case["expected_sig"] = want_sig
            ctx.violation("oracle", f"ConvContract raised {impl['raises']} on a valid configuration{tag}", case)
        return
    bad = []
    if impl["sig"] != want_sig:
        got_keys = [e[0] for e in impl["sig"]]
        want_keys = [e[0] for e in want_sig]
        if sorted(map(tuple, got_keys)) != sorted(map(tuple, want_keys)):
            bad.append("requested reachable blocks missing from the output (no-drop clause)")
        elif got_keys != want_keys:
            bad.append("output blocks not in the requested (target_keys) order")
        else:
            bad.append("channel counts differ from the requested ones")
    if want_sig and plain and (impl["dims"] != list(dims)):
        bad.append("spatial extents changed")
    if impl["D"] != D or impl["torus"] != list(torus):
        bad.append("D / is_torus changed")
    if bad:
        case["expected_sig"] = want_sig
        ctx.violation("oracle", f"ConvContract(use_bias={bias!r}){tag}: " + "; ".join(bad), case)
    elif impl != case["model"]:
        ctx.violation("correspondence", "ConvContract output observable differs from the Lean model", case)
    if mo.get("spec_sig") is not None and mo["spec_sig"] != want_sig:
        ctx.violation("correspondence", "python oracle differs from Lean spec convContractOut", case)


def conv_cases(ctx: Ctx, n_random: int):
    import ginjax.geometric as geom
    import ginjax.ml as ml

    rng = ctx.rng
    b3 = get_bank(2, 3)
    full = [(0, 0), (1, 0)]
    # --- the confirmed witnesses first
    in_sig = (((0, 0), 2), ((1, 0), 1))
    conv_case(ctx, geom, ml, b3, in_sig, (((1, 0), 3), ((0, 0), 1)), "scalar", (4, 4), (True, True),
              tag=" [D6 witness]")
    conv_case(ctx, geom, ml, b3, in_sig, (((1, 0), 3), ((0, 0), 1)), True, (4, 4), (True, True),
              tag=" [D6 witness]")
    conv_case(ctx, geom, ml, b3, in_sig, (((0, 1), 1), ((0, 0), 2)), "auto", (4, 4), (True, True),
              tag=" [D10 witness]")
    # --- all five bias settings x banks with/without missing filter types x every order of targets
    banks = [b3, sub_bank(b3, {(1, 1)}), sub_bank(b3, {(2, 0), (2, 1)}), sub_bank(b3, {(0, 0), (1, 0)})]
    tsets = [[(0, 0), (1, 0)], [(0, 1), (0, 0), (1, 0)], [(1, 1), (2, 0)]]
    todo = []
    for bi, bank in enumerate(banks):
        for ts in tsets:
            for perm in itertools.permutations(ts):
                todo.append((bi, perm))
    order = rng.permutation(len(todo))
    for n in range(n_random):
        bi, perm = todo[int(order[n % len(todo)])]
        bank = banks[bi]
        nin = int(rng.integers(1, 4))
        ins = [TYPES[int(j)] for j in rng.permutation(len(TYPES))[:nin]]
        in_sig = tuple((t, int(c)) for t, c in zip(ins, rng.permutation(3)[:nin] + 1))
        target = tuple((t, int(c)) for t, c in zip(perm, rng.permutation(4)[: len(perm)] + 1))
        bias = BIASES[n % 5]
        torus = tuple(bool(v) for v in rng.integers(0, 2, size=2))
        dims = (int(rng.integers(3, 5)), int(rng.integers(3, 6)))
        x_order = [int(v) for v in rng.permutation(nin)] if n % 3 == 0 else None
        opts = {}
        if n % 7 == 3:
            opts = {"rhs_dilation": 2}
        elif n % 7 == 5:
            opts = {"stride": 2}
        conv_case(ctx, geom, ml, bank, in_sig, target, bias, dims, torus, opts, x_order)
    # the UNet's up-convolution as a layer of its own (M = 2 bank, literal padding, lhs dilation)
    b2 = get_bank(2, 2)
    conv_case(ctx, geom, ml, b2, (((0, 0), 2), ((1, 0), 2)), (((1, 0), 1), ((0, 0), 1)), "auto", (2, 3),
              (True, False), {"padding": [1, 1], "lhs_dilation": 2})
    del full


# ---------------------------------------------------------------------------------------------
# flatten / unflatten (conventional mode's re-layout)


def scalar_cases(ctx: Ctx, n: int):
    import ginjax.geometric as geom

    rng = ctx.rng
    for i in range(n):
        D = 2 if i % 3 else 3
        kmax = 2
        nt = int(rng.integers(1, 4))
        pool = [(k, p) for k in range(kmax + 1) for p in (0, 1)]
        ts = [pool[int(j)] for j in rng.permutation(len(pool))[:nt]]
        sig = tuple((t, int(c)) for t, c in zip(ts, rng.integers(1, 4, size=nt)))
        dims = tuple(int(v) for v in rng.integers(1, 4, size=D))
        x = make_input(geom, D, sig, dims, (True,) * D)
        mo = ctx.driver.call("c20.scalar", D=D, sig=jsig(sig))
        case = {"kind": "scalar-roundtrip", "D": D, "sig": jsig(sig), "dims": list(dims)}
        ctx.hist("scalar_D", D)
        ctx.case(("scalar", D, case["sig"], list(dims)), nt >= 2 and any(t[0] >= 1 for t in ts), sample=case)
        try:
            s = x.to_scalar_multi_image()
            back = s.from_scalar_multi_image(x.get_signature())
        except Exception as e:  # noqa: BLE001
            case["impl"] = {"raises": type(e).__name__}
            ctx.violation("oracle", "to_scalar/from_scalar raised on a valid multi-image", case)
            continue
        # oracle: every component of every type back at its own position, same order
        ok = tsig(back.get_signature()) == tsig(sig) and list(back.keys()) == list(x.keys())
        ok = ok and all(np.array_equal(np.asarray(back[k]), np.asarray(x[k])) for k in x.keys())
        if not ok:
            case["impl"] = {"back_sig": jsig(back.get_signature())}
            ctx.violation("oracle", "from_scalar(to_scalar(x), signature) != x", case)
            continue
        # correspondence: layout of the scalar image
        simg = np.asarray(s[(0, 0)])
        if jsig(s.get_signature()) != mo["to_scalar_sig"] or simg.shape[0] != mo["size"]:
            case["impl"] = {"scalar_sig": jsig(s.get_signature())}
            case["model"] = mo["to_scalar_sig"]
            ctx.violation("correspondence", "to_scalar signature differs from the Lean model", case)
            continue
        bad = None
        for t, ch, comp, pos in mo["to_scalar"]:
            blk = np.asarray(x[tuple(t)])
            comp_idx = np.unravel_index(comp, (D,) * t[0]) if t[0] else ()
            ref = blk[(ch,) + (slice(None),) * D + tuple(comp_idx)]
            if pos is None or not np.array_equal(simg[pos], ref):
                bad = [t, ch, comp, pos]
                break
        if bad is None:
            for pos, e in enumerate(mo["from_scalar"]):
                t, ch, comp = e
                comp_idx = np.unravel_index(comp, (D,) * t[0]) if t[0] else ()
                if not np.array_equal(np.asarray(back[tuple(t)])[(ch,) + (slice(None),) * D + tuple(comp_idx)], simg[pos]):
                    bad = [pos, e]
                    break
        if bad is not None:
            case["first_disagreement"] = bad
            ctx.violation("correspondence", "scalar-channel positions differ from toScalarPos/fromScalarPos", case)
        # unflatten with a different layout: signature = the layout, values = consecutive slices
        if nt >= 2:
            lay = tuple(sig[int(j)] for j in rng.permutation(nt))
            mo2 = ctx.driver.call("c20.scalar", D=D, sig=jsig(lay))
            b2 = s.from_scalar_multi_image(lay)
            if tsig(b2.get_signature()) != lay:
                case["layout"] = jsig(lay)
                case["impl"] = {"sig": jsig(b2.get_signature())}
                ctx.violation("oracle", "from_scalar_multi_image(layout) does not return the requested layout", case)
            else:
                for pos, (t, ch, comp) in enumerate(mo2["from_scalar"]):
                    comp_idx = np.unravel_index(comp, (D,) * t[0]) if t[0] else ()
                    if not np.array_equal(np.asarray(b2[tuple(t)])[(ch,) + (slice(None),) * D + tuple(comp_idx)], simg[pos]):
                        case["layout"] = jsig(lay)
                        ctx.violation("correspondence", "from_scalar(layout) slices differ from fromScalarPos", case)
                        break


# ---------------------------------------------------------------------------------------------
# whole models


def activation_of(name):
    import jax
    import jax.numpy as jnp

    if name is None:
        return None
    if name == "callable":
        return jnp.sin
    if name == "jax.nn.gelu":
        return jax.nn.gelu
    return name  # "relu" / "gelu" / "tanh" through ACTIVATION_REGISTRY


def reference(cfg):
    """The property's sentence, evaluated independently of the Lean model.
    returns ("raises", why) | ("exact", sig) | ("weak", None)"""
    cls, D = cfg["class"], cfg["D"]
    ins = [tuple(t) for t, _ in cfg["input_keys"]]
    outs = [(tuple(t), c) for t, c in cfg["output_keys"]]
    ds = cfg.get("num_downsamples", 0)
    if cls == "unet":
        if cfg["num_conv"] <= 0:
            return ("raises", "num_conv > 0 asserted")
        if any(n % (2**ds) for n in cfg["dims"]):
            return ("raises", "extents not divisible by 2^num_downsamples")
    inner = {"unet": True, "resnet": cfg.get("num_blocks", 0) > 0 and cfg.get("num_conv", 2) > 0,
             "dilresnet": cfg.get("num_blocks", 0) > 0}[cls]
    if not cfg["equivariant"]:
        if cfg["use_bias"] in ("mean", "scalar"):
            return ("raises", "conventional convolution takes a bool bias")
        if cfg.get("kernel_size") is None and inner:
            return ("raises", "kernel_size required")
        return ("exact", tsig(outs))
    if cfg.get("mid_keys"):
        mid = [tuple(t) for t, _ in cfg["mid_keys"]]
    else:
        mid = list(dict.fromkeys(ins + [t for t, _ in outs]))
    if cfg["use_group_norm"] and inner and any(t[0] > 1 for t in mid):
        return ("raises", "equivariant group norm not implemented for k > 1")
    bk = set(map(tuple, cfg["bank"]["keys"]))
    if cfg["bank"]["M"] % 2 == 0:
        return ("raises", "even filters need literal padding")
    ub = set()
    if cls == "unet" and ds > 0:
        if cfg["up_bank"]["M"] != 2:
            return ("raises", "up-convolution does not restore the extents")
        ub = set(map(tuple, cfg["up_bank"]["keys"]))
        if cfg.get("mid_keys") and any(c != cfg["depth"] for _, c in cfg["mid_keys"]):
            return ("weak", None)
    # any bank (complete or not): the types reachable through the chain of layers
    return chain_reference(cls, cfg, ins, mid, tsig(outs), bk, ub)


def chain_reference(cls, cfg, ins, mid, outs, bk, ub):
    """The property's sentence for an ARBITRARY bank, layer by layer, on plain Python sets/lists and
    independently of the Lean model: a layer produces target type t iff some type s present in its
    input has the filter type (k_s+k_t, (p_s+p_t)%2) in the bank; mid layers target the mid types.
    returns ("exact", sig) | ("raises", why) | ("weak", None)"""
    def step(bank, present):
        return [t for t in mid if reach(bank, present, t)]

    if cls in ("resnet", "dilresnet"):
        per_stage = cfg.get("num_conv", 2) if cls == "resnet" else 7
        x = step(bk, step(bk, ins))
        for _ in range(cfg.get("num_blocks", 0)):
            r = x
            for _ in range(per_stage):
                x = step(bk, x)
            if set(x) != set(r):
                return ("raises", "residual addition of different key sets")
        x = step(bk, x)
    else:
        x = ins
        for _ in range(cfg["num_conv"]):
            x = step(bk, x)
        skips = []
        for _ in range(cfg.get("num_downsamples", 0)):
            skips.append(x)
            for _ in range(cfg["num_conv"]):
                x = step(bk, x)
        for r in reversed(skips):
            up = step(ub, x)
            if set(up) != set(r):
                # some block reaches the next layer with half the channels it was built for: the
                # property does not say what must happen (the code raises iff that block feeds a
                # convolution); left to the order clause + the correspondence with mkUNet
                return ("weak", None)
            x = up
            for _ in range(cfg["num_conv"]):
                x = step(bk, x)
    return ("exact", tuple((t, c) for t, c in outs if reach(bk, x, t)))


def model_case(ctx: Ctx, cfg, tag=""):
    """cfg: plain dict (JSON-able) describing class, constructor arguments and the input"""
    import jax.random as random

    import ginjax.geometric as geom
    import ginjax.models as models

    t0 = time.time()
    cls, D = cfg["class"], cfg["D"]
    in_sig, out_sig = tsig(cfg["input_keys"]), tsig(cfg["output_keys"])
    dims, torus = tuple(cfg["dims"]), tuple(cfg["torus"])
    bank = cfg.pop("_bank", None)
    up_bank = cfg.pop("_up_bank", None)
    if bank is not None:
        cfg["bank"] = bank_json(bank)
    if up_bank is not None:
        cfg["up_bank"] = bank_json(up_bank)
    kw = dict(depth=cfg["depth"], use_bias=cfg["use_bias"], activation_f=activation_of(cfg["activation"]),
              equivariant=cfg["equivariant"], conv_filters=bank, kernel_size=cfg.get("kernel_size"),
              use_group_norm=cfg["use_group_norm"], key=random.PRNGKey(ctx.seed))
    if isinstance(kw["kernel_size"], list):
        kw["kernel_size"] = tuple(kw["kernel_size"])
    if cfg.get("mid_keys"):
        kw["mid_keys"] = tsig(cfg["mid_keys"])
    if cls == "unet":
        kw.update(num_downsamples=cfg["num_downsamples"], num_conv=cfg["num_conv"], upsample_filters=up_bank)
        ctor = models.UNet
    elif cls == "resnet":
        kw.update(num_blocks=cfg["num_blocks"], num_conv=cfg["num_conv"],
                  preactivation_order=cfg["preactivation_order"])
        ctor = models.ResNet
    else:
        kw.update(num_blocks=cfg["num_blocks"])
        ctor = models.DilResNet
    x = make_input(geom, D, in_sig, dims, torus)
    try:
        if cfg.get("use_batch_norm"):
            # conventional UNet with BatchNorm (stateful): run in inference mode on one sample.  The signature
            # calculus treats the normalisation as the identity on (signature, extents, D, flags), so the
            # Lean prediction is that of the same configuration without batch norm.
            import equinox as eqx

            model, state = eqx.nn.make_with_state(ctor)(D, in_sig, out_sig, use_batch_norm=True, **kw)
            out, _ = eqx.nn.inference_mode(model)(x, state)
        else:
            model = ctor(D, in_sig, out_sig, **kw)
            out, _ = model(x)
        impl = observe(out)
    except Exception as e:  # noqa: BLE001
        impl = {"raises": type(e).__name__, "msg": str(e)[:160]}
    dcfg = {k: cfg[k] for k in ("D", "input_keys", "output_keys", "depth", "equivariant", "use_bias",
                                "use_group_norm") if k in cfg}
    dcfg["activation"] = cfg["activation"] is not None
    for k in ("mid_keys", "bank", "up_bank", "kernel_size", "num_downsamples", "num_conv", "num_blocks",
              "preactivation_order"):
        if cfg.get(k) is not None:
            dcfg[k] = cfg[k]
    xj = {"sig": cfg["input_keys"], "dims": list(dims), "D": D, "torus": list(torus)}
    try:
        mo = ctx.driver.call("c20.model", **{"class": cls}, cfg=dcfg, x=xj)["out"]
    except DriverReject as e:
        mo = {"raises": str(e)}
    kind, want = reference(cfg)
    closed = None
    if cfg["equivariant"] and "bank" in dcfg:
        try:
            closed = ctx.driver.call("c20.reach", **{"class": cls}, cfg=dcfg)
        except DriverReject as e:
            closed = {"rejected": str(e)}
    case = dict(cfg)
    case.update({"kind": "model", "impl": impl, "model": mo, "reference": kind,
                 "expected_sig": jsig(want) if kind == "exact" else None,
            "reference_note": want if kind == "raises" else None,
                 "wall_s": round(time.time() - t0, 1)})
    mode = "equivariant" if cfg["equivariant"] else "conventional"
    for name in ("class", "use_bias", "use_group_norm", "activation", "depth", "D"):
        ctx.hist(name, cfg[name])
    ctx.hist("mode", mode)
    ctx.hist("reference", kind)
    ctx.hist("class_x_mode", f"{cls}/{mode}")
    alltypes = set(map(tuple, [t for t, _ in cfg["input_keys"]] + [t for t, _ in cfg["output_keys"]]))
    nontriv = len(alltypes) >= 2 and cfg["input_keys"] != cfg["output_keys"] and kind != "raises"
    ctx.case(("model", cls, dcfg, xj), nontriv,
             sample={k: case[k] for k in ("class", "equivariant", "input_keys", "output_keys", "depth",
                                          "use_bias", "use_group_norm", "dims", "torus", "impl", "wall_s")})
    log(f"[C20] {cls}/{mode} bias={cfg['use_bias']} gn={cfg['use_group_norm']} D={D} dims={dims} "
        f"-> {impl.get('sig', impl.get('raises'))} ({case['wall_s']}s)")
    if closed is not None and "rejected" not in closed:
        # Lean closed form (Model/C20Banks.lean: resnetSig / dilresnetSig / unetSig) against the Python
        # layerwise oracle and against the real output
        case["closed_form"] = closed
        ctx.hist("closed_form", "raises/none" if closed["closed"] is None else
                 ("empty" if not closed["closed"] else
                  ("partial" if len(closed["closed"]) < len(cfg["output_keys"]) else "all requested types")))
        residual = kind == "raises" and want == "residual addition of different key sets"
        if kind == "exact" and closed["closed"] != jsig(want):
            ctx.violation("correspondence", "python layerwise oracle differs from the Lean closed form "
                          f"({cls}Sig)", case)
            return
        if residual and closed["closed"] is not None:
            ctx.violation("correspondence", "python layerwise oracle says the residual addition raises, the "
                          "Lean closed form returns a signature", case)
            return
        if closed["closed"] is not None and "raises" not in impl and "raises" not in mo \
                and impl["sig"] != closed["closed"] and kind != "exact":
            ctx.violation("correspondence", "real output signature differs from the Lean closed form", case)
            return
        if kind == "exact" and closed["absent"] != [list(t) for t, _ in tsig(out_sig) if t not in
                                                     [w[0] for w in want]]:
            ctx.violation("correspondence", "absentTypes differs from the unreachable requested types", case)
            return
    if kind == "raises":
        if "raises" not in impl and "raises" in mo:
            # the model says the code rejects this configuration, the code ran: only a modelling gap
            ctx.violation("correspondence", "implementation accepts a configuration the Lean model rejects", case)
            return
        if "raises" in impl and "raises" not in mo:
            ctx.violation("correspondence", "Lean model accepts a configuration the implementation rejects", case)
            return
        if "raises" in impl:
            return  # rejected by the reference, the model and the implementation alike
        kind = "weak"  # the reference was too strict: fall back to the order/extent clauses
    if "raises" in impl:
        if kind == "exact" or "raises" not in mo:
            ctx.violation("oracle", f"{cls} ({mode}) raised {impl['raises']} on a valid configuration{tag}", case)
        return
    bad = []
    if kind == "exact":
        if tsig([(tuple(t), c) for t, c in impl["sig"]]) != want:
            got = [tuple(e[0]) for e in impl["sig"]]
            wk = [t for t, _ in want]
            if sorted(got) != sorted(wk):
                bad.append("output types differ from the requested ones")
            elif got != wk:
                bad.append("output types not in the requested order")
            else:
                bad.append("channel counts differ from the requested ones")
        if want and impl["dims"] != list(dims):
            bad.append("spatial extents differ from the input's")
    else:  # weak: whatever is produced is an in-order part of the request with the requested channels
        it = iter(jsig(out_sig))
        if not all(any(e == w for w in it) for e in impl["sig"]):
            bad.append("output is not an in-order part of the requested signature")
        if impl["sig"] and impl["dims"] != list(dims):
            bad.append("spatial extents differ from the input's")
    if impl["D"] != D or impl["torus"] != list(torus):
        bad.append("D / is_torus differ from the input's")
    if bad:
        ctx.violation("oracle", f"{cls} ({mode}, use_bias={cfg['use_bias']!r}){tag}: " + "; ".join(bad), case)
    elif impl != mo:
        ctx.violation("correspondence", f"{cls} ({mode}) output observable differs from the Lean model", case)


def rand_sig(rng, pool, n, cmax=3):
    ts = [pool[int(j)] for j in rng.permutation(len(pool))[:n]]
    cs = rng.permutation(cmax)[:n] + 1 if n <= cmax else rng.integers(1, cmax + 1, size=n)
    return [[list(t), int(c)] for t, c in zip(ts, cs)]


def fixed_models(ctx: Ctx):
    """the core list run on every invocation (quick and thorough)"""
    b3, b2 = get_bank(2, 3), get_bank(2, 2)
    S = lambda *e: [[list(t), c] for t, c in e]  # noqa: E731
    base = dict(D=2, depth=2, activation="relu", use_group_norm=False, torus=[True, False])
    L = []
    # equivariant, every bias setting appears; D6 shows at model level for True / "scalar"
    L.append(dict(base, **{"class": "resnet"}, equivariant=True, input_keys=S(((0, 0), 2), ((1, 0), 1)),
                  output_keys=S(((1, 0), 3), ((0, 0), 1)), use_bias=True, num_blocks=1, num_conv=1,
                  preactivation_order=True, use_group_norm=True, dims=[4, 5], _bank=b3))
    L.append(dict(base, **{"class": "dilresnet"}, equivariant=True, input_keys=S(((1, 0), 1), ((0, 0), 2)),
                  output_keys=S(((1, 1), 1), ((1, 0), 2)), use_bias="scalar", num_blocks=1, dims=[4, 4],
                  _bank=b3, activation="tanh"))
    # D10 at model level: pseudo-scalar requested first, bank has no (0,1) filter
    L.append(dict(base, **{"class": "resnet"}, equivariant=True, input_keys=S(((0, 0), 1), ((1, 0), 2)),
                  output_keys=S(((0, 1), 1), ((0, 0), 2)), use_bias="auto", num_blocks=0, num_conv=1,
                  preactivation_order=False, dims=[3, 4], _bank=b3, activation=None))
    L.append(dict(base, **{"class": "unet"}, equivariant=True, input_keys=S(((0, 0), 2), ((1, 0), 1)),
                  output_keys=S(((1, 0), 2), ((0, 0), 3)), use_bias="mean", num_downsamples=1, num_conv=1,
                  use_group_norm=True, dims=[4, 6], _bank=b3, _up_bank=b2, activation="jax.nn.gelu"))
    L.append(dict(base, **{"class": "unet"}, equivariant=True, input_keys=S(((1, 0), 1)),
                  output_keys=S(((0, 1), 2), ((1, 0), 1)), use_bias=False, num_downsamples=2, num_conv=1,
                  dims=[4, 8], torus=[False, False], _bank=b3, _up_bank=b2, activation="gelu"))
    # conventional
    L.append(dict(base, **{"class": "unet"}, equivariant=False, input_keys=S(((1, 0), 1), ((0, 0), 2)),
                  output_keys=S(((1, 0), 2), ((0, 1), 1), ((0, 0), 1)), use_bias="auto", num_downsamples=2,
                  num_conv=2, kernel_size=3, use_group_norm=True, dims=[8, 4]))
    L.append(dict(base, **{"class": "resnet"}, equivariant=False, input_keys=S(((2, 0), 1), ((0, 1), 2)),
                  output_keys=S(((1, 1), 2), ((0, 0), 1)), use_bias=True, num_blocks=2, num_conv=2,
                  preactivation_order=True, kernel_size=[3, 2], use_group_norm=True, dims=[3, 5],
                  torus=[True, True]))
    L.append(dict(base, **{"class": "dilresnet"}, equivariant=False, input_keys=S(((0, 0), 1), ((1, 0), 1)),
                  output_keys=S(((1, 0), 1), ((2, 1), 1)), use_bias=False, num_blocks=1, kernel_size=2,
                  dims=[3, 3], activation="callable"))
    # BatchNorm path of the conventional UNet (LayerWrapperAux), mixed boundary flags
    L.append(dict(base, **{"class": "unet"}, equivariant=False, input_keys=S(((0, 0), 2), ((1, 0), 1)),
                  output_keys=S(((1, 0), 1), ((0, 0), 3)), use_bias="auto", num_downsamples=1,
                  num_conv=1, kernel_size=3, use_batch_norm=True, dims=[4, 8], torus=[False, True]))
    # documented rejections (both sides must reject)
    L.append(dict(base, **{"class": "resnet"}, equivariant=False, input_keys=S(((0, 0), 1)),
                  output_keys=S(((0, 0), 1)), use_bias="mean", num_blocks=0, num_conv=1,
                  preactivation_order=False, kernel_size=3, dims=[3, 3]))
    L.append(dict(base, **{"class": "unet"}, equivariant=False, input_keys=S(((0, 0), 1)),
                  output_keys=S(((1, 0), 1)), use_bias="auto", num_downsamples=1, num_conv=1, kernel_size=3,
                  dims=[4, 5]))
    return L


def random_model(ctx: Ctx, i: int, allow_d3: bool):
    rng = ctx.rng
    cls = ["unet", "resnet", "dilresnet"][i % 3]
    eq = bool((i // 3) % 2 == 0) if i % 5 else bool(rng.integers(2))
    D = 3 if (allow_d3 and i % 11 in (4, 7)) else 2
    gn = bool(rng.integers(2))
    kmax_t = 1 if (gn and eq and rng.integers(4) > 0) else 2
    if D == 3:
        pool = [(0, 0), (1, 0), (2, 0), (2, 1)] if eq else [(0, 0), (0, 1), (1, 0), (1, 1)]
        pool = [t for t in pool if t[0] <= min(kmax_t, 1 if eq else 2)]
    else:
        pool = [t for t in TYPES if t[0] <= kmax_t]
    nin, nout = int(rng.integers(1, 4)), int(rng.integers(1, 4))
    nin, nout = min(nin, len(pool)), min(nout, len(pool))
    cfg = {"class": cls, "D": D, "equivariant": eq, "input_keys": rand_sig(rng, pool, nin),
           "output_keys": rand_sig(rng, pool, nout), "depth": int(rng.integers(1, 4)),
           "use_group_norm": gn,
           "activation": [None, "relu", "gelu", "tanh", "callable", "jax.nn.gelu"][int(rng.integers(6))],
           "torus": [bool(v) for v in rng.integers(0, 2, size=D)]}
    if eq:
        cfg["use_bias"] = BIASES[int(rng.integers(5))]
        bank = get_bank(D, 3)
        r = int(rng.integers(6))
        if D == 2 and r == 0:
            bank = sub_bank(bank, {(1, 1)})
        elif D == 2 and r == 1:
            bank = sub_bank(bank, {(2, 1)})
        cfg["_bank"] = bank
    else:
        cfg["use_bias"] = [True, False, "auto", "auto", True, False, "auto", True, "mean", "scalar"][int(rng.integers(10))]
        cfg["kernel_size"] = [1, 2, 3, [3, 2] + [1] * (D - 2), 3, 2, 3, [2, 3] + [3] * (D - 2), 1, None][int(rng.integers(10))]
    ds = 0
    if cls == "unet":
        ds = int(rng.integers(0, 3))
        cfg["num_downsamples"] = ds
        cfg["num_conv"] = int(rng.integers(1, 3))
        if eq:
            cfg["_up_bank"] = get_bank(D, 2)
    elif cls == "resnet":
        cfg["num_blocks"] = int(rng.integers(0, 3))
        cfg["num_conv"] = int(rng.integers(1, 3))
        cfg["preactivation_order"] = bool(rng.integers(2))
    else:
        cfg["num_blocks"] = int(rng.integers(0, 2)) if eq else int(rng.integers(0, 3))
    mult = [int(v) for v in rng.integers(1, 4, size=D)]
    cfg["dims"] = [m * 2**ds for m in mult]
    if D == 3:  # keep d = 3 small: they are slow
        if cls == "unet":
            ds = min(ds, 1)
            cfg["num_downsamples"] = ds
            cfg["dims"] = [int(v) * 2**ds for v in rng.integers(1, 3, size=D)]
        else:
            cfg["dims"] = [max(2, min(v, 3)) for v in cfg["dims"]]
    if cls == "unet" and ds > 0 and rng.integers(8) == 0:
        cfg["dims"][0] += 1  # not compatible with pooling: must be rejected
    if eq and cls != "unet" and rng.integers(5) == 0:
        ins = [tuple(t) for t, _ in cfg["input_keys"]]
        keys = list(dict.fromkeys(ins + [tuple(t) for t, _ in cfg["output_keys"]]))
        keys = [keys[int(j)] for j in rng.permutation(len(keys))]
        cfg["mid_keys"] = [[list(t), int(rng.integers(1, 4))] for t in keys]
    return cfg


# banks restricted to a subset of the filter types (d = 2, M = 3; the up-sampling bank M = 2)
SUBSETS = {
    "scalar+vector": {(0, 0), (1, 0)},
    "even parity": {(0, 0), (1, 0), (2, 0)},
    "no (2,0)": {(0, 0), (1, 0), (1, 1), (2, 1)},
    "no (0,0)": {(1, 0), (1, 1), (2, 0), (2, 1)},
    "odd parity": {(1, 1), (2, 1)},
    "vector only": {(1, 0)},
    "order 2 only": {(2, 0)},
}


def keep_bank(bank, keep):
    return sub_bank(bank, set(bank.keys()) - set(keep))


def partial_bank_models(ctx: Ctx, n_random: int):
    """equivariant ResNet / DilResNet / UNet built with banks restricted to subsets of the filter
    types, signatures with pseudo-types: the real output signature (types, order, channels) against
    the layerwise reachability oracle, the Lean closed form and the forward-pass model"""
    rng = ctx.rng
    b3, b2 = get_bank(2, 3), get_bank(2, 2)
    S = lambda *e: [[list(t), c] for t, c in e]  # noqa: E731
    base = dict(D=2, depth=2, activation="relu", use_group_norm=False, torus=[True, False], equivariant=True,
                use_bias="auto")
    L = []
    # pseudo-vector input, bank {(0,0),(1,0)}: only the pseudo types come out, in requested order
    L.append(dict(base, **{"class": "resnet"}, input_keys=S(((1, 1), 1)),
                  output_keys=S(((1, 0), 2), ((0, 1), 1), ((0, 0), 3), ((1, 1), 1)), num_blocks=1, num_conv=2,
                  preactivation_order=False, use_group_norm=True, dims=[3, 4],
                  _bank=keep_bank(b3, SUBSETS["scalar+vector"])))
    # bank {(1,0)} alternates scalar <-> vector: one layer per stage cannot add its residual (raises)
    L.append(dict(base, **{"class": "resnet"}, input_keys=S(((0, 0), 1)),
                  output_keys=S(((0, 0), 1), ((1, 0), 2)), mid_keys=S(((0, 0), 2), ((1, 0), 2)), num_blocks=1,
                  num_conv=1, preactivation_order=False, dims=[4, 4], _bank=keep_bank(b3, SUBSETS["vector only"])))
    # no mid type reachable: an EMPTY multi-image comes back (no exception)
    L.append(dict(base, **{"class": "unet"}, input_keys=S(((0, 0), 1)), output_keys=S(((0, 0), 1), ((1, 0), 2)),
                  num_downsamples=1, num_conv=1, dims=[4, 4], _bank=keep_bank(b3, SUBSETS["order 2 only"]),
                  _up_bank=keep_bank(b2, {(0, 0)}), use_bias="mean"))
    # even parity only, scalar + pseudo-scalar input, UNet with a restricted up-sampling bank as well
    L.append(dict(base, **{"class": "unet"}, input_keys=S(((0, 0), 1), ((0, 1), 1)),
                  output_keys=S(((1, 1), 1), ((1, 0), 2), ((0, 1), 1), ((0, 0), 3)), num_downsamples=1, num_conv=1,
                  dims=[4, 6], _bank=keep_bank(b3, SUBSETS["even parity"]),
                  _up_bank=keep_bank(b2, SUBSETS["even parity"]), use_bias=False, activation="gelu"))
    for cfg in L:
        ctx.hist("bank_subset", "fixed")
        model_case(ctx, cfg, tag=" [partial bank]")
    names = sorted(SUBSETS)
    pool = [(0, 0), (0, 1), (1, 0), (1, 1)]
    for i in range(n_random):
        cls = ["dilresnet", "resnet", "unet"][i % 3]
        # the four larger subsets twice as often as the single-type / odd-parity ones (those mostly give
        # an empty output)
        wnames = names + ["scalar+vector", "even parity", "no (2,0)", "no (0,0)"] * 2
        name = wnames[int(rng.integers(len(wnames)))]
        nin, nout = int(rng.integers(1, 3)), int(rng.integers(2, 5))
        if int(rng.integers(4)) == 0:
            pool_i = pool + [(2, 0)]
        else:
            pool_i = pool
        cfg = dict(base, **{"class": cls}, input_keys=rand_sig(rng, pool_i, nin),
                   output_keys=rand_sig(rng, pool_i, min(nout, len(pool_i)), cmax=4),
                   depth=int(rng.integers(1, 3)), use_bias=BIASES[int(rng.integers(5))],
                   use_group_norm=bool(rng.integers(2)) and pool_i is pool,
                   activation=[None, "relu", "tanh"][int(rng.integers(3))],
                   torus=[bool(v) for v in rng.integers(0, 2, size=2)],
                   _bank=keep_bank(b3, SUBSETS[name]))
        if cls == "unet":
            ds = int(rng.integers(1, 3))
            if ctx.tier == "quick":
                ds = 1  # two-level partial-bank UNets take up to ~30 s to trace: thorough tier only
            upname = name if rng.integers(3) else names[int(rng.integers(len(names)))]
            cfg.update(num_downsamples=ds, num_conv=int(rng.integers(1, 3)),
                       dims=[int(m) * 2**ds for m in rng.integers(1, 3, size=2)],
                       _up_bank=keep_bank(b2, SUBSETS[upname]))
        elif cls == "resnet":
            cfg.update(num_blocks=int(rng.integers(0, 3)), num_conv=int(rng.integers(1, 3)),
                       preactivation_order=bool(rng.integers(2)), dims=[int(v) for v in rng.integers(2, 5, size=2)])
        else:
            cfg.update(num_blocks=int(rng.integers(0, 2)), dims=[int(v) for v in rng.integers(2, 5, size=2)])
        if cls != "unet" and rng.integers(3) == 0:
            keys = list(dict.fromkeys([tuple(t) for t, _ in cfg["input_keys"] + cfg["output_keys"]]))
            keys = [keys[int(j)] for j in rng.permutation(len(keys))]
            cfg["mid_keys"] = [[list(t), int(rng.integers(1, 3))] for t in keys]
        ctx.hist("bank_subset", name)
        model_case(ctx, cfg, tag=f" [partial bank: {name}]")


def union_cases(ctx: Ctx, n: int):
    import ginjax.geometric as geom

    rng = ctx.rng
    for _ in range(n):
        a = rand_sig(rng, TYPES, int(rng.integers(1, 4)))
        b = rand_sig(rng, TYPES, int(rng.integers(1, 4)))
        c = int(rng.integers(1, 9))
        impl = geom.signature_union(tsig([(tuple(t), k) for t, k in a]), tsig([(tuple(t), k) for t, k in b]), c)
        mo = ctx.driver.call("c20.union", a=a, b=b, c=c)
        case = {"kind": "signature_union", "a": a, "b": b, "c": c, "impl": jsig(impl), "model": mo}
        ctx.case(("union", a, b, c), len(a) + len(b) >= 3)
        # the order of a Python set is not specified: compare as sets, and the channel counts
        want = {(tuple(t), c) for t, _ in a + b}
        if set(tsig(impl)) != want or len(impl) != len(want):
            ctx.violation("oracle", "signature_union is not the union of the key sets with the given channels", case)
        elif {(tuple(t), k) for t, k in mo} != want or len(mo) != len(want):
            ctx.violation("correspondence", "Lean sigUnion differs from signature_union (as a set)", case)


def wrapper_cases(ctx: Ctx, n: int):
    """the wrapper model classes also map their input signature to the requested output signature:
    Climate1D around a conventional 1-D network (unequal scalar / pseudo-scalar / vector counts),
    ModelWrapper around the identity, GroupAverage around a conventional network.  Oracle only
    (their values are property C10)."""
    import equinox as eqx
    import jax.random as random

    import ginjax.geometric as geom
    import ginjax.ml as ml  # noqa: F401
    import ginjax.models as models

    rng = ctx.rng
    D = 2
    key = random.PRNGKey(ctx.seed + 5)
    for it in range(n):
        cs, cp, cv = (int(v) for v in rng.integers(1, 4, size=3))
        if it == 0:
            cs, cp, cv = 2, 1, 1
        past = int(rng.integers(1, 3))
        lons, lats = int(rng.choice([4, 6, 8])), int(rng.choice([3, 4, 5]))
        keys = geom.Signature((((0, 0), cs * past), ((0, 1), cp * past), ((1, 0), cv * past)))
        order = [int(i) for i in rng.permutation(3)]
        data = {}
        for i in order:
            (k, p), c = keys[i]
            key, sub = random.split(key)
            data[(k, p)] = random.normal(sub, shape=(c, lons, lats) + (D,) * k)
        x = geom.MultiImage(data, D, (True, False))
        out_keys = geom.Signature((((0, 0), cs), ((0, 1), cp), ((1, 0), cv)))
        case = {"kind": "wrapper", "class": "Climate1D", "counts": [cs, cp, cv], "past_steps": past, "dims": [lons, lats],
                "input_order": [list(keys[i][0]) for i in order]}
        ctx.case(("wrapper", "climate", cs, cp, cv, past, lons, lats, order), len({cs, cp, cv}) > 1,
                 sample=case if it == 0 else None)
        ctx.hist("wrapper", "Climate1D")
        try:
            k1_in = models.Climate1D.get_1d_signature(keys, lats)
            k1_out = models.Climate1D.get_1d_signature(out_keys, lats)
            inner = models.ResNet(1, k1_in, k1_out, depth=4, num_blocks=1, equivariant=False, kernel_size=3, key=key)
            net = models.Climate1D(inner, out_keys, past, 1, (lons, lats), {}, (True, False))
            out = net(x)[0]
            got = (tuple(out.get_signature()), tuple(out.get_spatial_dims()), out.D, tuple(out.is_torus))
        except Exception as e:  # noqa: BLE001
            case["raised"] = repr(e)[:300]
            ctx.violation("oracle", "Climate1D raised on a valid configuration", case)
            continue
        want = (tuple(out_keys), (lons, lats), D, (True, False))
        if got != want:
            case["impl"] = str(got); case["expected"] = str(want)
            ctx.violation("oracle", "Climate1D does not return the requested output signature / extents / flags", case)
    # ModelWrapper around the identity and GroupAverage around it: signature in requested order
    for it in range(max(2, n // 2)):
        types = [(0, 0), (1, 0), (0, 1), (1, 1), (2, 0)]
        sel = [types[int(i)] for i in rng.permutation(len(types))[: int(rng.integers(1, 4))]]
        sig = geom.Signature(tuple((t, int(rng.integers(1, 3))) for t in sel))
        dims = (int(rng.choice([3, 4])), int(rng.choice([4, 5])))
        flags = (bool(rng.integers(2)), bool(rng.integers(2)))
        data = {}
        for (k, p), c in sig:
            key, sub = random.split(key)
            data[(k, p)] = random.normal(sub, shape=(c,) + dims + (D,) * k)
        x = geom.MultiImage(data, D, flags)
        case = {"kind": "wrapper", "class": "ModelWrapper/GroupAverage", "signature": jsig(sig), "dims": list(dims), "torus": list(flags)}
        ctx.case(("wrapper", "mw", jsig(sig), dims, flags), len(sel) > 1)
        ctx.hist("wrapper", "ModelWrapper")
        try:
            mw = models.ModelWrapper(D, eqx.nn.Identity(), sig, flags)
            out = mw(x)[0]
            ga = models.GroupAverage(mw, [np.eye(2, dtype=int), np.diag([1, -1])], always_average=True)
            out2 = ga(x)[0]
            # averaging over ALL of B_2 (its list ends with axis-swapping elements) around a model that keeps the
            # metadata of what it is given: non-square extents and mixed flags must come back as they went in
            class _Same(models.MultiImageModule):
                def __call__(self, x, aux_data=None):
                    return x, aux_data

            out3 = models.GroupAverage(_Same(), geom.make_all_operators(D), always_average=True)(x)[0]
            ctx.hist("wrapper", "GroupAverage/all-operators")
            ok = all((tuple(o.get_signature()), tuple(o.get_spatial_dims()), o.D, tuple(o.is_torus)) ==
                     (tuple(sig), dims, D, flags) for o in (out, out2, out3))
        except Exception as e:  # noqa: BLE001
            case["raised"] = repr(e)[:300]
            ok = False
        if not ok:
            ctx.violation("oracle", "ModelWrapper / GroupAverage do not return the requested signature / extents / flags", case)


def replay(ctx: Ctx, rep: dict):
    """re-run the single case stored in a replay file"""
    import ginjax.geometric as geom
    import ginjax.ml as ml

    ctx.rule = "replay of one stored case"
    case = rep.get("case") or {}
    kind = case.get("kind")
    if kind == "ConvContract":
        x = case["x"]
        order = None
        declared = [tuple(e[0]) for e in case["input_keys"]]
        xk = [tuple(e[0]) for e in x["sig"]]
        if xk != declared and sorted(xk) == sorted(declared):
            order = [declared.index(k) for k in xk]
        conv_case(ctx, geom, ml, bank_from_json(case["D"], case["bank"]),
                  tsig([(tuple(t), c) for t, c in case["input_keys"]]),
                  tsig([(tuple(t), c) for t, c in case["target_keys"]]), case["use_bias"],
                  tuple(x["dims"]), tuple(x["torus"]), case.get("opts") or {}, order, tag=" [replay]")
    elif kind == "model":
        drop = ("kind", "impl", "model", "reference", "expected_sig", "reference_note", "wall_s", "closed_form")
        cfg = {k: v for k, v in case.items() if k not in drop}
        if cfg.get("bank"):
            cfg["_bank"] = bank_from_json(cfg["D"], cfg["bank"])
        if cfg.get("up_bank"):
            cfg["_up_bank"] = bank_from_json(cfg["D"], cfg["up_bank"])
        model_case(ctx, cfg, tag=" [replay]")
    else:
        run(ctx)


def run(ctx: Ctx):
    ctx.rule = (
        "models: a fixed core list (every class x {equivariant, conventional}, all five bias settings, "
        "group norm on/off, pseudo-types, unequal channels, banks without a (0,1) filter, two documented "
        "rejections) plus seeded random configurations over (class, mode, 1-3 input and output types from "
        "{(k,p): k<=2} in random order with distinct channel counts, depth 1-3, blocks 0-2, num_conv 1-2, "
        "downsamples 0-2, normalisation, bias setting, activation in {None, relu, gelu, tanh, callable}, "
        "kernel size in {1,2,3,(3,2),None}, torus flags, non-square extents = multiples of 2^downsamples "
        "(one in eight made incompatible on purpose), banks with filter types removed, explicit mid_keys; "
        "equivariant models with banks restricted to subsets of the filter types (scalar+vector only, "
        "even parity only, no (2,0), no (0,0), odd parity only, a single type; also for the up-sampling "
        "bank) on signatures with pseudo-types, judged by the layerwise reachability oracle (exact "
        "signature, or 'raises' when a residual stage changes its key set, or an empty multi-image); "
        "d=3 in the thorough tier); each built and run once, observable = (signature in order, extents, "
        "D, flags) or 'raises'.  layers: ml.ConvContract on the D6/D10 witnesses, then target key lists "
        "in every order x four banks x five bias settings x random inputs.  re-layouts: "
        "to_scalar/from_scalar on position-encoded blocks, d in {2,3}.  A model case is non-trivial when "
        "input and output signature differ and together hold >= 2 types and the configuration is valid; "
        "a layer case when it has >= 2 targets or a missing filter type; a re-layout case when it has "
        ">= 2 types one of which has k >= 1.  distinct = distinct canonical configuration."
    )
    ctx.assumptions = [
        "signatures have pairwise distinct keys; use_batch_norm=False",
        "the final observation is the eager call model(x)[0] (no jit boundary re-sorting the dict)",
        "conventional CNN internals (eqx.nn.Conv/ConvTranspose/GroupNorm) are modelled by their shapes only",
    ]
    ctx.trusted_extra = [
        "eqx.nn.Conv/ConvTranspose/GroupNorm shape behaviour; lax.conv_general_dilated(_patches) extent "
        "formula (modelled as convExtent / floor division, validated by this run)",
    ]
    quick = ctx.tier == "quick"
    t0 = time.time()
    conv_cases(ctx, 20 if quick else 600)
    log(f"[C20] layer cases done at {time.time() - t0:.0f}s")
    scalar_cases(ctx, 12 if quick else 200)
    union_cases(ctx, 20 if quick else 400)
    wrapper_cases(ctx, 4 if quick else 40)
    for cfg in fixed_models(ctx):
        model_case(ctx, cfg)
    partial_bank_models(ctx, 3 if quick else 90)
    log(f"[C20] partial-bank models done at {time.time() - t0:.0f}s")
    n_rand = 10 if quick else 290
    for i in range(n_rand):
        model_case(ctx, random_model(ctx, i + int(ctx.rng.integers(0, 30)) if quick else i, allow_d3=not quick))
    if quick:
        # one d = 3 model per quick run (conventional: no d=3 bank needed, a few seconds)
        S = lambda *e: [[list(t), c] for t, c in e]  # noqa: E731
        model_case(ctx, {"class": "resnet", "D": 3, "equivariant": False, "depth": 2, "activation": "relu",
                         "use_group_norm": False, "torus": [True, False, True],
                         "input_keys": S(((1, 0), 1), ((0, 0), 1)), "output_keys": S(((0, 1), 1), ((1, 0), 2)),
                         "use_bias": "auto", "num_blocks": 1, "num_conv": 1, "preactivation_order": False,
                         "kernel_size": 3, "dims": [2, 3, 2]})
    log(f"[C20] all cases done at {time.time() - t0:.0f}s")
