"""C19 - stopping conditions stop exactly when specified, for any loss history.

correspondence: the real TrainLoss / ValLoss / EpochStop classes, call by call (verdict and
  best_model identity), against the Lean state machine (driver ops c19.run / c19.epoch), for
  every history over a 4-letter ordered alphabet up to a length bound, patience 0..3,
  min_delta in {0, 1/2}, four scalar representations, both monitored quantities.
oracle: the property's sentence evaluated directly in Python (first epoch with more than
  `patience` consecutive non-improvements; best model = epoch of the tracked best), and real
  ml.train runs with a scripted loss history under a runaway guard.
reused: ONE real TrainLoss / ValLoss object taken through two consecutive call sequences exactly as
  ml.train drives it (`best_model = <initial model>`, then `stop(...)` per epoch until True or a
  cap; model ids 100+j in the first sequence, j in the second).  correspondence: stop epoch and
  best_model id of both sequences against the Lean loop (`trainLoopReused` from the stale state the
  model predicts after the first sequence, driver op c19.reused).  oracle: the object's best_model
  at the end of the second sequence is one of the second sequence's models.  Plus real ml.train
  called twice with one condition object.
non-finite losses: histories over {0,1,2,3,nan,inf,-inf} with at least one NaN / +inf / -inf entry, driven
  call by call through the real classes in all four scalar representations.  correspondence: the Lean
  FLOAT-SHAPED machine (`pStepF` over `FV Rat`, best initialised to inf; driver op c19.run_f).
  oracle: the property's sentence with "a NaN or +inf loss never improves on anything; a -inf loss
  improves on every best but -inf, and nothing improves on a -inf best" (Python reference,
  cross-checked with the Lean spec `trailingF` / `argBestF` / `bestFV`, op c19.spec_f).  Plus real
  ml.train runs whose scripted losses become NaN (must stop and return the best finite-loss model) or
  hit -inf (must stop patience+1 epochs later and return the model of the -inf epoch).
"""
from __future__ import annotations

import itertools
from fractions import Fraction

import numpy as np

from common import Ctx, jrat

# includes the exact value 0 (a loss that reaches zero is a legitimate best value)
ALPHABET = [Fraction(0), Fraction(1), Fraction(2), Fraction(3)]
REPS = ["pyfloat", "npfloat32", "npfloat64", "jax"]
# 3/2 exceeds the alphabet's smallest step, so some decreases do NOT count as improvements
DELTAS = (Fraction(0), Fraction(1, 2), Fraction(3, 2))
# family "non-finite losses": a diverged training reports NaN (or +inf) as its epoch loss
NAN, INF, NINF = "nan", "inf", "-inf"
NF_ALPHABET = ALPHABET + [NAN, INF, NINF]
NF_DELTAS = (Fraction(0), Fraction(1, 2))


def is_finite(x):
    return not isinstance(x, str)


def jloss(x):
    """loss for the driver: [num, den] or the strings "nan" / "inf" / "-inf" """
    return x if isinstance(x, str) else jrat(x)


def parse_loss(t):
    return t if t in (NAN, INF, NINF) else Fraction(t)


def decoy_of(x):
    """value of the NON-monitored argument (must be ignored): finite, and tempting for a NaN / inf loss"""
    return Fraction(100) - x if is_finite(x) else Fraction(0)


def conv(rep, x):
    import jax.numpy as jnp

    v = float(x)  # Fraction, or the strings "nan" / "inf" / "-inf"
    if rep == "pyfloat":
        return v
    if rep == "npfloat32":
        return np.float32(v)
    if rep == "npfloat64":
        return np.float64(v)
    return jnp.array(v)


def oracle(hist, patience, delta):
    """the property's sentence: verdict after each loss, and epoch (1-based) of tracked best"""
    best = None
    since = 0
    arg = 0
    out = []
    for i, x in enumerate(hist):
        if best is None or x < best - delta:
            best, since, arg = x, 0, i + 1
        else:
            since += 1
        out.append((since > patience, arg))
    return out


def oracle_nf(hist, patience, delta):
    """the property's sentence on a history with NaN / +inf / -inf entries: a NaN or +inf loss never
    improves on anything (it is a non-improving epoch); a -inf loss improves (by more than any min_delta)
    on every best value except -inf; on a best of -inf nothing improves, not even another -inf
    (-inf is not below -inf).  Until the first -inf the best is the best finite loss."""
    best = None  # None (nothing yet), a Fraction, or NINF
    since = 0
    arg = 0
    out = []
    for i, x in enumerate(hist):
        if best == NINF or x in (NAN, INF):
            improved = False
        elif x == NINF:
            improved = True
        else:
            improved = best is None or x < best - delta
        if improved:
            best, since, arg = x, 0, i + 1
        else:
            since += 1
        out.append((since > patience, arg))
    return out


def best_nf(hist, delta):
    """tracked best after each loss (the value of the epoch oracle_nf names), as the driver prints it"""
    out = []
    for i in range(len(hist)):
        arg = oracle_nf(hist[: i + 1], 0, delta)[-1][1]
        out.append(INF if arg == 0 else jloss(hist[arg - 1]))
    return out


def run_impl(ml, cls_name, patience, delta, rep, hist):
    """returns list of (verdict, best_model) for: one loss-less call, then one call per loss"""
    cond = getattr(ml, cls_name)(patience=patience, min_delta=float(delta))
    out = []
    v = cond.stop(0, 0, None, None, 0.0)
    out.append((bool(v), cond.best_model))
    for i, x in enumerate(hist):
        decoy = conv(rep, decoy_of(x))  # the non-monitored argument must be ignored
        mine = conv(rep, x)
        if cls_name == "TrainLoss":
            v = cond.stop(i + 1, i + 1, mine, decoy, 0.0)
        else:
            v = cond.stop(i + 1, i + 1, decoy, mine, 0.0)
        out.append((bool(v), cond.best_model))
    return out


def check_history(ctx: Ctx, ml, cls_name, patience, delta, rep, hist, model_out, family=None):
    impl = run_impl(ml, cls_name, patience, delta, rep, hist)
    orc = (oracle_nf if family == "nonfinite" else oracle)(hist, patience, delta)
    want = [(False, None)] + [(v, (a if a > 0 else None)) for v, a in orc]
    case = {
        "class": cls_name,
        "patience": patience,
        "min_delta": str(delta),
        "rep": rep,
        "losses": [str(x) for x in hist],
        "impl": [[v, m] for v, m in impl],
        "expected": [[v, m] for v, m in want],
    }
    imps = sum(1 for i in range(1, len(orc)) if orc[i][1] != orc[i - 1][1])
    nontriv = len(hist) >= 2 and imps >= 1 and any(
        orc[i][1] == orc[i - 1][1] for i in range(1, len(orc))
    )
    what = "verdicts/best_model differ from the specification"
    lean = "pStep"
    if family == "nonfinite":
        case["family"] = family
        # both branches of the test are taken: a finite loss is tracked and a NaN / +inf loss is refused;
        # with a -inf entry: the first -inf is tracked and at least one later loss is refused
        nontriv = len(hist) >= 2 and any(is_finite(x) for x in hist)
        if NINF in hist:
            nontriv = hist.index(NINF) < len(hist) - 1
        what = ("verdicts/best_model differ from the specification on a history with NaN / +inf / -inf losses "
                "(a NaN or +inf loss is a non-improving epoch; the first -inf loss is the final best)")
        lean = "pStepF (float-shaped machine)"
        kinds = ctx.notes.setdefault("nonfinite_samples", {})
        kind = ",".join(k for k, t in (("NaN", NAN), ("+inf", INF), ("-inf", NINF)) if t in hist) + \
            ("; before any finite loss" if not is_finite(hist[0]) else "; after a finite best")
        if kind not in kinds and len(hist) >= 3 and patience == 1:
            kinds[kind] = {k: case[k] for k in ("class", "patience", "min_delta", "rep", "losses", "impl")}
    ctx.case((cls_name, patience, str(delta), rep, case["losses"]), nontriv,
             sample=None if family else
             {k: case[k] for k in ("class", "patience", "min_delta", "rep", "losses", "impl")})
    if impl != want:
        ctx.violation("oracle", f"{cls_name} {what}", case)
    mod = list(zip(model_out["verdicts"], model_out["best_models"]))
    if [(v, m) for v, m in impl] != [(v, m) for v, m in mod]:
        case2 = dict(case)
        case2["model"] = [[v, m] for v, m in mod]
        if impl == want:
            ctx.violation("correspondence", f"{cls_name} differs from Lean model {lean}", case2)


def enumerate_histories(ctx: Ctx, ml, max_len):
    drv = ctx.driver
    for n in range(1, max_len + 1):
        for hist in itertools.product(ALPHABET, repeat=n):
            hist = list(hist)
            for patience in range(4):
                for delta in DELTAS:
                    for cls_name, mon in (("TrainLoss", "train"), ("ValLoss", "val")):
                        calls = [{"train": None, "val": None}]
                        for x in hist:
                            if mon == "train":
                                calls.append({"train": jrat(x), "val": jrat(100 - x)})
                            else:
                                calls.append({"train": jrat(100 - x), "val": jrat(x)})
                        mo = drv.call("c19.run", patience=patience, delta=jrat(delta), monitor=mon,
                                      m0=None, start=0, calls=calls)
                        # the Lean spec functions (proved equal to the machine) as a second opinion
                        sp = drv.call("c19.spec", patience=patience, delta=jrat(delta),
                                      losses=[jrat(x) for x in hist])
                        orc = oracle(hist, patience, delta)
                        if sp["verdicts"] != [v for v, _ in orc] or sp["argbest"] != [a for _, a in orc]:
                            ctx.violation("correspondence", "python oracle differs from Lean spec (trailing/argBest)",
                                          {"losses": [str(x) for x in hist], "patience": patience,
                                           "min_delta": str(delta), "lean": sp, "oracle": orc})
                        # all representations on short histories, a rotating one on the longest
                        reps = REPS if n <= max_len - 1 else [REPS[(len(hist) + patience + int(hist[0])) % 4], "jax"]
                        for rep in dict.fromkeys(reps):
                            ctx.hist("rep", rep)
                            ctx.hist("len", n)
                            ctx.hist("class", cls_name)
                            check_history(ctx, ml, cls_name, patience, delta, rep, hist, mo)


def nf_calls(mon, hist):
    calls = [{"train": None, "val": None}]
    for x in hist:
        mine, decoy = jloss(x), jrat(decoy_of(x))
        calls.append({"train": mine, "val": decoy} if mon == "train" else {"train": decoy, "val": mine})
    return calls


def nonfinite_histories(ctx: Ctx, ml, max_len):
    """family 'non-finite losses': every history over {0,1,2,3,nan,inf,-inf} up to max_len with at least
    one NaN / +inf / -inf entry"""
    drv = ctx.driver
    for n in range(1, max_len + 1):
        for hist in itertools.product(NF_ALPHABET, repeat=n):
            if all(is_finite(x) for x in hist):
                continue
            hist = list(hist)
            for patience in range(4):
                for delta in NF_DELTAS:
                    # the Lean spec (proved equal to the float-shaped machine: pRunF_spec_nan) against the
                    # Python reference of the property's sentence
                    sp = drv.call("c19.spec_f", patience=patience, delta=jrat(delta),
                                  losses=[jloss(x) for x in hist])
                    orc = oracle_nf(hist, patience, delta)
                    if sp["verdicts"] != [v for v, _ in orc] or sp["argbest"] != [a for _, a in orc] \
                            or sp["best"] != best_nf(hist, delta):
                        ctx.violation("correspondence", "python oracle differs from Lean spec (trailingF/argBestF/bestFV)",
                                      {"family": "nonfinite-spec", "losses": [str(x) for x in hist],
                                       "patience": patience, "min_delta": str(delta), "lean": sp, "oracle": orc})
                    for cls_name, mon in (("TrainLoss", "train"), ("ValLoss", "val")):
                        mo = drv.call("c19.run_f", patience=patience, delta=jrat(delta), monitor=mon,
                                      m0=None, start=0, calls=nf_calls(mon, hist))
                        # the Lean machine's best loss after every call is the spec's bestFV (pRunF_spec_nan)
                        if mo["best_losses"][1:] != sp["best"]:
                            ctx.violation("correspondence", "Lean pStepF best loss differs from the Lean spec bestFV",
                                          {"family": "nonfinite-spec", "losses": [str(x) for x in hist],
                                           "patience": patience, "min_delta": str(delta), "lean": sp, "machine": mo})
                        # all four representations; on the longest thorough histories a rotating one + jax
                        reps = REPS if (ctx.tier == "quick" or n < max_len) else \
                            [REPS[(n + patience + len([x for x in hist if is_finite(x)])) % 4], "jax"]
                        # histories with a -inf entry: all four representations below the longest length, on
                        # the longest a rotating one (quick) / a rotating one + jax (thorough)
                        if NINF in hist and n == max_len and ctx.tier == "quick":
                            reps = [REPS[(n + patience + len([x for x in hist if is_finite(x)])
                                          + hist.index(NINF)) % 4]]
                        for rep in dict.fromkeys(reps):
                            ctx.hist("nonfinite_rep", rep)
                            ctx.hist("nonfinite_len", n)
                            ctx.hist("nonfinite_kind", "+".join(k for k in (NAN, INF, NINF) if k in hist))
                            check_history(ctx, ml, cls_name, patience, delta, rep, hist, mo, family="nonfinite")


def nonfinite_train_configs():
    """(condition, patience, min_delta, parameter script, with validation).  The parameter (and with
    it every later loss) becomes NaN and stays NaN: training has diverged.  TrainLoss sees the loss of
    the parameter BEFORE the epoch's update, so the last finite train loss belongs to an epoch whose
    model is already NaN: the scripts make that epoch a non-improving one."""
    return [
        ("TrainLoss", 2, Fraction(0), [5, 3, 4, NAN, NAN, NAN, NAN, NAN, NAN], False),
        ("ValLoss", 1, Fraction(0), [9, 5, 4, 6, NAN, NAN, NAN, NAN], True),
        ("ValLoss", 0, Fraction(1, 2), [7, 6, NAN, NAN, NAN, NAN], True),
        ("TrainLoss", 1, Fraction(1, 2), [8, 6, 7, 7, NAN, NAN, NAN, NAN], True),
    ]


def ninf_train_configs():
    """(condition, patience, min_delta, parameter script, with validation).  The parameter reaches -inf;
    the scripted optimizer's next update is `next - (-inf)`, so the parameter is NaN from the following
    epoch on (the scripts say so).  ValLoss sees the loss of the parameter AFTER the epoch's update: the
    -inf epoch is the last improvement and its model (w = -inf) is the one to hand back, patience + 1
    epochs later."""
    return [
        ("ValLoss", 1, Fraction(0), [9, 5, NINF, NAN, NAN, NAN, NAN], True),
        ("ValLoss", 2, Fraction(1, 2), [7, NINF, NAN, NAN, NAN, NAN, NAN], True),
    ]


def nonfinite_training_runs(ctx: Ctx, configs):
    """real ml.train, scripted parameter that turns NaN, under the runaway guard: must terminate and
    return the best finite-loss model"""
    for cond_name, patience, delta, sc, with_val in configs:
        losses = sc[1:] if cond_name == "ValLoss" else sc[:-1]
        mo = ctx.driver.call("c19.loop_f", patience=patience, delta=jrat(delta),
                             losses=[jloss(x) for x in losses], fuel=len(losses) + 2)
        orc = oracle_nf(losses, patience, delta)
        stop_at = next((i + 1 for i, (v, _) in enumerate(orc) if v), None)
        stopped, epoch, got_w = train_run(ctx, cond_name, patience, delta, sc, with_val)
        case = {"family": "nonfinite-train", "condition": cond_name, "patience": patience, "min_delta": str(delta),
                "parameter_script": [str(x) for x in sc], "monitored_losses": [str(x) for x in losses],
                "validation": with_val,
                "impl": {"stopped": stopped, "stop_epoch": epoch, "returned_w": None if got_w is None else str(got_w)},
                "model": mo}
        ctx.case(("nonfinite-train", cond_name, patience, str(delta), case["parameter_script"], with_val), True)
        ctx.notes.setdefault("nonfinite_train_runs", []).append(case)
        ctx.hist("train_run", "nonfinite " + cond_name)
        if stop_at is None:
            continue  # the script never triggers the condition: nothing pinned
        want = sc[orc[stop_at - 1][1]]
        case["expected"] = {"stop_epoch": stop_at, "returned_w": str(want)}
        ok_model = mo["stopped"] and mo["epoch"] == stop_at and mo["best"] == orc[stop_at - 1][1]
        if not stopped:
            ctx.violation("oracle", "ml.train did not terminate although the loss is NaN from some epoch on "
                          "(runaway guard hit)", case)
        elif epoch != stop_at or not ((is_finite(want) or want == NINF) and got_w == float(want)):
            ctx.violation("oracle", "ml.train on a loss history that turns NaN / hits -inf stopped at the wrong epoch "
                          "or did not return the model of the best (finite or -inf) loss", case)
        elif not ok_model:
            ctx.violation("correspondence", "Lean trainLoopF differs from ml.train / the Python reference on a "
                          "history that turns NaN", case)


def epoch_stop(ctx: Ctx, ml):
    drv = ctx.driver
    for epochs in range(0, 6):
        cond = ml.EpochStop(epochs=epochs, verbose=0)
        calls = list(range(0, 8))
        impl = []
        for e in calls:
            v = cond.stop(1000 + e, e, None, None, 0.0)
            impl.append((bool(v), None if cond.best_model is None else cond.best_model - 1000))
        mo = drv.call("c19.epoch", epochs=epochs, calls=calls)
        mod = list(zip(mo["verdicts"], mo["best_models"]))
        want = [(e >= epochs, e) for e in calls]
        case = {"class": "EpochStop", "epochs": epochs, "impl": impl, "expected": want}
        ctx.case(("EpochStop", epochs), epochs >= 1, sample=case if epochs == 2 else None)
        if impl != want:
            ctx.violation("oracle", "EpochStop verdict/best_model differ from the specification", case)
        elif impl != mod:
            ctx.violation("correspondence", "EpochStop differs from Lean model eStep", dict(case, model=mod))
        # the same object driven through a second training call (epochs start again at 0), and then with
        # a non-sequential epoch counter (resumed training): exactly `epochs` epochs again
        again = []
        for e in calls:
            v = cond.stop(2000 + e, e, None, None, 0.0)
            again.append((bool(v), None if cond.best_model is None else cond.best_model - 2000))
        resumed = [(bool(cond.stop(3000 + e, e, None, None, 0.0)), cond.best_model - 3000) for e in (4, 5, 2, 7, 0)]
        ctx.case(("EpochStop-reused", epochs), epochs >= 1)
        if again != want or resumed != [(e >= epochs, e) for e in (4, 5, 2, 7, 0)]:
            ctx.violation("oracle", "EpochStop: a re-used object / a non-sequential epoch counter does not stop after exactly "
                                    "the requested number of epochs", dict(case, second_call=again, resumed=resumed))


# ---------------------------------------------------------------------------------------------
# real training runs with a scripted loss history


class Runaway(Exception):
    pass


def train_run(ctx: Ctx, cond_name, patience, delta, script, with_val, cond=None, nb=1):
    """script[e] = value of the single model parameter after e epochs.
    train loss of epoch e+1 = script[e] (loss is evaluated before the update; with `nb` batches per epoch the
    parameter only moves at the last batch of the epoch, so every batch loss of the epoch is script[e] and their
    MEAN, the epoch loss, is script[e] too), validation loss of epoch e+1 = script[e+1]."""
    import equinox as eqx
    import jax
    import jax.numpy as jnp
    import jax.random as random
    import optax

    import ginjax.geometric as geom
    import ginjax.ml as ml

    class Tiny(eqx.Module):
        w: jax.Array

        def __call__(self, x, aux_data=None):
            return x, aux_data

    def map_and_loss(model, x, y, aux_data):
        return model.w + 0.0 * jnp.sum(x[(0, 0)]) , aux_data

    table = jnp.array([float(v) for v in script] + [float(script[-1])] * 4)

    def init(params):
        return jnp.zeros((), dtype=jnp.int32)

    def update(grads, state, params=None):
        nxt = table[(state + 1) // nb]
        upd = jax.tree_util.tree_map(lambda p: nxt - p, params)
        return upd, state + 1

    optimizer = optax.GradientTransformation(init, update)
    X = geom.MultiImage({(0, 0): jnp.ones((2 * nb, 1, 2, 2))}, 2)
    Y = geom.MultiImage({(0, 0): jnp.ones((2 * nb, 1, 2, 2))}, 2)
    if cond is not None:
        pass  # a used condition object is handed in as it is
    elif cond_name == "EpochStop":
        cond = ml.EpochStop(epochs=patience, verbose=0)
    else:
        cond = getattr(ml, cond_name)(patience=patience, min_delta=float(delta))
    limit = len(script) + 3
    orig = type(cond).stop.__get__(cond)  # the class's own method (a re-used object carries an old guard)
    calls = {"n": 0}

    def guarded(*a, **k):
        calls["n"] += 1
        if calls["n"] > limit:
            raise Runaway()
        return orig(*a, **k)

    cond.stop = guarded
    model = Tiny(jnp.array(float(script[0])))
    kw = {}
    if with_val:
        kw = dict(validation_X=X, validation_Y=Y)
    stopped = True
    try:
        best, _, tl, vl = ml.train(X, Y, map_and_loss, model, random.PRNGKey(0), cond, 2, optimizer, **kw)
        got_w = float(best.w)
    except Runaway:
        stopped, got_w = False, None
    return stopped, calls["n"] - 1, got_w


def training_runs(ctx: Ctx, n_runs):
    drv = ctx.driver
    rng = ctx.rng
    configs = [
        ("TrainLoss", 1, Fraction(0), [5, 4, 3, 3, 4, 3, 2, 9, 9, 9], False),
        ("ValLoss", 0, Fraction(0), [9, 5, 4, 6, 1, 1, 1, 1], True),
        ("TrainLoss", 0, Fraction(1, 2), [8, 6, 5.75, 5.5, 2, 2, 2], False),
        ("TrainLoss", 1, Fraction(1, 4), [0.875, 0.625, 0.5, 0.5, 0.5, 0.5], False),
        ("ValLoss", 2, Fraction(0), [9, 3, 4, 5, 2, 6, 7, 8, 1, 1], True),
        ("EpochStop", 3, Fraction(0), [9, 8, 7, 6, 5, 4], False),
        ("TrainLoss", 2, Fraction(0), [3, 3, 3, 3, 3, 3, 3], True),
    ]
    # several batches per epoch with min_delta > 0: the epoch loss handed to the condition is the MEAN of the
    # batch losses (a sum would scale every decrease and change which epochs count as improvements)
    multi = [("TrainLoss", 0, Fraction(1, 2), [8, 7, 6.625, 6.25, 5.875, 5.875, 5.875], False, 2),
             ("TrainLoss", 1, Fraction(3, 4), [4, 3.5, 3, 2.5, 2.5, 2.5, 2.5], True, 3)]
    for cond_name, patience, delta, script, with_val, nb in multi[: (1 if ctx.tier == "quick" else 2)]:
        sc = [Fraction(v) for v in script]
        mo = drv.call("c19.loop", patience=patience, delta=jrat(delta), losses=[jrat(x) for x in sc[:-1]], fuel=len(sc) + 1)
        stopped, epoch, got_w = train_run(ctx, cond_name, patience, delta, sc, with_val, nb=nb)
        case = {"condition": cond_name, "patience_or_epochs": patience, "min_delta": str(delta), "batches_per_epoch": nb,
                "parameter_script": [str(x) for x in sc], "validation": with_val,
                "impl": {"stopped": stopped, "stop_epoch": epoch, "returned_w": got_w}, "model": mo}
        ctx.case(("train-multibatch", cond_name, patience, str(delta), nb), True)
        ctx.hist("train_run", cond_name + "/multibatch")
        if mo["stopped"]:
            want_w = float(sc[mo["best"]]) if mo["best"] is not None else None
            if not stopped:
                ctx.violation("oracle", "ml.train did not terminate on a non-improving history (runaway guard hit)", case)
            elif epoch != mo["epoch"] or got_w != want_w:
                case["expected"] = {"stop_epoch": mo["epoch"], "returned_w": want_w}
                ctx.violation("oracle", "ml.train with several batches per epoch stopped at the wrong epoch or returned the "
                                        "wrong model (the monitored epoch loss is the mean of the batch losses)", case)
    while len(configs) < n_runs:
        cond = ["TrainLoss", "ValLoss"][int(rng.integers(2))]
        pat = int(rng.integers(0, 3))
        script = [int(v) for v in rng.integers(1, 6, size=int(rng.integers(6, 10)))]
        script += [script[-1]] * (pat + 2)
        configs.append((cond, pat, Fraction(0), script, cond == "ValLoss" or bool(rng.integers(2))))
    for cond_name, patience, delta, script, with_val in configs[:n_runs]:
        sc = [Fraction(v) for v in script]
        if cond_name == "EpochStop":
            mo = drv.call("c19.eloop", epochs=patience, fuel=len(sc) + 5)
        else:
            losses = sc[1:] if cond_name == "ValLoss" else sc[:-1]
            mo = drv.call("c19.loop", patience=patience, delta=jrat(delta),
                          losses=[jrat(x) for x in losses], fuel=len(losses) + 2)
        stopped, epoch, got_w = train_run(ctx, cond_name, patience, delta, sc, with_val)
        case = {"condition": cond_name, "patience_or_epochs": patience, "min_delta": str(delta),
                "parameter_script": [str(x) for x in sc], "validation": with_val,
                "impl": {"stopped": stopped, "stop_epoch": epoch, "returned_w": got_w}, "model": mo}
        ctx.case(("train", cond_name, patience, str(delta), case["parameter_script"], with_val), True, sample=case)
        ctx.hist("train_run", cond_name)
        if not mo["stopped"]:
            continue  # scripted history never triggers the condition within the script: nothing pinned
        want_w = float(sc[mo["best"]]) if mo["best"] is not None else None
        if not stopped:
            ctx.violation("oracle", "ml.train did not terminate on a non-improving history (runaway guard hit)", case)
        elif epoch != mo["epoch"] or got_w != want_w:
            case["expected"] = {"stop_epoch": mo["epoch"], "returned_w": want_w}
            ctx.violation("oracle", "ml.train stopped at the wrong epoch or returned the wrong model", case)


# ---------------------------------------------------------------------------------------------
# one condition object re-used for a second training call

FIRST_ID = 100  # model ids of the first sequence are 100+j, of the second sequence j


def drive_like_train(cond, cls_name, id_base, losses, rep):
    """What ml.train does with its stop condition, on scripted monitored losses:
    `stop_condition.best_model = model`, then `while not stop(model, epoch, loss, val, time)`.
    At most len(losses) epochs (cap).  Returns (stopped, epoch reached)."""
    cond.best_model = id_base
    epoch = 0
    t = v = None
    while True:
        if bool(cond.stop(id_base + epoch, epoch, t, v, 0.0)):
            return True, epoch
        if epoch == len(losses):
            return False, epoch
        x = losses[epoch]
        epoch += 1
        mine, decoy = conv(rep, x), conv(rep, Fraction(100) - x)
        t, v = (mine, decoy) if cls_name == "TrainLoss" else (decoy, mine)


def check_reused(ctx: Ctx, ml, cls_name, patience, delta, rep, first, second, family):
    cond = getattr(ml, cls_name)(patience=patience, min_delta=float(delta))
    st1, e1 = drive_like_train(cond, cls_name, FIRST_ID, first, rep)
    bm1 = cond.best_model
    st2, e2 = drive_like_train(cond, cls_name, 0, second, rep)
    bm2 = cond.best_model
    mo = ctx.driver.call("c19.reused", patience=patience, delta=jrat(delta),
                         first=[jrat(x) for x in first], second=[jrat(x) for x in second])
    impl = {"first": {"stopped": st1, "epoch": e1, "best": bm1 - FIRST_ID if isinstance(bm1, int) else repr(bm1)},
            "second": {"stopped": st2, "epoch": e2, "best": bm2 if isinstance(bm2, int) else repr(bm2)}}
    case = {"family": "reused", "class": cls_name, "patience": patience, "min_delta": str(delta), "rep": rep,
            "first_losses": [str(x) for x in first], "second_losses": [str(x) for x in second],
            "first_ids": f"{FIRST_ID}+epoch", "second_ids": "epoch", "impl": impl,
            "model": {k: mo[k] for k in ("first", "stale", "second")}}
    beats = mo["second"]["best"] != 0
    # the reset of best_model is what matters when the un-reset loop would have kept a first-call model
    keep_foreign = mo["keep"].get("best") is not None and mo["keep"]["best"] >= FIRST_ID
    ctx.case(("reused", cls_name, patience, str(delta), rep, case["first_losses"], case["second_losses"]),
             len(second) >= 2 and len(first) >= 1)
    # keep one sample per kind of case in the evidence (the generic sample slots are taken early)
    kinds = ctx.notes.setdefault("reused_samples", {})
    kind = f"{family}; second {'beats' if beats else 'never beats'} the stale best; first {'stopped' if st1 else 'cut by cap'}"
    if kind not in kinds and len(second) >= 3:
        kinds[kind] = case
    ctx.hist("reused_second", "beats stale best" if beats else "never beats stale best (own initial model)")
    ctx.hist("reused_first", "stopped" if st1 else "cap")
    ctx.hist("reused_reset_matters", keep_foreign)
    ctx.hist("reused_class", cls_name)
    # the model's own cross-checks (proved: reused_terminates / reused_spec)
    if mo["second"]["stopped"] and (mo["direct"] != mo["second"] or mo["spec"] != mo["second"]):
        ctx.violation("correspondence", "Lean trainLoopReused / pRun state / staleSince-staleModel spec disagree",
                      dict(case, lean=mo))
    # ORACLE: the best_model at the end of the second sequence is one of the second sequence's models
    own = isinstance(bm2, int) and not isinstance(bm2, bool) and 0 <= bm2 <= e2
    if not own:
        ctx.violation("oracle", f"{cls_name} re-used for a second training call ends with a best_model "
                      f"({bm2!r}) that is not one of that call's models 0..{e2}", case)
    elif impl["first"] != mo["first"] or impl["second"] != mo["second"]:
        ctx.violation("correspondence", f"re-used {cls_name}: stop epoch / best_model differ from the Lean loop "
                      "(trainLoopReused from the predicted stale state)", case)


def reused_conditions(ctx: Ctx, ml):
    quick = ctx.tier == "quick"
    top = ALPHABET[-1]  # never an improvement once something has been tracked (min_delta >= 0)
    l1, l2 = (2, 3) if quick else (3, 3)
    firsts = [list(h) for n in range(1, l1 + 1) for h in itertools.product(ALPHABET, repeat=n)]
    seconds = [list(h) for n in range(1, l2 + 1) for h in itertools.product(ALPHABET, repeat=n)]
    k = 0
    for patience in range(4):
        tail = [top] * (patience + 1)
        for delta in DELTAS:
            for f in firsts:
                # first call both run to its stop (stale counter patience+1) and cut by the cap
                for first in (f + tail, f):
                    for sec in seconds:
                        for cls_name in ("TrainLoss", "ValLoss"):
                            k += 1
                            check_reused(ctx, ml, cls_name, patience, delta, REPS[k % 3], first, sec + tail,
                                         "enumerated")
    # random dyadic histories, larger patience, dyadic min_delta, the scalar type the training loop supplies
    rng = ctx.rng
    dyadic_deltas = [Fraction(0), Fraction(1, 4), Fraction(3, 4), Fraction(2)]
    for i in range(1500 if quick else 12000):
        patience = int(rng.integers(0, 6))
        delta = dyadic_deltas[int(rng.integers(len(dyadic_deltas)))]
        lo = int(rng.integers(1, 30))
        first = [Fraction(int(v), 4) for v in rng.integers(lo, lo + 12, size=int(rng.integers(1, 9)))]
        # second call: sometimes above the first's range (never beats it), sometimes overlapping / below
        shift = [14, 0, -6][int(rng.integers(3))]
        lo2 = max(1, lo + shift)
        second = [Fraction(int(v), 4) for v in rng.integers(lo2, lo2 + 12, size=int(rng.integers(1, 9)))]
        if rng.integers(4) > 0:
            second += [second[-1]] * (patience + 1 + int(rng.integers(3)))
        if rng.integers(2):
            first += [first[-1]] * (patience + 1)
        cls_name = ["TrainLoss", "ValLoss"][int(rng.integers(2))]
        check_reused(ctx, ml, cls_name, patience, delta, REPS[3 if i % 3 == 0 else i % 3], first, second, "random")


def reused_train_configs():
    h = Fraction(1, 2)
    return [
        # second call never beats the first call's best (2): must return its own initial model
        ("TrainLoss", 1, Fraction(0), [5, 4, 2, 3, 3, 3], [6 + h, 5 + h, 4 + h, 4 + h, 4 + h], False),
        # second call beats it at its epoch 2
        ("ValLoss", 1, Fraction(0), [9, 5, 4, 6, 6, 6], [7 + h, 3 + h, 1 + h, 2 + h, 2 + h, 2 + h, 2 + h], True),
        ("TrainLoss", 0, Fraction(1, 2), [8, 6, 6, 6], [5 + h, 5 + h, 5 + h], False),
        ("ValLoss", 2, Fraction(0), [9, 3, 4, 5, 6, 6], [2 + h, 8 + h, 8 + h, 8 + h, 8 + h], True),
        ("TrainLoss", 2, Fraction(1), [4, 3, 3, 3, 3, 3], [3 + h, 2 + h, 1 + h, 1 + h, 1 + h, 1 + h, 1 + h], True),
    ]


def reused_training_runs(ctx: Ctx, configs):
    """real ml.train called twice with ONE condition object; parameter values of the second call are
    k+1/2, of the first call integers, so that a model kept from the first call is recognisable"""
    import ginjax.ml as ml

    for cond_name, patience, delta, sc1, sc2, with_val in configs:
        sc1 = [Fraction(v) for v in sc1]
        sc2 = [Fraction(v) for v in sc2]
        cut = (lambda sc: sc[1:]) if cond_name == "ValLoss" else (lambda sc: sc[:-1])
        mo = ctx.driver.call("c19.reused", patience=patience, delta=jrat(delta),
                             first=[jrat(x) for x in cut(sc1)], second=[jrat(x) for x in cut(sc2)])
        cond = getattr(ml, cond_name)(patience=patience, min_delta=float(delta))
        st1, e1, w1 = train_run(ctx, cond_name, patience, delta, sc1, with_val, cond=cond)
        st2, e2, w2 = train_run(ctx, cond_name, patience, delta, sc2, with_val, cond=cond)
        case = {"family": "reused-train", "condition": cond_name, "patience": patience, "min_delta": str(delta),
                "first_parameter_script": [str(x) for x in sc1], "second_parameter_script": [str(x) for x in sc2],
                "validation": with_val,
                "impl": {"first": {"stopped": st1, "stop_epoch": e1, "returned_w": w1},
                         "second": {"stopped": st2, "stop_epoch": e2, "returned_w": w2}},
                "model": {k: mo[k] for k in ("first", "stale", "second")}}
        ctx.case(("reused-train", cond_name, patience, str(delta), case["first_parameter_script"],
                  case["second_parameter_script"], with_val), True)
        ctx.notes.setdefault("reused_train_runs", []).append(case)
        ctx.hist("train_run", "reused " + cond_name)
        if not (mo["first"]["stopped"] and mo["second"]["stopped"]):
            continue  # scripted histories do not trigger the condition within the script: nothing pinned
        if not (st1 and st2):
            ctx.violation("oracle", "ml.train with a re-used condition did not terminate on a non-improving "
                          "history (runaway guard hit)", case)
            continue
        own = [float(x) for x in sc2[: e2 + 1]]
        want1 = (mo["first"]["epoch"], float(sc1[mo["first"]["best"]]))
        want2 = (mo["second"]["epoch"], float(sc2[mo["second"]["best"]]))
        case["expected"] = {"first": list(want1), "second": list(want2)}
        if w2 not in own:
            ctx.violation("oracle", "second ml.train call with a re-used condition object returned a model that "
                          "is not one of that call's models", case)
        elif (e1, w1) != want1 or (e2, w2) != want2:
            ctx.violation("correspondence", "ml.train with a re-used condition: stop epoch / returned model "
                          "differ from the Lean loop (trainLoopReused)", case)


def replay(ctx: Ctx, rep: dict):
    """re-run the single stored history (or training configuration)"""
    import ginjax.ml as ml

    case = rep.get("case", {})
    ctx.rule = "replay of one stored case"
    if case.get("family") == "reused":
        check_reused(ctx, ml, case["class"], case["patience"], Fraction(case["min_delta"]), case["rep"],
                     [Fraction(x) for x in case["first_losses"]], [Fraction(x) for x in case["second_losses"]],
                     "replay")
    elif case.get("family") == "reused-train":
        reused_training_runs(ctx, [(case["condition"], case["patience"], Fraction(case["min_delta"]),
                                    [Fraction(x) for x in case["first_parameter_script"]],
                                    [Fraction(x) for x in case["second_parameter_script"]], case["validation"])])
    elif case.get("family") == "nonfinite":
        hist = [parse_loss(x) for x in case["losses"]]
        delta = Fraction(case["min_delta"])
        mon = "train" if case["class"] == "TrainLoss" else "val"
        mo = ctx.driver.call("c19.run_f", patience=case["patience"], delta=jrat(delta), monitor=mon, m0=None,
                             start=0, calls=nf_calls(mon, hist))
        check_history(ctx, ml, case["class"], case["patience"], delta, case["rep"], hist, mo, family="nonfinite")
    elif case.get("family") == "nonfinite-train":
        nonfinite_training_runs(ctx, [(case["condition"], case["patience"], Fraction(case["min_delta"]),
                                       [parse_loss(x) for x in case["parameter_script"]], case["validation"])])
    elif "losses" in case and "class" in case and case["class"] in ("TrainLoss", "ValLoss"):
        hist = [Fraction(x) for x in case["losses"]]
        delta = Fraction(case["min_delta"])
        mon = "train" if case["class"] == "TrainLoss" else "val"
        calls = [{"train": None, "val": None}]
        for x in hist:
            calls.append({"train": jrat(x), "val": jrat(100 - x)} if mon == "train" else {"train": jrat(100 - x), "val": jrat(x)})
        mo = ctx.driver.call("c19.run", patience=case["patience"], delta=jrat(delta), monitor=mon, m0=None, start=0, calls=calls)
        check_history(ctx, ml, case["class"], case["patience"], delta, case["rep"], hist, mo)
    elif "parameter_script" in case:
        sc = [Fraction(x) for x in case["parameter_script"]]
        stopped, epoch, got_w = train_run(ctx, case["condition"], case["patience_or_epochs"], Fraction(case["min_delta"]), sc, case["validation"])
        exp = case.get("expected")
        ctx.case(("replay-train", case["condition"]), True)
        if not stopped or (exp and (epoch != exp["stop_epoch"] or got_w != exp["returned_w"])):
            ctx.violation("oracle", "ml.train did not stop at the specified epoch / did not return the best model", case)
    else:
        run(ctx)


def run(ctx: Ctx):
    import ginjax.ml as ml

    ctx.rule = (
        "all loss histories over the ordered alphabet {0,1,2,3} up to length L (quick 5, thorough 7) x "
        "patience 0..3 x min_delta {0,1/2,3/2} (3/2 makes unit decreases non-improvements) x {TrainLoss,ValLoss} x scalar representation "
        "{python float, numpy.float32, numpy.float64, 0-d jax array} (all four up to length L-1, two on "
        "length L), driven call by call through the real classes after one loss-less call; EpochStop for "
        "epochs 0..5 (also re-used for a second call and with a non-sequential epoch counter); plus real ml.train runs (one of them with several batches per epoch and min_delta > 0) with a scripted loss history under a runaway guard. "
        "Family 'reused': ONE TrainLoss/ValLoss object through two consecutive sequences driven as ml.train does "
        "(best_model = initial model, then stop(model, epoch, losses) per epoch until True or the cap; model ids "
        "100+epoch in the first sequence, epoch in the second): first histories over the alphabet up to length "
        "(quick 2, thorough 3), each both run to its stop and cut by the cap, x second histories up to length "
        "3 followed by patience+1 non-improving epochs, x patience 0..3 x the three "
        "min_deltas x both classes, plus random dyadic (k/4) histories with patience 0..5, min_delta in "
        "{0,1/4,3/4,2}, second range above / overlapping / below the first's, 0-d jax scalars on a third of "
        "them; stop epochs and best_model ids compared with Lean trainLoopReused from the predicted stale "
        "state, oracle = the final best_model is one of the second sequence's models; and real ml.train "
        "called twice with one condition object (quick 2, thorough 5 configurations). "
        "Family 'non-finite losses': all histories over {0,1,2,3,nan,inf,-inf} up to length (quick 4, thorough 5) that "
        "contain at least one NaN / +inf / -inf entry x patience 0..3 x min_delta {0,1/2} x both classes x the four scalar "
        "representations (float('nan') / float('-inf'), numpy.float32, numpy.float64, 0-d jax array; two of them on the longest "
        "thorough histories; one rotating representation on the longest quick histories that contain -inf), driven call by "
        "call through the real classes and compared with the Lean float-shaped "
        "machine pStepF (best initialised to inf, IEEE-like comparison and subtraction) and with the property's "
        "sentence read with 'a NaN or +inf loss never improves; a -inf loss improves on every best except -inf, and "
        "nothing improves on a best of -inf'; plus real ml.train runs (quick 2, thorough 4) "
        "whose scripted parameter turns NaN, and (quick 1, thorough 2) whose parameter reaches -inf, under the runaway guard. "
        "A case is non-trivial when its history has length >= 2 and contains both an improvement after "
        "the first loss and a non-improvement (family 'reused': first sequence non-empty, i.e. the object is "
        "genuinely stale, and second sequence of length >= 2; family 'non-finite losses': length >= 2 with at "
        "least one finite loss next to the NaN / +inf entries, or, with a -inf entry, at least one loss after the "
        "first -inf); distinct = distinct (class, patience, delta, rep, "
        "history or pair of histories)."
    )
    ctx.assumptions = ["min_delta is finite and >= 0 (NaN, +inf and -inf LOSSES are covered)",
                       "float(x) of the alphabet values is exact (no rounding, no overflow to inf inside the arithmetic)"]
    ctx.trusted_extra = ["optax/equinox/jax pmap as used by ml.train (exercised, not modelled)"]
    max_len = 5 if ctx.tier == "quick" else 7
    enumerate_histories(ctx, ml, max_len)
    epoch_stop(ctx, ml)
    training_runs(ctx, 3 if ctx.tier == "quick" else 10)
    reused_conditions(ctx, ml)
    reused_training_runs(ctx, reused_train_configs()[: 2 if ctx.tier == "quick" else 5])
    nf_len = 4 if ctx.tier == "quick" else 5
    nonfinite_histories(ctx, ml, nf_len)
    nonfinite_training_runs(ctx, nonfinite_train_configs()[: 2 if ctx.tier == "quick" else 4])
    nonfinite_training_runs(ctx, ninf_train_configs()[: 1 if ctx.tier == "quick" else 2])
    ctx.notes["nonfinite_scope"] = (f"all histories up to length {nf_len} over {{0,1,2,3,nan,inf,-inf}} with at least one "
                                    "non-finite entry")
    ctx.exhaustive = True
    ctx.notes["exhaustive_scope"] = f"histories up to length {max_len} over a 4-value alphabet"
