"""C08 - normalisation, nonlinearity and pooling blocks commute with the group action.

correspondence (model = lean/GinjaxVerif/Model/C08.lean through driver ops c08.*):
  * geom.average_pool            vs `averagePool` over Rat  (exact for power-of-two patch sizes, 1e-6 otherwise)
  * GeometricImage.unpool        vs `unpool` (nearest neighbour) AND `unpoolConv` (the transposed
                                    convolution the code runs), exact on integers
  * geom.max_pool, ml.MaxNormPool vs `maxPool` (argmax of the squared norm, row-major patch order),
                                    exact on integer images without norm ties at the patch maximum
                                    (images with ties are compared too, but only as a diagnostic: the
                                    property does not pin the tie breaking)
  * geom.max_pool(..., comparator_image=K) vs `maxPoolCmp` and geom.max_pool(..., use_norm=False),
    GeometricImage.max_pool(P, use_norm=False), ml.MaxNormPool(P, use_norm=False) on (0,0) blocks vs
    `maxPoolScalar` (Model/C08Max.lean), exact on integer inputs whose comparator has a unique maximiser in
    every patch, plus near-tie comparators (1 + j 2^-18); both sides reject a comparator of the wrong shape and
    use_norm=False on a k > 0 image
  * geom.norm                    vs `normSq`
  * ml.GroupNorm / ml.LayerNorm / ml.VectorNeuronNonlinear (all parameters perturbed) vs the model
    instantiated at Float (symmetric inverse square root by Jacobi iteration in the driver),
    |impl - model| <= 1e-4 (1 + |model|), generic inputs
oracle (the property's own sentence on the real blocks, g. from harness/refs.py, never the library's):
  * pooling: op(g.x) == g.op(x) exactly on integer images (all g of B_2, seeded subset / all of B_3),
    types k <= 2, both parities, non-square extents, flags travelling with the axes; max-pool cases
    with a norm tie at a patch maximum are excluded (and counted); op(roll(x, t P)) == roll(op(x), t),
    unpool(roll(x, t)) == roll(unpool(x), t P)
  * comparator pooling: max_pool(g.x, comparator = g.K) == g.max_pool(x, comparator = K) (K a true scalar,
    unique maximiser per patch, x of every type (k,p), k <= 2) and the plain maximum of true scalars (0,0):
    max_pool(g.x, use_norm=False) == g.max_pool(x, use_norm=False); both also under shifts by multiples of the
    patch length.  The plain maximum of a PSEUDO-scalar (0,1) is outside the property's sentence (norm-based
    pooling) and provably not equivariant (`maxPoolScalar_pseudoscalar_counterexample`); it is evaluated on the
    real code and recorded in the notes, never flagged.
  * GroupNorm / LayerNorm / VectorNeuronNonlinear / MaxNormPool with every learnable leaf perturbed,
    default eps, group counts in the divisors of the channel count, types (0,0) (0,1) (1,0) (1,1)
    (and (2,0) (2,1) for VectorNeuronNonlinear), generic / sparse / constant / zero inputs:
    block(g.x) == g.block(x) within 1e-3 of the output scale
  * the D4 witness: LayerNorm on a pseudo-scalar block with moved parameters under a reflection.
"""
from __future__ import annotations

import itertools
import time
from fractions import Fraction

import numpy as np

import equiv
import refs
from common import Ctx, DriverReject, jarr, unarr

TOL = equiv.TOL   # equivariance defect of the float blocks, relative to the output scale
FTOL = 1e-4       # implementation vs Float model

POOL_CFG = {
    2: [((4, 4), 2), ((4, 6), 2), ((2, 8), 2), ((8, 4), 4), ((6, 3), 3), ((3, 6), 3), ((4, 2), 1), ((6, 6), 3),
        ((6, 2), 2), ((4, 8), 4)],
    3: [((2, 2, 2), 2), ((2, 4, 2), 2), ((4, 2, 6), 2), ((3, 3, 6), 3), ((4, 4, 4), 4), ((2, 6, 4), 2)],
}


def mat_list(g):
    return [[int(v) for v in row] for row in np.asarray(g)]


def fbits(a):
    a = np.ascontiguousarray(np.asarray(a, dtype=np.float64))
    return {"shape": list(a.shape), "bits": [int(v) for v in a.reshape(-1).view(np.uint64)]}


def unbits(j):
    return np.array(j["bits"], dtype=np.uint64).view(np.float64).reshape(j["shape"])


def bit1(x) -> int:
    return int(np.array([float(x)], dtype=np.float64).view(np.uint64)[0])


def bl(v):
    return [bit1(x) for x in np.asarray(v, dtype=np.float64).reshape(-1)]


def unrat_block(j):
    return np.array([Fraction(n, dn) for n, dn in j["data"]], dtype=object).reshape(j["shape"])


def is_pow2(n: int) -> bool:
    return n >= 1 and (n & (n - 1)) == 0


def group_elements(ctx: Ctx, D: int):
    if D < 3 or ctx.tier == "thorough":
        return equiv.group(D)
    return equiv.group_subset(D, ctx.rng, 12)


def is_identity(g) -> bool:
    g = np.asarray(g)
    return np.array_equal(g, np.eye(g.shape[0], dtype=g.dtype))


# ---------------------------------------------------------------------------------------------
# pooling: inputs


def patch_view(nrm, D, P):
    """(spatial) array -> (num_patches..., P^D) array of the patch members"""
    sp = nrm.shape
    shp = []
    for s in sp:
        shp += [s // P, P]
    t = nrm.reshape(shp)
    t = np.moveaxis(t, [2 * i + 1 for i in range(D)], list(range(D, 2 * D)))
    return t.reshape(t.shape[:D] + (-1,))


def norm_sq(block, D, k):
    b = np.asarray(block).astype(np.int64)
    return (b * b).reshape(b.shape[: 1 + D] + (-1,)).sum(-1)


def has_max_tie(block, D, k, P) -> bool:
    """True when in some patch of some channel the maximal squared norm is attained twice (exact)"""
    if P == 1:
        return False
    ns = norm_sq(block, D, k)
    for img in ns:
        pv = np.sort(patch_view(img, D, P), axis=-1)
        if np.any(pv[..., -1] == pv[..., -2]):
            return True
    return False


def tie_free_block(rng, C, dims, D, k, P, lo=-6, hi=6):
    """integer block whose pixel norms are pairwise distinct inside every patch"""
    shape = (C,) + tuple(dims) + (D,) * k
    for _ in range(200):
        b = rng.integers(lo, hi + 1, size=shape).astype(np.int64)
        if k == 0:
            # distinct magnitudes over the whole image, random signs
            n = int(np.prod(dims))
            b = np.stack([(rng.permutation(n) + int(rng.integers(0, 3))).reshape(dims) * rng.choice([-1, 1], size=dims)
                          for _ in range(C)]).astype(np.int64)
        ns = norm_sq(b, D, k)
        ok = True
        for img in ns:
            pv = np.sort(patch_view(img, D, P), axis=-1)
            if P > 1 and np.any(pv[..., 1:] == pv[..., :-1]):
                ok = False
                break
        if ok:
            return b
        hi += 1
        lo -= 1
    raise RuntimeError("could not build a tie-free block")


def structured_blocks(rng, C, dims, D, k):
    shape = (C,) + tuple(dims) + (D,) * k
    sparse = rng.integers(-5, 6, size=shape).astype(np.int64)
    mask = (rng.random(size=(C,) + tuple(dims)) < 0.3).reshape((C,) + tuple(dims) + (1,) * k)
    const = np.broadcast_to(rng.integers(-3, 4, size=(C,) + (1,) * D + (D,) * k), shape).astype(np.int64)
    return {"sparse": sparse * mask, "constant": np.array(const), "zero": np.zeros(shape, dtype=np.int64)}


# ---------------------------------------------------------------------------------------------
# pooling: the implementation at its observation points


class Impl:
    def __init__(self):
        import jax.numpy as jnp

        import ginjax.geometric as geom
        import ginjax.ml as ml

        self.jnp, self.geom, self.ml = jnp, geom, ml

    def avg(self, block, D, P):
        return np.stack([np.asarray(self.geom.average_pool(D, self.jnp.array(img, dtype=self.jnp.float32), P))
                         for img in block])

    def maxp(self, block, D, P):
        return np.stack([np.asarray(self.geom.max_pool(D, self.jnp.array(img, dtype=self.jnp.float32), P))
                         for img in block])

    def maxp_raw(self, block, D, P):
        """geom.max_pool(..., use_norm=False) per channel"""
        return np.stack([np.asarray(self.geom.max_pool(D, self.jnp.array(img, dtype=self.jnp.float32), P, False))
                         for img in block])

    def maxp_cmp(self, block, comp, D, P):
        """geom.max_pool(..., comparator_image=K) per channel (one comparator image per channel)"""
        return np.stack([np.asarray(self.geom.max_pool(D, self.jnp.array(img, dtype=self.jnp.float32), P,
                                                       comparator_image=self.jnp.array(cmp, dtype=self.jnp.float32)))
                         for img, cmp in zip(block, comp)])

    def obj_maxp_raw(self, block, D, P, parity, flags):
        outs = []
        for img in block:
            gi = self.geom.GeometricImage(self.jnp.array(img, dtype=self.jnp.float32), parity, D, tuple(flags))
            outs.append(np.asarray(gi.max_pool(P, False).data))
        return np.stack(outs)

    def layer_maxp_raw(self, blocks: dict, D, P, flags):
        x = equiv.to_multi_image({key: np.asarray(v, dtype=np.float32) for key, v in blocks.items()}, D, flags)
        out = self.ml.MaxNormPool(P, use_norm=False)(x)
        return {key: np.asarray(v) for key, v in out.items()}

    def unpool(self, block, D, P, parity, flags):
        outs = []
        for img in block:
            gi = self.geom.GeometricImage(self.jnp.array(img, dtype=self.jnp.float32), parity, D, tuple(flags))
            outs.append(np.asarray(gi.unpool(P).data))
        return np.stack(outs)

    def layer_maxp(self, blocks: dict, D, P, flags):
        x = equiv.to_multi_image({key: np.asarray(v, dtype=np.float32) for key, v in blocks.items()}, D, flags)
        out = self.ml.MaxNormPool(P)(x)
        return {key: np.asarray(v) for key, v in out.items()}

    def norm(self, block, D):
        return np.stack([np.asarray(self.geom.norm(D, self.jnp.array(img, dtype=self.jnp.float32))) for img in block])


def to_int(a):
    a = np.asarray(a)
    r = np.rint(a).astype(np.int64)
    return r if np.array_equal(r.astype(a.dtype), a) else None


def frac_equal(impl, model_frac) -> bool:
    impl = np.asarray(impl, dtype=np.float64)
    if impl.shape != model_frac.shape:
        return False
    return all(Fraction(float(a)) == b for a, b in zip(impl.reshape(-1), model_frac.reshape(-1)))


def close(a, b, rel):
    a = np.asarray(a, dtype=np.float64)
    b = np.asarray(b, dtype=np.float64)
    if a.shape != b.shape or not (np.all(np.isfinite(a)) and np.all(np.isfinite(b))):
        return False
    return bool(np.all(np.abs(a - b) <= rel * (1.0 + np.abs(b))))


def pool_case_desc(D, dims, P, k, p, kind, C):
    return {"D": D, "dims": list(dims), "patch_len": P, "k": k, "parity": p, "channels": C, "input": kind}


def corr_pool(ctx: Ctx, im: Impl, D, dims, P, k, p, kind, block, flags, stats):
    """implementation vs Lean model on one integer block (identity only)"""
    desc = pool_case_desc(D, dims, P, k, p, kind, block.shape[0])
    full = dict(desc, block=jarr(block), is_torus=list(flags))
    exact = is_pow2(P ** D)
    tie = has_max_tie(block, D, k, P)
    # average_pool
    m_avg = unrat_block(ctx.driver.call("c08.avg_pool", d=D, P=P, block=jarr(block)))
    i_avg = im.avg(block, D, P)
    ok = frac_equal(i_avg, m_avg) if exact else close(i_avg, m_avg.astype(np.float64), 1e-6)
    if not ok:
        ctx.violation("correspondence", "geom.average_pool differs from Lean averagePool", dict(full, op="average_pool"))
    m_mean = unrat_block(ctx.driver.call("c08.patch_mean", d=D, P=P, block=jarr(block)))
    if not np.array_equal(m_mean, m_avg):
        ctx.violation("correspondence", "Lean averagePool differs from Lean patchMean (spec)", dict(full, op="patch_mean"))
    # unpool
    m_un = unarr(ctx.driver.call("c08.unpool", d=D, P=P, block=jarr(block)))
    m_unc = unarr(ctx.driver.call("c08.unpool_conv", d=D, P=P, block=jarr(block)))
    i_un = to_int(im.unpool(block, D, P, p, flags))
    want = block
    for ax in range(1, 1 + D):
        want = np.repeat(want, P, axis=ax)
    if i_un is None or i_un.shape != want.shape or not np.array_equal(i_un, want):
        # the property's own sentence: every pixel becomes a P^D patch of itself
        ctx.violation("oracle", "GeometricImage.unpool is not nearest-neighbour unpooling", dict(full, op="unpool"))
    elif not (np.array_equal(m_un, i_un) and np.array_equal(m_unc, i_un)):
        ctx.violation("correspondence", "GeometricImage.unpool differs from Lean unpool / unpoolConv", dict(full, op="unpool"))
    # the object-level methods must hand back the type they were given: the result of pooling / unpooling
    # transforms with the SAME (k, parity), D and boundary flags
    gi = im.geom.GeometricImage(im.jnp.array(block[0], dtype=im.jnp.float32), p, D, tuple(flags))
    for opname, res in (("unpool", gi.unpool(P)), ("average_pool", gi.average_pool(P)), ("max_pool", gi.max_pool(P))):
        if (res.parity, res.k, res.D, tuple(res.is_torus)) != (p % 2, k, D, tuple(flags)):
            ctx.violation("oracle", f"GeometricImage.{opname} changes the declared type: (k,parity,D,is_torus) = "
                          f"{(res.k, res.parity, res.D, tuple(res.is_torus))} for an input of type {(k, p, D, tuple(flags))}",
                          dict(full, op=opname))
    # max_pool
    m_max = unarr(ctx.driver.call("c08.max_pool", d=D, P=P, block=jarr(block)))
    i_max = to_int(im.maxp(block, D, P))
    agree = i_max is not None and i_max.shape == m_max.shape and np.array_equal(i_max, m_max)
    if tie:
        stats["corr_tie_cases"] += 1
        stats["corr_tie_agree"] += int(agree)
    elif not agree:
        ctx.violation("correspondence", "geom.max_pool differs from Lean maxPool (no norm tie at a patch maximum)",
                      dict(full, op="max_pool"))
    if not tie:
        lay = im.layer_maxp({(k, p): block}, D, P, flags)[(k, p)]
        li = to_int(lay)
        if li is None or li.shape != m_max.shape or not np.array_equal(li, m_max):
            ctx.violation("correspondence", "ml.MaxNormPool differs from Lean maxPool", dict(full, op="MaxNormPool"))
    # norm
    nsq = unarr(ctx.driver.call("c08.norm_sq", d=D, block=jarr(block)))
    if not np.array_equal(nsq, norm_sq(block, D, k)):
        ctx.violation("correspondence", "harness squared norm differs from Lean normSq", dict(full, op="norm_sq"))
    i_nrm = im.norm(block, D).astype(np.float64)
    if i_nrm.shape != nsq.shape or not close(i_nrm ** 2, nsq.astype(np.float64), 1e-5):
        ctx.violation("correspondence", "geom.norm squared differs from Lean normSq", dict(full, op="norm"))
    return tie


def oracle_pool(ctx: Ctx, im: Impl, D, dims, P, k, p, kind, block, flags, gs, tie, stats):
    """op(g.x) == g.op(x) on the implementation, exact on integers"""
    desc = pool_case_desc(D, dims, P, k, p, kind, block.shape[0])
    exact = is_pow2(P ** D)
    base_avg = im.avg(block, D, P)
    base_un = im.unpool(block, D, P, p, flags)
    base_max = im.maxp(block, D, P)
    nonconst = len(np.unique(block)) > 1
    for g in gs:
        ident = is_identity(g)
        gflags = refs.transport(g, flags)
        gB = refs.act_block(block, D, k, p, g)
        full = dict(desc, g=mat_list(g), det=refs.det(g), is_torus=list(flags), block=jarr(block))
        ctx.case(("pool", desc, mat_list(g), block.tobytes().hex()[:48]), (not ident) and nonconst and P > 1,
                 sample=dict(desc, g=mat_list(g)))
        ctx.hist("pool_D", D); ctx.hist("pool_patch", P); ctx.hist("pool_kp", (k, p)); ctx.hist("pool_input", kind)
        ctx.hist("pool_square", len(set(dims)) == 1); ctx.hist("det", refs.det(g))
        try:
            l_avg = im.avg(gB, D, P)
            l_un = im.unpool(gB, D, P, p, gflags)
            l_max = im.maxp(gB, D, P)
        except Exception as e:  # the transformed call must be accepted when the original one is
            ctx.violation("oracle", "a pooling call raised on the transformed input", dict(full, raised=repr(e)[:300]))
            continue
        r_avg = refs.act_block(base_avg, D, k, p, g)
        r_un = refs.act_block(base_un, D, k, p, g)
        ok = (l_avg.shape == r_avg.shape) and (np.array_equal(l_avg, r_avg) if exact else close(l_avg, r_avg, 1e-5))
        if not ok:
            ctx.violation("oracle", "average_pool(g.x) != g.average_pool(x)", dict(full, op="average_pool"))
        if l_un.shape != r_un.shape or not np.array_equal(l_un, r_un):
            ctx.violation("oracle", "unpool(g.x) != g.unpool(x)", dict(full, op="unpool"))
        if tie:
            stats["maxpool_excluded_ties"] += 1
        else:
            stats["maxpool_checked"] += 1
            r_max = refs.act_block(base_max, D, k, p, g)
            if l_max.shape != r_max.shape or not np.array_equal(l_max, r_max):
                ctx.violation("oracle", "max_pool(g.x) != g.max_pool(x) (unique maximal norm in every patch)",
                              dict(full, op="max_pool"))


def near_tie_pool(ctx: Ctx, im: Impl, D, dims, P, p, gs, stats):
    """max pooling where the maximal norm of every patch is unique but the runner-up is closer than 1e-5:
    scalar / pseudo-scalar pixels of magnitude 1 + j 2^-18 with pairwise distinct j (exact in float32, and
    |x| is computed exactly): the unique maximiser must be selected, before and after g"""
    rng = ctx.rng
    C = 1
    n = int(np.prod(dims))
    ints = np.stack([((1 << 18) + rng.permutation(n).reshape(dims)) * rng.choice([-1, 1], size=dims)
                     for _ in range(C)]).astype(np.int64)
    scale = np.float32(2.0 ** -18)

    def mp(b_int):
        x = b_int.astype(np.float32) * scale  # exact
        y = np.stack([np.asarray(im.geom.max_pool(D, im.jnp.array(img, dtype=im.jnp.float32), P)) for img in x])
        return to_int(y.astype(np.float64) * 2.0 ** 18)

    desc = pool_case_desc(D, dims, P, 0, p, "near_tie", C)
    # exact expectation: the pixel of largest |value| of every patch
    want = np.zeros((C,) + tuple(d // P for d in dims), dtype=np.int64)
    for c in range(C):
        pv = patch_view(ints[c], D, P)
        idx = np.argmax(np.abs(pv), axis=-1)
        want[c] = np.take_along_axis(pv, idx[..., None], axis=-1)[..., 0]
    full = dict(desc, block=jarr(ints), scale="2^-18")
    try:
        base = mp(ints)
    except Exception as e:  # noqa: BLE001
        ctx.violation("oracle", "max_pool raised on a near-tie input", dict(full, raised=repr(e)[:300]))
        return
    ctx.case(("pool-near-tie", desc, ints.tobytes().hex()[:48]), P > 1, sample=desc)
    ctx.hist("pool_input", "near_tie")
    if base is None or base.shape != want.shape or not np.array_equal(base, want):
        ctx.violation("oracle", "max_pool does not select the pixel of (uniquely) maximal norm when the runner-up is "
                                "within 1e-5", dict(full, impl=None if base is None else jarr(base), expected=jarr(want)))
        return
    for g in gs:
        if is_identity(g):
            continue
        gB = refs.act_block(ints, D, 0, p, g)
        got = mp(gB)
        r = refs.act_block(base, D, 0, p, g)
        stats["maxpool_checked"] += 1
        if got is None or got.shape != r.shape or not np.array_equal(got, r):
            ctx.violation("oracle", "max_pool(g.x) != g.max_pool(x) (unique maximal norm, runner-up within 1e-5)",
                          dict(full, g=mat_list(g), op="max_pool"))
            return


def oracle_shift(ctx: Ctx, im: Impl, D, dims, P, k, p, kind, block, flags, tie, stats):
    """pooling / unpooling vs np.roll by multiples of the patch length"""
    desc = pool_case_desc(D, dims, P, k, p, kind, block.shape[0])
    exact = is_pow2(P ** D)
    axes = tuple(range(1, 1 + D))
    out_dims = [n // P for n in dims]
    base_avg, base_max = im.avg(block, D, P), im.maxp(block, D, P)
    base_un = im.unpool(block, D, P, p, flags)
    for _ in range(2):
        t = [int(ctx.rng.integers(0, max(1, n))) for n in out_dims]
        tin = [int(ctx.rng.integers(0, n)) for n in dims]
        full = dict(desc, shift=t, block=jarr(block))
        ctx.case(("shift", desc, t, tin, block.tobytes().hex()[:48]), any(t) and len(np.unique(block)) > 1,
                 sample=dict(desc, shift_in_patches=t))
        ctx.hist("shift_nonzero", any(t))
        rolled = np.roll(block, [ti * P for ti in t], axis=axes)
        l_avg = im.avg(rolled, D, P)
        r_avg = np.roll(base_avg, t, axis=axes)
        if not (np.array_equal(l_avg, r_avg) if exact else close(l_avg, r_avg, 1e-5)):
            ctx.violation("oracle", "average_pool does not commute with a shift by a multiple of the patch length",
                          dict(full, op="average_pool"))
        l_max = im.maxp(rolled, D, P)
        r_max = np.roll(base_max, t, axis=axes)
        if not np.array_equal(l_max, r_max):
            if tie:
                stats["shift_tie_disagree"] += 1
            else:
                ctx.violation("oracle", "max_pool does not commute with a shift by a multiple of the patch length",
                              dict(full, op="max_pool"))
        l_un = im.unpool(np.roll(block, tin, axis=axes), D, P, p, flags)
        r_un = np.roll(base_un, [ti * P for ti in tin], axis=axes)
        if not np.array_equal(l_un, r_un):
            ctx.violation("oracle", "unpool does not commute with shifts", dict(full, op="unpool", shift=tin))


def run_pool(ctx: Ctx, stats):
    im = Impl()
    rng = ctx.rng
    for D in (2, 3):
        gs = group_elements(ctx, D)
        cfgs = list(POOL_CFG[D])
        if ctx.tier == "quick":
            keep = 8 if D == 2 else 4
            idx = sorted(rng.choice(len(cfgs), size=keep, replace=False).tolist())
            cfgs = [cfgs[i] for i in idx]
        for ci, (dims, P) in enumerate(cfgs):
            kmax = 2 if (D == 2 or int(np.prod(dims)) <= 16) else 1
            kps = [(k, p) for k in range(kmax + 1) for p in (0, 1)]
            if ctx.tier == "quick":
                pick = rng.choice(len(kps), size=min(3 if D == 2 else 2, len(kps)), replace=False)
                kps = [kps[i] for i in pick]
            for (k, p) in kps:
                flags = tuple(bool(b) for b in rng.integers(0, 2, size=D))
                C = int(rng.integers(1, 3))
                inputs = {"tie_free": tie_free_block(rng, C, dims, D, k, P)}
                inputs["small_range"] = rng.integers(-2, 3, size=(C,) + tuple(dims) + (D,) * k).astype(np.int64)
                st = structured_blocks(rng, C, dims, D, k)
                if ctx.tier == "quick":
                    name = ["sparse", "constant", "zero"][(ci + k + p) % 3]
                    inputs[name] = st[name]
                else:
                    inputs.update(st)
                for kind, block in inputs.items():
                    tie = corr_pool(ctx, im, D, dims, P, k, p, kind, block, flags, stats)
                    g_here = gs if kind in ("tie_free", "sparse") or ctx.tier == "thorough" else gs[: max(3, len(gs) // 3)]
                    oracle_pool(ctx, im, D, dims, P, k, p, kind, block, flags, g_here, tie, stats)
                    if kind in ("tie_free", "small_range"):
                        oracle_shift(ctx, im, D, dims, P, k, p, kind, block, flags, tie, stats)
    # near ties: the maximiser is unique but the runner-up is within 1e-5
    for D, dims, P, p in ((2, (4, 4), 2, 0), (2, (4, 6), 2, 1), (2, (6, 3), 3, 0), (3, (2, 4, 2), 2, 1)):
        near_tie_pool(ctx, im, D, dims, P, p, group_elements(ctx, D)[:6], stats)
    # malformed: a patch length that does not divide the extents is rejected by both
    for D, dims, P in ((2, (4, 5), 2), (3, (2, 3, 2), 2), (2, (3, 3), 2)):
        block = rng.integers(-3, 4, size=(1,) + dims).astype(np.int64)
        try:
            ctx.driver.call("c08.avg_pool", d=D, P=P, block=jarr(block))
            model_rej = False
        except DriverReject:
            model_rej = True
        try:
            im.avg(block, D, P)
            impl_rej = False
        except Exception:
            impl_rej = True
        ctx.case(("malformed", D, list(dims), P), False)
        ctx.hist("malformed", "non-dividing patch length")
        if model_rej != impl_rej:
            ctx.violation("correspondence", "average_pool with a non-dividing patch length: code and model disagree on rejection",
                          {"D": D, "dims": list(dims), "patch_len": P, "impl_rejects": impl_rej, "model_rejects": model_rej})


# ---------------------------------------------------------------------------------------------
# pooling: the comparator_image path and the plain maximum of scalars (use_norm=False)


def distinct_scalar_block(rng, C, dims):
    """signed integer scalar images with pairwise distinct values (a unique maximiser in every patch)"""
    n = int(np.prod(dims))
    return np.stack([(rng.permutation(n) - int(rng.integers(0, n + 1))).reshape(dims) for _ in range(C)]).astype(np.int64)


def select_by(block, comp, D, k, P):
    """the property's own reading of the comparator path: per patch the pixel at which the comparator is
    (uniquely) maximal"""
    C = block.shape[0]
    out_dims = tuple(n // P for n in block.shape[1:1 + D])
    out = np.zeros((C,) + out_dims + (D,) * k, dtype=block.dtype)
    for c in range(C):
        idx = np.argmax(patch_view(comp[c], D, P), axis=-1)
        for y in itertools.product(*[range(n) for n in out_dims]):
            a = np.unravel_index(int(idx[y]), (P,) * D)
            out[(c,) + y] = block[(c,) + tuple(yi * P + ai for yi, ai in zip(y, a))]
    return out


def cmp_pool_case(ctx: Ctx, im: Impl, D, dims, P, k, p, block, comp, flags, gs, stats, kind="distinct",
                  scale=None):
    """max_pool with comparator image `comp` (integers; `scale` = the float32-exact factor the comparator is
    multiplied with, for the near-tie inputs)"""
    C = block.shape[0]
    desc = dict(pool_case_desc(D, dims, P, k, p, kind, C), path="comparator_image")
    full = dict(desc, block=jarr(block), comparator=jarr(comp), comparator_scale=scale, is_torus=list(flags))
    axes = tuple(range(1, 1 + D))

    def run_impl(b, c):
        cf = c.astype(np.float32) * np.float32(scale) if scale else c
        return to_int(im.maxp_cmp(b, cf, D, P))

    try:
        base = run_impl(block, comp)
    except Exception as e:  # noqa: BLE001
        ctx.violation("oracle", "max_pool(comparator_image=...) raised on a well-formed input", dict(full, raised=repr(e)[:300]))
        return
    m = unarr(ctx.driver.call("c08.max_pool_comparator", d=D, P=P, block=jarr(block), comparator=jarr(comp)))
    want = select_by(block, comp, D, k, P)
    if not np.array_equal(m, want):
        ctx.violation("correspondence", "Lean maxPoolCmp differs from the per-patch selection at the unique comparator "
                                        "maximum (harness reference)", dict(full, op="max_pool_comparator"))
    agree = base is not None and base.shape == m.shape and np.array_equal(base, m)
    bad_g = None
    for g in gs:
        ident = is_identity(g)
        ctx.case(("pool-cmp", desc, mat_list(g), block.tobytes().hex()[:40], comp.tobytes().hex()[:40]),
                 (not ident) and P > 1, sample=dict(desc, g=mat_list(g)))
        ctx.hist("cmp_pool_D", D); ctx.hist("cmp_pool_patch", P); ctx.hist("cmp_pool_kp", (k, p))
        ctx.hist("cmp_pool_input", kind); ctx.hist("cmp_pool_square", len(set(dims)) == 1); ctx.hist("det", refs.det(g))
        gB = refs.act_block(block, D, k, p, g)
        gK = refs.act_block(comp, D, 0, 0, g)
        try:
            lhs = run_impl(gB, gK)
        except Exception as e:  # noqa: BLE001
            ctx.violation("oracle", "max_pool(comparator_image=...) raised on the transformed input",
                          dict(full, g=mat_list(g), raised=repr(e)[:300]))
            continue
        stats["cmp_pool_checked"] += 1
        rhs = None if base is None else refs.act_block(base, D, k, p, g)
        if lhs is None or rhs is None or lhs.shape != rhs.shape or not np.array_equal(lhs, rhs):
            bad_g = g
            ctx.violation("oracle", "max_pool(g.x, comparator=g.K) != g.max_pool(x, comparator=K) (K a true scalar with a "
                                    "unique maximiser in every patch)", dict(full, g=mat_list(g), det=refs.det(g),
                                                                             op="max_pool_comparator"))
            break
    if not agree and bad_g is None:
        ctx.violation("correspondence", "geom.max_pool(comparator_image=K) differs from Lean maxPoolCmp (unique comparator "
                                        "maximiser in every patch)", dict(full, op="max_pool_comparator",
                                                                          impl=None if base is None else jarr(base)))
    # shifts by multiples of the patch length (image and comparator rolled together)
    out_dims = [n // P for n in dims]
    t = [int(ctx.rng.integers(0, max(1, n))) for n in out_dims]
    ctx.case(("shift-cmp", desc, t, block.tobytes().hex()[:40]), any(t) and P > 1, sample=dict(desc, shift_in_patches=t))
    sh = [ti * P for ti in t]
    l = run_impl(np.roll(block, sh, axis=axes), np.roll(comp, sh, axis=axes))
    r = None if base is None else np.roll(base, t, axis=axes)
    if l is None or r is None or not np.array_equal(l, r):
        ctx.violation("oracle", "max_pool(comparator_image=...) does not commute with a shift by a multiple of the patch "
                                "length", dict(full, shift=t, op="max_pool_comparator"))


def scalar_pool_case(ctx: Ctx, im: Impl, D, dims, P, block, flags, gs, stats, kind="distinct", scale=None):
    """the plain maximum (use_norm=False) of a true scalar block (0,0) with a unique maximum in every patch"""
    C = block.shape[0]
    desc = dict(pool_case_desc(D, dims, P, 0, 0, kind, C), path="use_norm=False")
    full = dict(desc, block=jarr(block), block_scale=scale, is_torus=list(flags))
    axes = tuple(range(1, 1 + D))
    inv = (1.0 / scale) if scale else 1.0

    def run_impl(b):
        x = b.astype(np.float32) * np.float32(scale) if scale else b
        return to_int(im.maxp_raw(x, D, P).astype(np.float64) * inv)

    try:
        base = run_impl(block)
    except Exception as e:  # noqa: BLE001
        ctx.violation("oracle", "max_pool(use_norm=False) raised on a scalar image", dict(full, raised=repr(e)[:300]))
        return
    m = unarr(ctx.driver.call("c08.max_pool_scalar", d=D, P=P, block=jarr(block)))
    m_raw = unarr(ctx.driver.call("c08.max_pool_raw", d=D, P=P, block=jarr(block)))
    want = np.stack([patch_view(img, D, P).max(axis=-1) for img in block])
    if not (np.array_equal(m, want) and np.array_equal(m_raw, want)):
        ctx.violation("correspondence", "Lean maxPoolScalar / maxPoolRaw differ from the per-patch maximum",
                      dict(full, op="max_pool_scalar"))
    agree = base is not None and base.shape == m.shape and np.array_equal(base, m)
    bad = False
    for g in gs:
        ident = is_identity(g)
        ctx.case(("pool-scalar", desc, mat_list(g), block.tobytes().hex()[:48]), (not ident) and P > 1,
                 sample=dict(desc, g=mat_list(g)))
        ctx.hist("scalar_pool_D", D); ctx.hist("scalar_pool_patch", P); ctx.hist("scalar_pool_input", kind)
        ctx.hist("det", refs.det(g))
        gB = refs.act_block(block, D, 0, 0, g)
        try:
            lhs = run_impl(gB)
        except Exception as e:  # noqa: BLE001
            ctx.violation("oracle", "max_pool(use_norm=False) raised on the transformed scalar image",
                          dict(full, g=mat_list(g), raised=repr(e)[:300]))
            continue
        stats["scalar_pool_checked"] += 1
        rhs = None if base is None else refs.act_block(base, D, 0, 0, g)
        if lhs is None or rhs is None or lhs.shape != rhs.shape or not np.array_equal(lhs, rhs):
            bad = True
            ctx.violation("oracle", "max_pool(g.x, use_norm=False) != g.max_pool(x, use_norm=False) on a true scalar block "
                                    "with a unique maximum in every patch", dict(full, g=mat_list(g), op="max_pool_scalar"))
            break
    if not agree and not bad:
        ctx.violation("correspondence", "geom.max_pool(use_norm=False) differs from Lean maxPoolScalar (unique maximum in "
                                        "every patch)", dict(full, op="max_pool_scalar",
                                                             impl=None if base is None else jarr(base)))
    if scale is None:
        # the object-level entry points of the same path
        oi = to_int(im.obj_maxp_raw(block, D, P, 0, flags))
        li = to_int(im.layer_maxp_raw({(0, 0): block}, D, P, flags)[(0, 0)])
        if oi is None or not np.array_equal(oi, m):
            ctx.violation("correspondence", "GeometricImage.max_pool(P, use_norm=False) differs from Lean maxPoolScalar",
                          dict(full, op="GeometricImage.max_pool"))
        if li is None or not np.array_equal(li, m):
            ctx.violation("correspondence", "ml.MaxNormPool(P, use_norm=False) differs from Lean maxPoolScalar on a (0,0) "
                                            "block", dict(full, op="MaxNormPool"))
    out_dims = [n // P for n in dims]
    t = [int(ctx.rng.integers(0, max(1, n))) for n in out_dims]
    ctx.case(("shift-scalar", desc, t, block.tobytes().hex()[:40]), any(t) and P > 1, sample=dict(desc, shift_in_patches=t))
    l = run_impl(np.roll(block, [ti * P for ti in t], axis=axes))
    r = None if base is None else np.roll(base, t, axis=axes)
    if l is None or r is None or not np.array_equal(l, r):
        ctx.violation("oracle", "max_pool(use_norm=False) does not commute with a shift by a multiple of the patch length",
                      dict(full, shift=t, op="max_pool_scalar"))


def run_pool_extra(ctx: Ctx, stats):
    im = Impl()
    rng = ctx.rng
    for D in (2, 3):
        gs_all = equiv.group(D) if (D == 2 or ctx.tier == "thorough") else group_elements(ctx, D)
        cfgs = [c for c in POOL_CFG[D] if c[1] > 1]
        if ctx.tier == "quick":
            keep = 3 if D == 2 else 2
            idx = sorted(rng.choice(len(cfgs), size=keep, replace=False).tolist())
            cfgs = [cfgs[i] for i in idx]
            # always one non-square extent with several patches along two axes
            must = ((4, 6), 2) if D == 2 else ((4, 2, 6), 2)
            if must not in cfgs:
                cfgs[-1] = must
        for ci, (dims, P) in enumerate(cfgs):
            kmax = 2 if (D == 2 or int(np.prod(dims)) <= 16) else 1
            kps = [(k, p) for k in range(kmax + 1) for p in (0, 1)]
            if ctx.tier == "quick":
                pick = rng.choice(len(kps), size=2, replace=False)
                kps = [kps[i] for i in pick]
            flags = tuple(bool(b) for b in rng.integers(0, 2, size=D))
            for (k, p) in kps:
                C = int(rng.integers(1, 3))
                block = rng.integers(-6, 7, size=(C,) + tuple(dims) + (D,) * k).astype(np.int64)
                comp = distinct_scalar_block(rng, C, dims)
                cmp_pool_case(ctx, im, D, dims, P, k, p, block, comp, flags, gs_all, stats)
            # comparator = the squared norm: the norm path as a special case (exact on integers)
            k, p = kps[0]
            block = tie_free_block(rng, 1, dims, D, k, P)
            m_norm = unarr(ctx.driver.call("c08.max_pool", d=D, P=P, block=jarr(block)))
            m_cmp = unarr(ctx.driver.call("c08.max_pool_comparator", d=D, P=P, block=jarr(block),
                                          comparator=jarr(norm_sq(block, D, k))))
            i_cmp = to_int(im.maxp_cmp(block, norm_sq(block, D, k), D, P))
            ctx.case(("pool-cmp-norm", D, list(dims), P, k, block.tobytes().hex()[:40]), False)
            if not np.array_equal(m_norm, m_cmp) or i_cmp is None or not np.array_equal(i_cmp, m_norm):
                ctx.violation("correspondence", "max_pool with the squared norm as comparator_image differs from the norm "
                                                "path (Lean maxPool_eq_comparator_norm)",
                              {"D": D, "dims": list(dims), "patch_len": P, "k": k, "block": jarr(block)})
            scalar_pool_case(ctx, im, D, dims, P, distinct_scalar_block(rng, int(rng.integers(1, 3)), dims), flags,
                             gs_all, stats)
    # near ties: comparator / scalar values (2^18 + j) 2^-18 with distinct j, signed (exact in float32)
    near = ((2, (4, 4), 2), (2, (6, 3), 3), (3, (2, 4, 2), 2)) if ctx.tier == "quick" else \
        ((2, (4, 4), 2), (2, (4, 6), 2), (2, (6, 3), 3), (3, (2, 4, 2), 2), (3, (4, 2, 6), 2))
    for D, dims, P in near:
        gs = group_elements(ctx, D)[:6]
        n = int(np.prod(dims))
        flags = (True,) * D
        comp = np.stack([((1 << 18) + rng.permutation(n).reshape(dims)) * rng.choice([-1, 1], size=dims)]).astype(np.int64)
        k, p = [(1, 0), (0, 1), (1, 1), (2, 0)][int(rng.integers(0, 4))]
        block = rng.integers(-6, 7, size=(1,) + tuple(dims) + (D,) * k).astype(np.int64)
        cmp_pool_case(ctx, im, D, dims, P, k, p, block, comp, flags, gs, stats, kind="near_tie", scale=2.0 ** -18)
        sc = np.stack([((1 << 18) + rng.permutation(n).reshape(dims)) * rng.choice([-1, 1], size=dims)]).astype(np.int64)
        scalar_pool_case(ctx, im, D, dims, P, sc, flags, gs, stats, kind="near_tie", scale=2.0 ** -18)
    # malformed: both sides reject a comparator of the wrong shape and use_norm=False on a k > 0 image
    for D, dims, P in ((2, (4, 4), 2), (3, (2, 2, 2), 2)):
        block = rng.integers(-3, 4, size=(1,) + dims).astype(np.int64)
        wrong = rng.integers(-3, 4, size=(1,) + dims[:-1] + (dims[-1] + P,)).astype(np.int64)
        vec = rng.integers(-3, 4, size=(1,) + dims + (D,)).astype(np.int64)
        for what, model_call, impl_call in (
            ("comparator_image of the wrong shape",
             lambda: ctx.driver.call("c08.max_pool_comparator", d=D, P=P, block=jarr(block), comparator=jarr(wrong)),
             lambda: im.maxp_cmp(block, wrong, D, P)),
            ("use_norm=False on a vector image",
             lambda: ctx.driver.call("c08.max_pool_scalar", d=D, P=P, block=jarr(vec)),
             lambda: im.maxp_raw(vec, D, P)),
        ):
            try:
                model_call()
                model_rej = False
            except DriverReject:
                model_rej = True
            try:
                impl_call()
                impl_rej = False
            except Exception:  # noqa: BLE001
                impl_rej = True
            ctx.case(("malformed-maxpool", D, what), False)
            ctx.hist("malformed", what)
            if model_rej != impl_rej:
                ctx.violation("correspondence", f"max_pool, {what}: code and model disagree on rejection",
                              {"D": D, "dims": list(dims), "patch_len": P, "impl_rejects": impl_rej,
                               "model_rejects": model_rej})
    # scope note (never a violation): the plain maximum of a PSEUDO-scalar image is reachable through
    # GeometricImage.max_pool(P, use_norm=False) / ml.MaxNormPool(P, use_norm=False) and is not equivariant under
    # reflections (Lean: maxPoolScalar_pseudoscalar_counterexample); the property speaks of norm-based pooling
    A = np.array([[[1, 2], [3, 4]]], dtype=np.int64)
    g = np.array([[-1, 0], [0, 1]], dtype=np.int64)
    try:
        lhs = to_int(im.obj_maxp_raw(refs.act_block(A, 2, 0, 1, g), 2, 2, 1, (True, True)))
        rhs = refs.act_block(to_int(im.obj_maxp_raw(A, 2, 2, 1, (True, True))), 2, 0, 1, g)
        m_l = unarr(ctx.driver.call("c08.max_pool_scalar", d=2, P=2, block=jarr(refs.act_block(A, 2, 0, 1, g))))
        stats["raw_pseudo_lhs"], stats["raw_pseudo_rhs"] = int(lhs.reshape(-1)[0]), int(rhs.reshape(-1)[0])
        stats["raw_pseudo_model_lhs"] = int(m_l.reshape(-1)[0])
        stats["raw_pseudo_accepted"] = 1
    except Exception:  # noqa: BLE001
        stats["raw_pseudo_accepted"] = 0


# ---------------------------------------------------------------------------------------------
# normalisation / nonlinearity blocks

ACTS = ("relu", "tanh", "leaky_relu")


def activation(name):
    import jax
    import jax.numpy as jnp

    return {"relu": jax.nn.relu, "tanh": jnp.tanh, "leaky_relu": jax.nn.leaky_relu}[name]


def divisors(n):
    return [g for g in range(1, n + 1) if n % g == 0]


def make_inputs(rng, sig, D, spatial, kind):
    if kind in ("normal", "sparse"):
        return equiv.random_blocks(rng, sig, D, spatial, kind=kind)
    out = {}
    for (k, p), c in sig:
        shape = (c,) + tuple(spatial) + (D,) * k
        if kind == "zero":
            out[(k, p)] = np.zeros(shape, dtype=np.float32)
        elif kind == "tiny":  # magnitudes comparable to the stabilising epsilon
            out[(k, p)] = (rng.normal(size=shape) * 2e-5).astype(np.float32)
        else:  # constant over the pixels, generic over channels and tensor components
            v = rng.normal(size=(c,) + (1,) * D + (D,) * k).astype(np.float32)
            out[(k, p)] = np.array(np.broadcast_to(v, shape), dtype=np.float32)
    return out


def model_group_norm(ctx: Ctx, layer, blocks, D, G):
    """Float model of GroupNorm on every block; None when the parameter layout is not recognised"""
    out = {}
    eps = bit1(layer.eps)
    for (k, p), b in blocks.items():
        if (k, p) == (0, 0):
            vn = layer.vanilla_norm[(0, 0)]
            r = ctx.driver.call("c08.group_norm", d=D, G=G, kind="scalar", eps=eps, weight=bl(vn.weight),
                                bias=bl(vn.bias), block=fbits(b))
        elif k == 0:
            r = ctx.driver.call("c08.group_norm", d=D, G=G, kind="pseudo", eps=eps, scale=bl(layer.scale[(k, p)]),
                                block=fbits(b))
        else:
            r = ctx.driver.call("c08.group_norm", d=D, G=G, kind="vector", eps=eps, scale=bl(layer.scale[(k, p)]),
                                bias=bl(layer.bias[(k, p)]), block=fbits(b))
        out[(k, p)] = unbits(r)
    return out


def model_vn(ctx: Ctx, layer, blocks, D, actname):
    out = {}
    eps = bit1(layer.eps)
    for (k, p), b in blocks.items():
        c = b.shape[0]
        if (k, p) == (0, 0):
            r = ctx.driver.call("c08.vn", d=D, eps=eps, act=actname, W=[[0] * c] * c, scalar=True, block=fbits(b))
        else:
            W = np.asarray(layer.weights[(k, p)])
            r = ctx.driver.call("c08.vn", d=D, eps=eps, act=actname, W=[bl(row) for row in W], block=fbits(b))
        out[(k, p)] = unbits(r)
    return out


def check_block(ctx: Ctx, name, layer, cfg, blocks, D, flags, gs, stats, model_fn=None):
    """oracle over gs, then (generic inputs) correspondence with the Float model"""
    kind = cfg["input"]
    desc = dict(cfg, block=name, D=D, is_torus=list(flags))
    full = dict(desc, inputs={str(key): fbits(v) for key, v in blocks.items()},
                params=[(pth, np.asarray(v).tolist()) for pth, v in equiv.param_leaves(layer)])
    generic = kind in ("normal", "sparse")
    worst = 0.0
    eta = None
    for g in gs:
        ident = is_identity(g)
        ctx.case(("blk", name, cfg, mat_list(g)), (not ident) and generic, sample=dict(desc, g=mat_list(g)))
        ctx.hist("block", name); ctx.hist("block_D", D); ctx.hist("block_input", kind); ctx.hist("det", refs.det(g))
        try:
            rep = equiv.equivariance_report(layer, blocks, D, flags, g)
        except Exception as e:
            ctx.violation("oracle", f"{name} raised on a valid (transformed) input", dict(full, g=mat_list(g), raised=repr(e)[:300]))
            return
        d = rep["defect"]
        worst = max(worst, d if np.isfinite(d) else 1e9)
        if rep["problem"] is not None or d > TOL:
            if rep["problem"] is None:
                if eta is None:
                    eta = equiv.noise_floor(layer, blocks, D, flags, ctx.rng)
                tol = equiv.tolerance(eta)
                if tol is None:
                    stats["ill_conditioned_skipped"] += 1
                    continue
                if d <= tol:
                    stats["accepted_by_noise_floor"] += 1
                    continue
            ctx.violation("oracle", f"{name}(g.x) != g.{name}(x): defect {d:.3g} of the output scale"
                          + (f" ({rep['problem']})" if rep["problem"] else ""),
                          dict(full, g=mat_list(g), det=rep["det"], per_key=rep["per_key"], defect=d),
                          key=cfg.get("known_key"))
            break
    stats["worst_defect"] = max(stats["worst_defect"], worst if worst < 1e9 else 0.0)
    if model_fn is not None and kind == "normal":
        try:
            model = model_fn()
        except (AttributeError, KeyError, TypeError) as e:
            stats["float_model_skipped_layout"] += 1
            ctx.notes.setdefault("layout_problems", []).append(f"{name}: {e!r}"[:200])
            return
        impl = equiv.apply_model(layer, blocks, D, flags)
        stats["float_corr_blocks"] += len(impl)
        for key, mv in model.items():
            iv = impl.get(key)
            if iv is None or not close(iv, mv, FTOL):
                if eta is None:
                    eta = equiv.noise_floor(layer, blocks, D, flags, ctx.rng)
                if eta > 2e-5:
                    stats["ill_conditioned_skipped"] += 1
                    continue
                err = None if iv is None or iv.shape != mv.shape else float(np.max(np.abs(iv - mv) / (1 + np.abs(mv))))
                ctx.violation("correspondence", f"{name} on block {key} differs from the Float model (max rel err {err})",
                              dict(full, key=str(key)))


def run_blocks(ctx: Ctx, stats):
    import jax.random as random

    import ginjax.ml as ml

    rng = ctx.rng
    thorough = ctx.tier == "thorough"
    spat = {2: [(4, 6), (3, 5), (4, 4), (5, 2), (6, 4)], 3: [(2, 3, 4), (2, 2, 3), (3, 2, 2), (4, 2, 2)]}
    n_norm = {2: 14, 3: 7} if not thorough else {2: 120, 3: 60}
    n_vn = {2: 9, 3: 5} if not thorough else {2: 90, 3: 50}
    n_mp = {2: 3, 3: 2} if not thorough else {2: 30, 3: 20}
    kinds_cycle = ["normal", "normal", "sparse", "normal", "constant", "normal", "zero", "normal", "sparse"]
    for D in (2, 3):
        gs = group_elements(ctx, D)
        # ---- GroupNorm / LayerNorm
        for it in range(n_norm[D]):
            spatial = spat[D][int(rng.integers(len(spat[D])))]
            c = int(rng.choice([2, 4, 4, 6]))
            types = [(0, 0), (0, 1), (1, 0), (1, 1)]
            order = rng.permutation(len(types))
            ntypes = int(rng.integers(2, 5)) if it % 3 else 4
            keys = [types[i] for i in order[:ntypes]]
            if it == 0:
                keys = [(0, 1), (1, 1), (0, 0), (1, 0)]
            sig = equiv.signature([(kp, c) for kp in keys])
            layer_norm = it % 4 == 3
            G = 1 if layer_norm else int(rng.choice(divisors(c)))
            kind = kinds_cycle[it % len(kinds_cycle)]
            flags = tuple(bool(b) for b in rng.integers(0, 2, size=D))
            base = ml.LayerNorm(sig, D) if layer_norm else ml.GroupNorm(sig, D, G)
            layer = equiv.perturb(base, rng, 0.5)
            blocks = make_inputs(rng, sig, D, spatial, kind)
            cfg = {"signature": equiv.sig_str(sig), "spatial": list(spatial), "groups": G, "input": kind,
                   "eps": float(layer.eps), "it": it}
            ctx.hist("groups", G); ctx.hist("channels", c)
            check_block(ctx, "LayerNorm" if layer_norm else "GroupNorm", layer, cfg, blocks, D, flags, gs, stats,
                        model_fn=lambda: model_group_norm(ctx, layer, blocks, D, G))
        # ---- VectorNeuronNonlinear
        for it in range(n_vn[D]):
            spatial = spat[D][int(rng.integers(len(spat[D])))]
            types = [(0, 0), (0, 1), (1, 0), (1, 1), (2, 0), (2, 1)]
            if D == 3 and not thorough:
                types = types[:5]
            order = rng.permutation(len(types))
            ntypes = int(rng.integers(2, len(types) + 1))
            keys = [types[i] for i in order[:ntypes]]
            if it == 0:
                keys = [(2, 0), (0, 1), (1, 1), (0, 0), (1, 0)] + ([(2, 1)] if D == 2 else [])
            sig = equiv.signature([(kp, int(rng.integers(1, 4))) for kp in keys])
            actname = ACTS[it % len(ACTS)]
            kind = kinds_cycle[(it + 1) % len(kinds_cycle)]
            if it == 1:
                kind = "tiny"
            flags = tuple(bool(b) for b in rng.integers(0, 2, size=D))
            base = ml.VectorNeuronNonlinear(sig, D, activation(actname), key=random.PRNGKey(int(rng.integers(1 << 30))))
            layer = equiv.perturb(base, rng, 0.5)
            blocks = make_inputs(rng, sig, D, spatial, kind)
            cfg = {"signature": equiv.sig_str(sig), "spatial": list(spatial), "activation": actname, "input": kind,
                   "eps": float(layer.eps), "it": it}
            ctx.hist("activation", actname)
            check_block(ctx, "VectorNeuronNonlinear", layer, cfg, blocks, D, flags, gs, stats,
                        model_fn=lambda: model_vn(ctx, layer, blocks, D, actname))
        # ---- MaxNormPool on generic float inputs (no near ties)
        for it in range(n_mp[D]):
            P = 2
            spatial = [(4, 6), (2, 4), (6, 2)][it % 3] if D == 2 else [(4, 4, 2), (2, 4, 4)][it % 2]
            keys = [(0, 0), (0, 1), (1, 0), (1, 1)] + ([(2, 0)] if D == 2 else [])
            sig = equiv.signature([(kp, int(rng.integers(1, 3))) for kp in keys])
            flags = tuple(bool(b) for b in rng.integers(0, 2, size=D))
            blocks = make_inputs(rng, sig, D, spatial, "normal")
            if equiv.has_pool_ties(blocks, D, P):
                stats["maxpool_excluded_ties"] += 1
                continue
            cfg = {"signature": equiv.sig_str(sig), "spatial": list(spatial), "patch_len": P, "input": "normal", "it": it}
            check_block(ctx, "MaxNormPool", ml.MaxNormPool(P), cfg, blocks, D, flags, gs, stats)


def run_d4_witness(ctx: Ctx, stats):
    """LayerNorm on a pseudo-scalar block with moved parameters under a reflection (defect D4:
    flagged on a tree without commit 3c11951, passes on the repaired one)"""
    import ginjax.ml as ml

    D = 2
    sig = equiv.signature([((0, 1), 2)])
    wrng = np.random.Generator(np.random.PCG64(4))
    layer = equiv.perturb(ml.LayerNorm(sig, D), wrng, 0.5)
    blocks = {(0, 1): (np.arange(2 * 3 * 4, dtype=np.float32).reshape(2, 3, 4) % 5) - 1.5}
    g = np.array([[-1, 0], [0, 1]], dtype=np.int64)
    cfg = {"signature": equiv.sig_str(sig), "spatial": [3, 4], "groups": 1, "input": "normal", "eps": float(layer.eps),
           "witness": "D4"}
    check_block(ctx, "LayerNorm", layer, cfg, blocks, D, (True, False), [g], stats)
    ctx.hist("witness", "D4")
    # rejected configuration: groups not dividing the channels (constructor assertion / model rejection)
    try:
        ml.GroupNorm(equiv.signature([((0, 0), 3)]), D, 2)
        impl_rej = False
    except Exception:
        impl_rej = True
    try:
        ctx.driver.call("c08.group_norm", d=D, G=2, kind="scalar", eps=bit1(1e-5), weight=bl([1, 1, 1]), bias=bl([0, 0, 0]),
                        block=fbits(np.zeros((3, 2, 2))))
        model_rej = False
    except DriverReject:
        model_rej = True
    ctx.case(("malformed", "groups"), False)
    ctx.hist("malformed", "groups not dividing channels")
    if impl_rej != model_rej:
        ctx.violation("correspondence", "GroupNorm with groups not dividing the channels: code and model disagree on rejection",
                      {"impl_rejects": impl_rej, "model_rejects": model_rej})


def run_stats(ctx: Ctx, stats):
    """the model's exact statistics (mean / variance / covariance / channel mean over Rat) against numpy"""
    rng = ctx.rng
    for D, dims, k, C, G in ((2, (3, 4), 0, 4, 2), (2, (2, 3), 1, 4, 1), (3, (2, 2, 3), 1, 2, 2), (2, (4, 2), 0, 6, 3)):
        block = rng.integers(-4, 5, size=(C,) + dims + (D,) * k).astype(np.int64)
        r = ctx.driver.call("c08.stats", d=D, G=G, block=jarr(block))
        cpg = C // G
        ok = True
        for grp in range(G):
            sub = block[grp * cpg:(grp + 1) * cpg].reshape((-1,) + (D,) * k)
            n = sub.shape[0]
            if k == 0:
                mean = Fraction(int(sub.sum()), n)
                var = sum((Fraction(int(v)) - mean) ** 2 for v in sub) / n
                ok &= [Fraction(*q) for q in r["mean"][grp]] == [mean] and [Fraction(*q) for q in r["second"][grp]] == [var]
            else:
                mean = [Fraction(int(sub[:, i].sum()), n) for i in range(D)]
                cov = [sum((Fraction(int(v[a])) - mean[a]) * (Fraction(int(v[b])) - mean[b]) for v in sub) / n
                       for a in range(D) for b in range(D)]
                ok &= [Fraction(*q) for q in r["mean"][grp]] == mean and [Fraction(*q) for q in r["second"][grp]] == cov
        ctx.case(("stats", D, list(dims), k, C, G), False)
        if not ok:
            ctx.violation("correspondence", "Lean grpMean / grpVar / grpCov differ from the defining formulas",
                          {"D": D, "dims": list(dims), "k": k, "G": G, "block": jarr(block), "model": r})


def run(ctx: Ctx):
    import collections

    stats = collections.Counter()
    stats["worst_defect"] = 0.0
    ctx.rule = (
        "pooling cases: (integer block, patch length, type (k,p), g) with g != identity, non-constant block, patch "
        "length > 1; shift cases: non-zero shift of a non-constant block; block cases: (real layer with every "
        "learnable leaf perturbed by N(0,0.5), input, g) with g != identity and a generic or sparse input "
        "(constant / zero inputs and the malformed stream count as trivial); comparator / plain-maximum pooling cases: "
        "g != identity (resp. a non-zero shift) and patch length > 1; distinct by canonical JSON of the case"
    )
    ctx.assumptions = [
        "eigh is represented in the model by a conjugation-equivariant matrix function S (hypothesis hS, satisfied by "
        "every polynomial); near-degenerate covariance and float32 rounding are runtime behaviour outside the model: "
        "inputs whose measured float32 noise amplification makes a 1e-3 verdict impossible are skipped and counted",
        "max pooling is claimed (and checked) only when the maximal norm of every patch is attained at a unique pixel; "
        "excluded cases are counted in maxpool_excluded_ties",
        "comparator pooling is claimed for comparators that transform as true scalars (0,0) and have a unique maximiser "
        "in every patch; the plain maximum (use_norm=False) only for true scalar blocks (0,0): on pseudo-scalars it is "
        "not equivariant (Lean counterexample) and outside the property's sentence, recorded in the notes only",
        "average pooling is exact in float32 only for power-of-two patch volumes; other patch lengths are compared "
        "within 1e-5 relative",
    ]
    ctx.trusted_extra = [
        "jax.lax.conv_general_dilated_patches patch order, jnp.argmax (first maximum), jnp.linalg.eigh, jnp.linalg.norm, "
        "eqx.nn.GroupNorm are modelled (boxList row-major, argmaxFirst, hypothesis hS / Jacobi iteration in the driver, "
        "squared norms, normCore) and validated by the correspondence runs only",
        "harness/refs.py reference action (validated against the Lean spec by the C02 check) and harness/equiv.py",
    ]
    t0 = time.time()
    run_stats(ctx, stats)
    run_d4_witness(ctx, stats)
    run_pool(ctx, stats)
    t1a = time.time()
    run_pool_extra(ctx, stats)
    t1 = time.time()
    run_blocks(ctx, stats)
    t2 = time.time()
    ctx.notes["c08"] = {
        "maxpool_cases_excluded_because_of_norm_ties": int(stats["maxpool_excluded_ties"]),
        "maxpool_cases_checked": int(stats["maxpool_checked"]),
        "maxpool_tie_cases_compared_with_model_as_diagnostic": int(stats["corr_tie_cases"]),
        "maxpool_tie_cases_agreeing_with_first_index_rule": int(stats["corr_tie_agree"]),
        "shift_tie_disagreements_not_counted": int(stats["shift_tie_disagree"]),
        "float_model_blocks_compared": int(stats["float_corr_blocks"]),
        "float_model_skipped_unrecognised_parameter_layout": int(stats["float_model_skipped_layout"]),
        "ill_conditioned_skipped": int(stats["ill_conditioned_skipped"]),
        "accepted_by_noise_floor": int(stats["accepted_by_noise_floor"]),
        "worst_equivariance_defect_seen": float(stats["worst_defect"]),
        "seconds_pooling": round(t1 - t0, 1),
        "seconds_pooling_comparator_and_scalar_paths": round(t1 - t1a, 1),
        "comparator_pool_cases_checked": int(stats["cmp_pool_checked"]),
        "scalar_plain_max_cases_checked": int(stats["scalar_pool_checked"]),
        "scope_note_plain_max_of_pseudoscalar": (
            "GeometricImage([[1,2],[3,4]], parity=1).max_pool(2, use_norm=False) under g = diag(-1,1): "
            f"max_pool(g.x) = {int(stats['raw_pseudo_lhs'])}, g.max_pool(x) = {int(stats['raw_pseudo_rhs'])} "
            f"(Lean model on g.x: {int(stats['raw_pseudo_model_lhs'])}); outside the property's sentence "
            "(norm-based pooling), documented by maxPoolScalar_pseudoscalar_counterexample, not flagged"
            if stats["raw_pseudo_accepted"] else "use_norm=False on a pseudo-scalar image was rejected by the code"),
        "seconds_blocks": round(t2 - t1, 1),
    }
