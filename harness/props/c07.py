"""C07 - equivariant networks are equivariant end to end.

Every case is one real ginjax model built in equivariant mode (`models.ConvBlock` in either activation
order, `models.UNet`, `models.ResNet`, `models.DilResNet`) with the invariant filter banks of B_D and
every learnable array moved away from its initial value.

correspondence (structural; model = lean/GinjaxVerif/Model/C07.lean through driver op c07.plan):
  ONE un-jitted forward pass of the real model is recorded by wrapping, from this process only and
  only for the duration of that pass, `ml.ConvContract.__call__`, `ml.GroupNorm.__call__` (LayerNorm
  inherits it), `ml.VectorNeuronNonlinear.__call__`, `ml.MaxNormPool.__call__`,
  `geom.MultiImage.concat` and `geom.MultiImage.__add__`.  Per top-level event: kind, signatures in
  dict order, extents, and for a convolution the layer's own static fields (padding, stride,
  lhs/rhs dilation, filter side, bias mode), for a pool the patch length and `use_norm`, for a concat
  the axis actually used.  The list is diffed, event by event, against the plan `trace (mkX cfg)` the
  compiled Lean model prints for the same constructor configuration, plus the final signature /
  extents / flags.
oracle (the property's own sentence on the real implementation):
  model(g.x) = g.model(x) for all 7 non-identity g of B_2 (a seeded subset of B_3 with a reflection
  and an axis swap for d = 3), g. from the exact numpy reference action of harness/refs.py with the
  extents and per-axis torus flags transported by g; tolerance = equiv.tolerance(noise floor of that
  model at that input); inputs with a max-pool tie are excluded (and counted).  On all-torus inputs
  ResNet / DilResNet must also commute with random cyclic shifts and the UNet with shifts by multiples
  of 2^num_downsamples.
negative controls (validate the oracle, never violations): a ConvBlock over a NON-invariant bank and a
  plain relu on a vector block must both be flagged, else the run is an infrastructure failure.
"""
from __future__ import annotations

import json
import time

import numpy as np

import equiv
import refs
from common import Ctx, DriverReject, InfraError, log

ACTS = ("relu", "gelu", "tanh", None)
BIASES = ("auto", "mean", "scalar", True, False)
KS = (0, 1, 2)

# (input, output) signatures; every output type is reachable through a filter of the banks
# (D=2 banks lack (0,1); D=3 banks lack (0,1) and (1,1)).  "gn": all types k <= 1 (LayerNorm).
# Non-scalar types that pass through a VectorNeuronNonlinear carry 2 channels: with a single channel and relu the
# layer is degenerate with probability 1/2 (k_vec = w.v, so v.k_hat = sign(w)|v| has one sign everywhere and the
# channel is dead when w < 0).
SIGS2 = {
    "s-v>v": ([((0, 0), 1), ((1, 0), 1)], [((1, 0), 2)]),
    "s-ps>v": ([((0, 0), 1), ((0, 1), 1)], [((1, 0), 2)]),
    "v>pv-s": ([((1, 0), 1)], [((1, 1), 2), ((0, 0), 1)]),
    "pv-s>ps-v": ([((1, 1), 1), ((0, 0), 2)], [((0, 1), 2), ((1, 0), 2)]),
    "v-ps>v-ps": ([((1, 0), 1), ((0, 1), 1)], [((1, 0), 2), ((0, 1), 2)]),
    "s-ps>s-ps": ([((0, 0), 1), ((0, 1), 1)], [((0, 0), 1), ((0, 1), 2)]),
    "s-v>s-v-ps": ([((0, 0), 1), ((1, 0), 1)], [((0, 0), 1), ((1, 0), 2), ((0, 1), 2)]),
    "s-v>m-pv": ([((0, 0), 1), ((1, 0), 1)], [((2, 0), 2), ((1, 1), 2)]),  # rank 2: never with LayerNorm
}
# pre-activation ConvBlock: norm and nonlinearity are built for output_keys and applied to the input
SIGS2_PRE = {
    "v-ps>v-ps": ([((1, 0), 2), ((0, 1), 2)], [((1, 0), 2), ((0, 1), 2)]),
    "s-ps>s-ps": ([((0, 0), 1), ((0, 1), 2)], [((0, 0), 1), ((0, 1), 2)]),
    "s-v>s-v": ([((0, 0), 2), ((1, 0), 2)], [((0, 0), 2), ((1, 0), 2)]),
    "pv-s>pv-s": ([((1, 1), 2), ((0, 0), 1)], [((1, 1), 2), ((0, 0), 1)]),
    "s-v-ps>s-v-ps": ([((0, 0), 1), ((1, 0), 2), ((0, 1), 2)], [((0, 0), 1), ((1, 0), 2), ((0, 1), 2)]),
}
SIGS3 = {
    "v>pv-s": ([((1, 0), 1)], [((1, 1), 2), ((0, 0), 1)]),
    "s-v>v-s": ([((0, 0), 1), ((1, 0), 1)], [((1, 0), 2), ((0, 0), 1)]),
    "s-v>v": ([((0, 0), 1), ((1, 0), 1)], [((1, 0), 2)]),
}
SIGS3_PRE = {
    "s-v>s-v": ([((0, 0), 1), ((1, 0), 2)], [((0, 0), 1), ((1, 0), 2)]),
    "pv-v>pv-v": ([((1, 1), 2), ((1, 0), 2)], [((1, 1), 2), ((1, 0), 2)]),
}


# ---------------------------------------------------------------------------------------------
# small helpers


SMALL_INPUT_TOL = 2e-2  # see `evaluate`: tolerance floor for the amplitude-3e-3 input of every model


def jsig(sig) -> list:
    return [[[int(k), int(p)], int(c)] for (k, p), c in sig]


def tsig(js):
    return equiv.signature([((kp[0], kp[1]), c) for kp, c in js])


def is_identity(g) -> bool:
    g = np.asarray(g)
    return bool(np.array_equal(g, np.eye(g.shape[0], dtype=g.dtype)))


def is_infra(e: BaseException) -> bool:
    """trouble of the machine, not of the implementation under test"""
    if isinstance(e, (MemoryError, OSError, InfraError, DriverReject)):
        return True
    text = f"{type(e).__name__}: {e}"
    return "RESOURCE_EXHAUSTED" in text or "Out of memory" in text


def n_maps() -> int:
    try:
        with open("/proc/self/maps") as f:
            return sum(1 for _ in f)
    except OSError:
        return -1


def release_compiled():
    """every model compiles its own programs; dropping them keeps the process far below the
    kernel's per-process mapping limit (the XLA CPU JIT maps a few sections per executable)"""
    import gc

    import equinox as eqx
    import jax

    equiv._FWD = None
    eqx.clear_caches()
    jax.clear_caches()
    gc.collect()


def banks(D: int):
    return equiv.filter_bank(D, Ms=(3,), ks=KS), equiv.filter_bank(D, Ms=(2,), ks=KS)


def reachable(bank_keys, sig_in, sig_out) -> bool:
    ins = [tuple(kp) for kp, _ in sig_in]
    return all(any((a[0] + t[0], (a[1] + t[1]) % 2) in bank_keys for a in ins) for t in [tuple(kp) for kp, _ in sig_out])


# ---------------------------------------------------------------------------------------------
# the real model of a configuration


def build_model(cfg: dict):
    import jax.random as random

    import ginjax.ml as ml  # noqa: F401  (before models: circular import otherwise)
    import ginjax.models as models

    D = cfg["D"]
    bank, up = banks(D)
    sig_in, sig_out = tsig(cfg["sig_in"]), tsig(cfg["sig_out"])
    key = random.PRNGKey(cfg["init_seed"])
    bias, act, gn = cfg["use_bias"], cfg["activation"], cfg["group_norm"]
    cls = cfg["class"]
    if cls == "convblock":
        kw = {}
        if cfg.get("padding") is not None:
            kw["padding"] = cfg["padding"]
        if cfg.get("rhs_dilation", 1) != 1:
            kw["rhs_dilation"] = (cfg["rhs_dilation"],) * D
        return models.ConvBlock(D, sig_in, sig_out, bias, act, True, bank, use_group_norm=gn,
                                preactivation_order=cfg["preact"], key=key, **kw)
    if cls == "unet":
        return models.UNet(D, sig_in, sig_out, depth=cfg["depth"], num_downsamples=cfg["num_downsamples"],
                           num_conv=cfg["num_conv"], use_bias=bias, activation_f=act, conv_filters=bank,
                           upsample_filters=up, use_group_norm=gn, key=key)
    if cls == "resnet":
        return models.ResNet(D, sig_in, sig_out, depth=cfg["depth"], num_blocks=cfg["num_blocks"],
                             num_conv=cfg["num_conv"], use_bias=bias, activation_f=act, conv_filters=bank,
                             use_group_norm=gn, preactivation_order=cfg["preact"], key=key)
    if cls == "dilresnet":
        return models.DilResNet(D, sig_in, sig_out, depth=cfg["depth"], num_blocks=cfg["num_blocks"],
                                use_bias=bias, activation_f=act, conv_filters=bank, use_group_norm=gn, key=key)
    raise InfraError(f"unknown class {cls}")


def mid_keys_of(model, cfg):
    """mid signature as resolved by the real constructor (signature_union iterates a Python set)"""
    import ginjax.geometric as geom

    try:
        first = model.embedding[0] if cfg["class"] == "unet" else model.encoder[0]
        return jsig(first.conv.target_keys)
    except Exception:  # noqa: BLE001  the module tree is not the anchored one: same function, same process
        return jsig(geom.signature_union(tsig(cfg["sig_in"]), tsig(cfg["sig_out"]), cfg["depth"]))


def driver_cfg(cfg: dict, model) -> dict:
    bank, up = banks(cfg["D"])
    d = {"input_keys": cfg["sig_in"], "output_keys": cfg["sig_out"], "use_bias": cfg["use_bias"],
         "activation": cfg["activation"] is not None, "use_group_norm": cfg["group_norm"],
         "preactivation_order": cfg["preact"], "bank": [[int(k), int(p)] for k, p in bank.keys()], "M": 3}
    if cfg["class"] == "convblock":
        if cfg.get("padding") is not None:
            d["padding"] = cfg["padding"]
        d["rhs_dilation"] = cfg.get("rhs_dilation", 1)
        d["lhs_dilation"] = 1
        return d
    d.update(mid_keys=mid_keys_of(model, cfg), depth=cfg["depth"], num_conv=cfg["num_conv"],
             num_blocks=cfg["num_blocks"], num_downsamples=cfg["num_downsamples"],
             up_bank=[[int(k), int(p)] for k, p in up.keys()], up_M=2)
    return d


# ---------------------------------------------------------------------------------------------
# recording the trace of one real forward pass


def _common(v):
    """int -> int; tuple with one common value -> that value; anything else as a list"""
    if v is None:
        return 1
    if isinstance(v, (int, np.integer)) and not isinstance(v, bool):
        return int(v)
    try:
        vals = [int(a) for a in v]
    except (TypeError, ValueError):
        return repr(v)
    return vals[0] if vals and all(a == vals[0] for a in vals) else vals


def _jpad(p):
    if p is None or isinstance(p, str):
        return p
    if isinstance(p, (int, np.integer)):
        return int(p)
    try:
        return [[int(lo), int(hi)] for lo, hi in p]
    except (TypeError, ValueError):
        return repr(p)


def _norm_bias(b):
    return "auto" if b is True else b


def _filter_side(layer):
    D = layer.invariant_filters.D
    sides = {tuple(int(s) for s in blk.shape[1:1 + D]) for blk in layer.invariant_filters.values()}
    flat = {s for sh in sides for s in sh}
    return flat.pop() if len(flat) == 1 else sorted(map(list, sides))


def _shape_of(mi):
    return jsig(mi.get_signature()), [int(s) for s in mi.get_spatial_dims()]


class Tracer:
    """context manager: while active, the six observation points append to `events` (top-level calls
    only) and the input of every MaxNormPool call is kept for the tie check"""

    def __init__(self):
        self.events = []
        self.pool_inputs = []
        self.depth = 0
        self._saved = []

    def _wrap(self, cls, name, before, after):
        tr = self
        orig = cls.__dict__[name]

        def wrapper(obj, *a, **k):
            top = tr.depth == 0
            rec = before(obj, a, k) if top else None
            tr.depth += 1
            try:
                out = orig(obj, *a, **k)
            finally:
                tr.depth -= 1
            if top:
                after(rec, obj, out)
                tr.events.append(rec)
            return out

        wrapper.__name__ = getattr(orig, "__name__", name)
        self._saved.append((cls, name, orig))
        type.__setattr__(cls, name, wrapper)

    def __enter__(self):
        import ginjax.geometric as geom
        import ginjax.ml as ml

        def conv_before(layer, a, k):
            x = a[0] if a else k["x"]
            s, d = _shape_of(x)
            return {"kind": "conv", "in": s, "dims_in": d, "padding": _jpad(layer.padding),
                    "stride": _common(layer.stride), "lhs": _common(layer.lhs_dilation),
                    "rhs": _common(layer.rhs_dilation), "M": _filter_side(layer), "bias": _norm_bias(layer.use_bias)}

        def conv_after(rec, layer, out):
            rec["out"], rec["dims_out"] = _shape_of(out)

        def same_before(kind):
            def before(layer, a, k):
                x = a[0] if a else k["x"]
                s, d = _shape_of(x)
                return {"kind": kind, "sig": s, "dims": d}
            return before

        def same_after(rec, layer, out):
            s, d = _shape_of(out)
            if s != rec["sig"] or d != rec["dims"]:
                rec["changes_shape_to"] = [s, d]

        def pool_before(layer, a, k):
            x = a[0] if a else k["x"]
            s, d = _shape_of(x)
            self.pool_inputs.append((int(layer.patch_len), {key: np.asarray(v) for key, v in x.items()}))
            return {"kind": "pool", "patch": int(layer.patch_len), "use_norm": bool(layer.use_norm), "sig": s, "dims_in": d}

        def pool_after(rec, layer, out):
            s, d = _shape_of(out)
            rec["dims_out"] = d
            if s != rec["sig"]:
                rec["changes_sig_to"] = s

        def add_before(x, a, k):
            s, d = _shape_of(x)
            return {"kind": "add", "sig": s, "dims": d}

        def add_after(rec, x, out):
            s, d = _shape_of(out)
            if s != rec["sig"] or d != rec["dims"]:
                rec["changes_shape_to"] = [s, d]

        def concat_before(x, a, k):
            other = a[0] if a else k["other"]
            axis = a[1] if len(a) > 1 else k.get("axis", 0)
            s, d = _shape_of(x)
            so, do = _shape_of(other)
            rec = {"kind": "concat", "a": s, "b": so, "dims": d, "axis": int(axis)}
            if do != d:
                rec["dims_b"] = do
            return rec

        def concat_after(rec, x, out):
            s, d = _shape_of(out)
            rec["out"] = s
            if d != rec["dims"]:
                rec["dims_out"] = d

        try:
            self._wrap(ml.ConvContract, "__call__", conv_before, conv_after)
            self._wrap(ml.GroupNorm, "__call__", same_before("norm"), same_after)
            self._wrap(ml.VectorNeuronNonlinear, "__call__", same_before("vn"), same_after)
            self._wrap(ml.MaxNormPool, "__call__", pool_before, pool_after)
            self._wrap(geom.MultiImage, "concat", concat_before, concat_after)
            self._wrap(geom.MultiImage, "__add__", add_before, add_after)
        except Exception:
            self.__exit__(None, None, None)
            raise
        return self

    def __exit__(self, *exc):
        for cls, name, orig in reversed(self._saved):
            type.__setattr__(cls, name, orig)
        self._saved = []
        return False


def traced_forward(model, blocks, D, torus):
    """one un-jitted forward pass; returns (events, out shape dict, pool inputs)"""
    x = equiv.to_multi_image(blocks, D, torus)
    with Tracer() as tr:
        out = model(x)
        if isinstance(out, tuple):
            out = out[0]
        s, d = _shape_of(out)
        shape = {"sig": s, "dims": d, "torus": [bool(t) for t in out.is_torus]}
    return tr.events, shape, tr.pool_inputs


def canon_plan(plan: dict) -> list:
    """the driver's events in the shape of the recorded ones"""
    out = []
    for e in plan["events"]:
        e = dict(e)
        if e["kind"] == "conv":
            e["bias"] = _norm_bias(e["bias"])
        elif e["kind"] == "pool":
            e["use_norm"] = True   # the model's pool is the norm-based one
        elif e["kind"] == "concat":
            e["axis"] = 0          # the model concatenates on the channel axis
        out.append(e)
    return out


def diff_traces(real: list, plan: list, real_out: dict, plan_out: dict) -> list:
    diffs = []
    kinds = lambda evs: "".join({"conv": "C", "norm": "N", "vn": "V", "pool": "P", "add": "+", "concat": "|"}[e["kind"]] for e in evs)  # noqa: E731
    if len(real) != len(plan):
        diffs.append(f"{len(real)} events in the forward pass [{kinds(real)}], {len(plan)} in the model's plan [{kinds(plan)}]")
    for i, (a, b) in enumerate(zip(real, plan)):
        if a["kind"] != b["kind"]:
            diffs.append(f"event {i}: {a['kind']} in the forward pass, {b['kind']} in the plan "
                         f"[{kinds(real)}] vs [{kinds(plan)}]")
            break  # everything after is misaligned
        for f in sorted(set(a) | set(b)):
            if a.get(f, "<absent>") != b.get(f, "<absent>"):
                diffs.append(f"event {i} ({a['kind']}): {f} = {json.dumps(a.get(f, '<absent>'))} in the forward pass, "
                             f"{json.dumps(b.get(f, '<absent>'))} in the plan")
    for f in ("sig", "dims", "torus"):
        if real_out.get(f) != plan_out.get(f):
            diffs.append(f"final output {f}: {json.dumps(real_out.get(f))} from the code, {json.dumps(plan_out.get(f))} from the model")
    return diffs


MIN_CONV = {"convblock": 1, "unet": 3, "resnet": 3, "dilresnet": 3}


def pool_ties(blocks: dict, D: int, patch: int, rel: float = 1e-4) -> bool:
    """True when some patch of some channel has two pixels whose norms are within `rel` of each other
    at a NON-ZERO maximum (as equiv.has_pool_ties, except that a patch whose maximal norm is exactly 0
    -- all its pixels vanish, common after relu on scalars -- is no tie: whichever pixel is selected,
    the pooled value is 0)"""
    for (k, p), b in blocks.items():
        b = np.asarray(b, dtype=np.float64)
        lead = b.ndim - D - k
        nrm = np.sqrt(np.sum(b * b, axis=tuple(range(lead + D, b.ndim)))) if k else np.abs(b)
        sp = nrm.shape[lead:]
        if any(s % patch for s in sp):
            continue
        for img in nrm.reshape((-1,) + sp):
            shp = []
            for s in sp:
                shp += [s // patch, patch]
            t = img.reshape(shp)
            t = np.moveaxis(t, [2 * i + 1 for i in range(D)], list(range(D, 2 * D)))
            srt = np.sort(t.reshape(t.shape[:D] + (-1,)), axis=-1)
            if np.any((srt[..., -1] > 0) & (srt[..., -1] - srt[..., -2] <= rel * srt[..., -1])):
                return True
    return False


# ---------------------------------------------------------------------------------------------
# the oracle on one model


def shift_report(model, blocks, D, torus, shift) -> dict:
    """model(roll(x, shift)) against roll(model(x), shift) on a torus, relative to the output scale"""
    axes = tuple(range(1, 1 + D))
    y = equiv.apply_model(model, blocks, D, torus)
    xs = {k: np.roll(v, shift, axis=axes) for k, v in blocks.items()}
    ys = equiv.apply_model(model, xs, D, torus)
    scale = max([float(np.max(np.abs(v))) for v in y.values() if v.size] + [0.0]) or 1.0
    worst, per = 0.0, {}
    for k in y:
        want = np.roll(y[k], shift, axis=axes)
        if ys[k].shape != want.shape or not np.all(np.isfinite(ys[k])):
            return {"shift": list(shift), "defect": float("inf"), "per_key": {str(k): "shape / non-finite"}}
        err = float(np.max(np.abs(ys[k] - want))) / scale if want.size else 0.0
        per[str(k)] = err
        worst = max(worst, err)
    return {"shift": [int(s) for s in shift], "defect": worst, "per_key": per}


def pick_shifts(rng, cfg) -> list:
    D, dims = cfg["D"], cfg["spatial"]
    step = 2 ** cfg["num_downsamples"] if cfg["class"] == "unet" else 1
    out = []
    for _ in range(cfg["n_shifts"] * 4):
        s = tuple(int(step * rng.integers(0, dims[i] // step)) for i in range(D))
        if any(s) and s not in out:
            out.append(s)
        if len(out) >= cfg["n_shifts"]:
            break
    return out


def evaluate(ctx: Ctx, cfg: dict) -> dict:
    """one model: build, perturb, trace, oracle, plan.  Pure function of cfg (all seeds inside)."""
    t0 = time.time()
    rng = np.random.Generator(np.random.PCG64(cfg["run_seed"]))
    D, spatial, torus = cfg["D"], tuple(cfg["spatial"]), tuple(bool(t) for t in cfg["is_torus"])
    sig_in = tsig(cfg["sig_in"])
    obs = {"raised": None, "diffs": [], "inputs": [], "failures": [], "excluded_ties": 0, "ill_conditioned": 0,
           "shift_checks": 0, "worst_defect": 0.0, "worst_shift_defect": 0.0}
    # ---- construction
    try:
        model0 = build_model(cfg)
    except Exception as e:  # noqa: BLE001
        if is_infra(e):
            raise InfraError(f"building {cfg['name']}: {type(e).__name__}: {e}")
        obs["raised"] = {"stage": "construction", "type": type(e).__name__, "msg": str(e)[:300]}
        return obs
    p0 = equiv.param_leaves(model0)
    obs["params"] = len(p0)
    gs = [g for g in (equiv.group(D) if D == 2 else equiv.group_subset(D, rng, cfg["n_group"])) if not is_identity(g)]
    obs["group_elements"] = len(gs)
    obs["has_reflection"] = any(refs.det(g) == -1 for g in gs)
    obs["has_axis_swap"] = any(np.any(np.abs(g) != np.eye(D, dtype=np.int64)) for g in gs)
    shifts = pick_shifts(rng, cfg) if (all(torus) and cfg["class"] in ("unet", "resnet", "dilresnet")) else []
    pseed = int(rng.integers(2 ** 31 - 1))
    scales = [cfg["perturb"]] + ([0.2] if cfg["perturb"] > 0.2 else [])
    trace = None      # (events, output shape) of the first recorded forward pass: the structure does not depend on values
    verdicts = 0
    stage = "forward pass on x"
    try:
        for scale in scales:
            model = equiv.perturb(model0, np.random.Generator(np.random.PCG64(pseed)), scale)
            if cfg.get("train_steps"):
                # parameter values reached by gradient steps over all array leaves (what ml.train updates)
                stage = "gradient steps"
                x_tr = equiv.random_blocks(np.random.Generator(np.random.PCG64(pseed + 1)), sig_in, D, spatial, kind="normal")
                model = equiv.gradient_steps(model, x_tr, D, torus, steps=int(cfg["train_steps"]))
                obs["train_steps"] = int(cfg["train_steps"])
            if scale == scales[0]:
                p1 = equiv.param_leaves(model)
                obs["params_moved"] = sum(1 for (_, a), (_, b) in zip(p0, p1) if not np.array_equal(a, b))
            obs["perturb_used"] = scale
            obs["inputs"], verdicts = [], 0
            obs["excluded_ties"] = obs["ill_conditioned"] = 0
            # ---- inputs; a model with pooling sees every candidate through the recorded (un-jitted) forward pass
            #      and a candidate with a max-pool tie is replaced (the property excludes ties)
            xs, smalls = [], []
            for i_in in range(cfg["n_inputs"]):
                for _attempt in range(4):
                    x = equiv.random_blocks(rng, sig_in, D, spatial, kind="normal")
                    small = i_in == cfg["n_inputs"] - 1 and cfg.get("small_last_input", True)
                    if small:
                        # the last input of every model has amplitude 3e-3: activations whose covariance is
                        # comparable to the normalisation epsilons (where an epsilon in the wrong place shows as a
                        # defect of order 0.1 - 1).  Such inputs are badly conditioned in float32 (the whitening
                        # amplifies rounding noise by ~1/sqrt(eps)): measured noise defects reach 4e-3, so this input
                        # is judged with a tolerance of at least 2e-2 (SMALL_INPUT_TOL).
                        x = {k: np.asarray(v) * np.float32(3e-3) for k, v in x.items()}
                    if trace is None or cfg["class"] == "unet":
                        stage = "forward pass on x"
                        events, out_shape, pools = traced_forward(model, x, D, torus)
                        if trace is None:
                            trace = (events, out_shape)
                            n_conv = sum(1 for e in events if e["kind"] == "conv")
                            if n_conv < MIN_CONV[cfg["class"]]:
                                raise InfraError(
                                    f"{cfg['name']}: the recorded forward pass has {n_conv} convolution events (< "
                                    f"{MIN_CONV[cfg['class']]}): the wrappers of ConvContract.__call__ did not take effect")
                        if any(pool_ties(b, D, P) for P, b in pools):
                            obs["excluded_ties"] += 1
                            continue
                    xs.append(x)
                    smalls.append(small)
                    break
            # ---- oracle
            stage = "evaluation of model(g.x) / model(shift.x)"
            for i, x in enumerate(xs):
                rec = {"input": i}
                obs["inputs"].append(rec)
                y = equiv.apply_model(model, x, D, torus)
                rec["output_nonzero"] = bool(any(np.any(v != 0) for v in y.values()))
                rec["output_finite"] = bool(all(np.all(np.isfinite(v)) for v in y.values()))
                eta = equiv.noise_floor(model, x, D, torus, rng)
                tol = equiv.tolerance(eta)
                if tol is not None and smalls[i]:
                    tol = max(tol, SMALL_INPUT_TOL)
                    rec["small_amplitude"] = True
                rec["eta"], rec["tol"] = eta, tol
                if tol is None:
                    rec["excluded"] = "ill-conditioned in float32"
                    obs["ill_conditioned"] += 1
                    continue
                verdicts += 1
                d, rep, allv = equiv.worst_defect(model, x, D, torus, gs)
                rec["defect"], rec["defects"] = d, allv
                obs["worst_defect"] = max(obs["worst_defect"], d) if np.isfinite(d) else d
                if not d <= tol:
                    obs["failures"].append({
                        "kind": "group", "what": f"model(g.x) != g.model(x): relative defect {d:.3e} > tolerance {tol:.1e} "
                        f"for g={rep['g']} (det {rep['det']}), per output type {rep['per_key']}"
                        + (f"; {rep['problem']}" if rep.get("problem") else ""),
                        "g": rep["g"], "det": rep["det"], "defect": d, "tol": tol, "per_key": rep["per_key"],
                        "defects_all_g": allv, "input_index": i, "perturb": scale,
                        "input": {str(k): np.asarray(v).tolist() for k, v in x.items()}})
                for s in shifts:
                    r = shift_report(model, x, D, torus, s)
                    obs["shift_checks"] += 1
                    obs["worst_shift_defect"] = max(obs["worst_shift_defect"], r["defect"])
                    if not r["defect"] <= tol:
                        obs["failures"].append({
                            "kind": "shift", "what": f"model(shift.x) != shift.model(x) on the torus: relative defect "
                            f"{r['defect']:.3e} > tolerance {tol:.1e} for the cyclic shift {r['shift']}, per type {r['per_key']}",
                            "shift": r["shift"], "defect": r["defect"], "tol": tol, "input_index": i, "perturb": scale,
                            "input": {str(k): np.asarray(v).tolist() for k, v in x.items()}})
            if verdicts or obs["failures"]:
                break
    except Exception as e:  # noqa: BLE001
        if is_infra(e):
            raise InfraError(f"{stage} of {cfg['name']}: {type(e).__name__}: {e}")
        obs["raised"] = {"stage": stage, "type": type(e).__name__, "msg": str(e)[:300]}
        return obs
    events, out_shape = trace
    obs["events"] = len(events)
    obs["out"] = out_shape
    want_out = {tuple(kp): c for kp, c in cfg["sig_out"]}
    got_out = {tuple(kp): c for kp, c in out_shape["sig"]}
    if got_out != want_out:
        obs["failures"].insert(0, {"what": f"output signature {out_shape['sig']} is not the requested {cfg['sig_out']}",
                                   "kind": "signature"})
    obs["verdicts"] = verdicts
    # ---- the Lean model's plan
    dcfg = driver_cfg(cfg, model0)
    xj = {"sig": cfg["sig_in"], "dims": list(spatial), "torus": list(torus)}
    try:
        plan = ctx.driver.call("c07.plan", D=D, **{"class": cfg["class"]}, cfg=dcfg, x=xj)
        obs["diffs"] = diff_traces(events, canon_plan(plan), out_shape, plan["out"])
    except DriverReject as e:
        obs["diffs"] = [f"the Lean model says the code raises on this configuration ({e}); the code ran"]
    obs["driver_cfg"] = dcfg
    obs["total_s"] = round(time.time() - t0, 1)
    return obs


def nontrivial_of(cfg, obs) -> bool:
    types = {tuple(kp) for kp, _ in cfg["sig_in"]} | {tuple(kp) for kp, _ in cfg["sig_out"]}
    rich = len(types) >= 2 or any(p == 1 for _, p in types)
    judged = [r for r in obs["inputs"] if "defect" in r]
    return bool(
        obs["raised"] is None and rich and obs.get("params", 0) > 0 and obs.get("params_moved", 0) == obs.get("params", -1)
        and judged and all(np.isfinite(r["defect"]) and r["output_nonzero"] and r["output_finite"] for r in judged)
        and obs.get("has_reflection") and obs.get("has_axis_swap"))


def torus_kind(t) -> str:
    return "all" if all(t) else ("none" if not any(t) else "mixed")


def judge(ctx: Ctx, cfg: dict, obs: dict, stats: dict):
    key = {k: v for k, v in cfg.items() if k != "name"}
    summary = {k: v for k, v in obs.items() if k not in ("failures", "driver_cfg")}
    summary["failures"] = [f["what"] for f in obs["failures"]]
    nt = nontrivial_of(cfg, obs)
    ctx.case(key, nt, sample={"config": cfg, "observed": summary})
    cls = cfg["class"] + ("/preact" if cfg["class"] == "convblock" and cfg["preact"] else "")
    ctx.hist("class", cls)
    for h in ("activation", "group_norm", "preact", "use_bias", "sig", "D"):
        ctx.hist(h, cfg[h])
    ctx.hist("torus", torus_kind(cfg["is_torus"]))
    ctx.hist("extents", "square" if len(set(cfg["spatial"])) == 1 else "non-square")
    ctx.hist("spatial", "x".join(str(s) for s in cfg["spatial"]))
    if cfg["class"] == "convblock":
        ctx.hist("convblock_padding", cfg.get("padding"))
        ctx.hist("convblock_rhs_dilation", cfg.get("rhs_dilation", 1))
    stats["models"] += 1
    stats["excluded_pool_ties"] += obs["excluded_ties"]
    stats["ill_conditioned_inputs"] += obs["ill_conditioned"]
    stats["shift_checks"] += obs["shift_checks"]
    stats["group_evaluations"] += sum(len(r.get("defects", [])) for r in obs["inputs"])
    if np.isfinite(obs["worst_defect"]):
        stats["worst_defect"] = max(stats["worst_defect"], obs["worst_defect"])
    if not all(cfg["is_torus"]) or len(set(cfg["spatial"])) > 1:
        stats["whole_group_on_mixed_or_nonsquare"] += 1
    case = {"config": cfg, "observed": summary, "driver_cfg": obs.get("driver_cfg"),
            "replay_hint": "evaluate(ctx, config) in harness/props/c07.py (./check C07 --replay <this file>)"}
    if obs["raised"]:
        r = obs["raised"]
        ctx.violation("oracle", f"{cfg['name']}: {r['type']} during {r['stage']} of a configuration the property covers: {r['msg']}", case)
        return
    if obs["failures"]:
        f = obs["failures"][0]
        ctx.violation("oracle", f"{cfg['name']}: {f['what']}"
                      + (f" (the forward pass also differs from the model's plan: {obs['diffs'][0]})" if obs["diffs"] else ""),
                      dict(case, failing=f, plan_differences=obs["diffs"][:6]))
        return
    if obs["diffs"]:
        ctx.violation("correspondence", f"{cfg['name']}: forward pass differs from the plan of the Lean model: "
                      + "; ".join(obs["diffs"][:3]), dict(case, plan_differences=obs["diffs"][:12]))


def run_models(ctx: Ctx, cfgs, stats):
    for cfg in cfgs:
        obs = evaluate(ctx, cfg)
        status = ("RAISED " + obs["raised"]["type"]) if obs["raised"] else (
            f"events {obs['events']} diffs {len(obs['diffs'])} defect {obs['worst_defect']:.1e} "
            f"tol {[r.get('tol') for r in obs['inputs']]} shifts {obs['shift_checks']} ({obs['worst_shift_defect']:.1e}) "
            f"ties {obs['excluded_ties']} ill {obs['ill_conditioned']} failures {len(obs['failures'])}")
        log(f"[C07] {cfg['name']}: {status} {obs.get('total_s', '-')}s maps {n_maps()}")
        judge(ctx, cfg, obs, stats)
        release_compiled()


# ---------------------------------------------------------------------------------------------
# negative controls: the oracle must flag what is not equivariant


def negative_controls(ctx: Ctx):
    import equinox as eqx
    import jax
    import jax.numpy as jnp
    import jax.random as random

    import ginjax.geometric as geom
    import ginjax.ml as ml
    import ginjax.models as models

    rng = np.random.Generator(np.random.PCG64(int(ctx.rng.integers(2 ** 31 - 1))))
    D = 2
    bank, _ = banks(D)
    gs = [g for g in equiv.group(D) if not is_identity(g)]
    results = []

    # (a) a ConvBlock over a bank that is NOT invariant: one block of the bank gets noise
    noisy = geom.MultiImage(
        {k: (v + jnp.asarray(rng.normal(size=v.shape).astype(np.float32)) if k == (1, 0) else v) for k, v in bank.items()},
        D, bank.is_torus)
    si, so = SIGS2["s-v>v"]
    blk = models.ConvBlock(D, equiv.signature(si), equiv.signature(so), "auto", "gelu", True, noisy,
                           key=random.PRNGKey(int(rng.integers(2 ** 31 - 1))))
    blk = equiv.perturb(blk, rng, 0.5)
    x = equiv.random_blocks(rng, equiv.signature(si), D, (4, 4))
    tol = equiv.tolerance(equiv.noise_floor(blk, x, D, True, rng)) or equiv.TOL
    d, rep, _ = equiv.worst_defect(blk, x, D, True, gs)
    results.append({"control": "ConvBlock over a non-invariant bank (noise on the (1,0) filters)", "defect": d, "tol": tol,
                    "g": rep["g"], "flagged": bool(d > tol)})
    release_compiled()

    # (b) plain relu on a vector block after a ConvContract
    class ReluNet(eqx.Module):
        conv: ml.ConvContract
        act: ml.LayerWrapper

        def __call__(self, x):
            return self.act(self.conv(x))

    sig_v = equiv.signature([((1, 0), 2), ((0, 0), 1)])
    net = ReluNet(ml.ConvContract(equiv.signature(si), sig_v, bank, "auto", key=random.PRNGKey(int(rng.integers(2 ** 31 - 1)))),
                  ml.LayerWrapper(jax.nn.relu, sig_v))
    net = equiv.perturb(net, rng, 0.5)
    x = equiv.random_blocks(rng, equiv.signature(si), D, (4, 6))
    tol = equiv.tolerance(equiv.noise_floor(net, x, D, (True, False), rng)) or equiv.TOL
    d, rep, _ = equiv.worst_defect(net, x, D, (True, False), gs)
    results.append({"control": "plain jax.nn.relu through ml.LayerWrapper on a vector block after a ConvContract",
                    "defect": d, "tol": tol, "g": rep["g"], "flagged": bool(d > tol)})
    release_compiled()

    for r in results:
        log(f"[C07] negative control: {r['control']}: defect {r['defect']:.3f} tol {r['tol']:.1e} flagged {r['flagged']}")
        ctx.hist("negative_control", "flagged" if r["flagged"] else "MISSED")
    ctx.notes.setdefault("negative_controls", []).extend(results)
    missed = [r for r in results if not r["flagged"] or not r["defect"] > 10 * r["tol"]]
    if missed:
        raise InfraError("the equivariance oracle did not flag a negative control: " + json.dumps(missed))


# ---------------------------------------------------------------------------------------------
# the plan of models


def pick(rng, lst):
    return lst[int(rng.integers(len(lst)))]


def extents(rng, D, cls, nd, square: bool):
    if D == 3:
        return [4, 4, 4]
    if cls == "unet":
        step = 2 ** nd
        vals = [v for v in (4, 6, 8) if v % step == 0]
        if nd >= 2:  # the coarsest level keeps 2 pixels per axis
            return [8, 8]
    elif cls == "convblock":
        vals = [4, 5, 6, 7, 8]
    else:
        vals = [4, 5, 6]
    a = int(pick(rng, vals))
    if square:
        return [a, a]
    b = int(pick(rng, [v for v in vals if v != a]))
    return [a, b]


def flags_of(rng, D, kind):
    if kind == "all":
        return [True] * D
    if kind == "none":
        return [False] * D
    f = [bool(b) for b in rng.integers(0, 2, size=D)]
    if all(f) or not any(f):
        f[int(rng.integers(D))] = not f[0]
    return f


def make_cfg(rng, cls, D=2, preact=False, sig=None, group_norm=None, activation="?", use_bias=None,
             torus="all", square=True, nd=1, quick=True, **over) -> dict:
    if cls == "convblock" and preact:
        table = SIGS3_PRE if D == 3 else SIGS2_PRE
    else:
        table = SIGS3 if D == 3 else SIGS2
    if group_norm is None:
        group_norm = bool(rng.integers(2))
    names = sorted(table)
    if sig is None:
        sig = pick(rng, names)
    si, so = table[sig]
    # LayerNorm exists for k <= 1 only: the normalised signature (mid = union for the nets) must not hold rank 2
    if group_norm and any(kp[0] > 1 for kp, _ in (so if cls == "convblock" else si + so)):
        group_norm = False
    if activation == "?":
        activation = pick(rng, [a for a in ACTS if a is not None or cls != "unet"])
    if use_bias is None:
        use_bias = pick(rng, list(BIASES))
    cfg = {
        "class": cls, "D": D, "sig": sig, "sig_in": jsig(si), "sig_out": jsig(so),
        "depth": int(pick(rng, [2, 3])) if D == 2 else 2, "use_bias": use_bias, "activation": activation,
        "group_norm": bool(group_norm), "preact": bool(preact) if cls in ("convblock", "resnet") else False,
        "num_conv": 1, "num_blocks": 1 if cls in ("resnet", "dilresnet") else 0,
        "num_downsamples": nd if cls == "unet" else 0,
        "is_torus": flags_of(rng, D, torus), "perturb": 0.5,
        "n_inputs": 2 if quick else 3, "n_group": int(rng.integers(4, 7)), "n_shifts": 2 if quick else 3,
    }
    cfg["spatial"] = extents(rng, D, cls, cfg["num_downsamples"], square)
    if cls == "convblock":
        # conv_kwargs of the block: explicit padding modes and a dilated filter now and then
        opts = [None, None, "SAME", "VALID"] + (["TORUS"] if all(cfg["is_torus"]) else [])
        cfg["padding"] = pick(rng, opts)
        cfg["rhs_dilation"] = 1 if cfg["padding"] == "VALID" else int(pick(rng, [1, 1, 2]))
    # the ConvBlock models (and one ResNet in two) are judged at parameter values reached by two gradient steps
    cfg["train_steps"] = 2 if (cls == "convblock" or (cls == "resnet" and D == 2 and rng.integers(2))) else 0
    cfg.update(over)
    if cls == "convblock" and not reachable(set(banks(D)[0].keys()), cfg["sig_in"], cfg["sig_out"]):
        raise InfraError(f"signature {sig}: an output type cannot be produced from the input types with the bank of d={D}")
    cfg["init_seed"] = int(rng.integers(2 ** 31 - 1))
    cfg["run_seed"] = int(rng.integers(2 ** 31 - 1))
    tk = torus_kind(cfg["is_torus"])
    cfg["name"] = (f"{cls}{'/pre' if cfg['preact'] else ''}/d{D}/{sig}/act={activation}/gn={int(cfg['group_norm'])}/"
                   f"bias={use_bias}/{'x'.join(map(str, cfg['spatial']))}/torus={tk}"
                   + ("/trained" if cfg["train_steps"] else ""))
    return cfg


def plan(ctx: Ctx) -> list:
    rng = ctx.rng
    out = []
    if ctx.tier == "quick":
        # seven d=2 models covering every class, both ConvBlock orders, both ResNet orders; guaranteed: a pseudo-type
        # signature, a group-norm model with a pseudo-scalar block, a mixed-torus and a non-square case,
        # an all-torus ResNet-type model and an all-torus UNet (translation clauses); plus one d=3 model
        acts = [ACTS[i] for i in rng.permutation(4)]            # dealt to the four models that accept None
        biases = [BIASES[i] for i in rng.permutation(5)] + [pick(rng, list(BIASES))]
        strs = [a for a in ACTS if a is not None]
        ab = int(rng.integers(2))      # which ConvBlock gets mixed flags / non-square extents
        cd = int(rng.integers(2))      # which UNet is all-torus
        ef = int(rng.integers(2))      # which ResNet-type model is all-torus
        other = lambda: pick(rng, ["none", "mixed"])  # noqa: E731
        sq = lambda: bool(rng.integers(2))  # noqa: E731
        out.append(make_cfg(rng, "convblock", preact=False, activation=acts[0], use_bias=biases[0],
                            torus="mixed" if ab == 0 else pick(rng, ["all", "none", "mixed"]), square=(ab == 0) and sq()))
        out.append(make_cfg(rng, "convblock", preact=True, activation=acts[1], use_bias=biases[1],
                            torus="mixed" if ab == 1 else pick(rng, ["all", "none", "mixed"]), square=(ab == 1) and sq()))
        vec_sigs = [s for s in sorted(SIGS2) if s not in ("s-ps>s-ps", "s-v>m-pv")]
        out.append(make_cfg(rng, "unet", sig=pick(rng, vec_sigs), activation=pick(rng, strs), use_bias=biases[2],
                            torus="all" if cd == 0 else other(), square=sq()))
        # only k=0 types, one of them a pseudo-scalar, with LayerNorm: raw-value pooling, a plain affine
        # normalisation or a plain activation are all wrong here although no tensor-valued channel exists
        out.append(make_cfg(rng, "unet", sig="s-ps>s-ps", group_norm=True, activation=pick(rng, strs), use_bias=biases[3],
                            torus="all" if cd == 1 else other(), square=sq()))
        pre = bool(rng.integers(2))
        out.append(make_cfg(rng, "resnet", preact=pre, activation=acts[2], use_bias=biases[4],
                            torus="all" if ef == 0 else other(), square=sq()))
        # the other block order, with the library's default normalisation setting flipped relative to the first
        out.append(make_cfg(rng, "resnet", preact=not pre, group_norm=not out[-1]["group_norm"], activation=pick(rng, strs),
                            use_bias=pick(rng, list(BIASES)), torus=pick(rng, ["all", "none", "mixed"]), square=sq()))
        out.append(make_cfg(rng, "dilresnet", activation=acts[3], use_bias=biases[5],
                            torus="all" if ef == 1 else other(), square=sq()))
        c3 = pick(rng, ["convblock", "resnet", "unet", "dilresnet"])
        out.append(make_cfg(rng, c3, D=3, preact=bool(rng.integers(2)) if c3 in ("convblock", "resnet") else False,
                            torus=pick(rng, ["all", "none", "mixed"]), n_inputs=1, n_shifts=1))
        return out
    # thorough: 11 models per (class, order) with every attribute dealt from shuffled cycles, then d=3
    kinds = [("convblock", False), ("convblock", True), ("unet", False), ("resnet", False), ("resnet", True), ("dilresnet", False)]
    per = {("convblock", False): 11, ("convblock", True): 10, ("unet", False): 11, ("resnet", False): 7,
           ("resnet", True): 7, ("dilresnet", False): 8}

    def cycle(vals, n):
        seq = []
        while len(seq) < n:
            seq += [vals[i] for i in rng.permutation(len(vals))]
        return seq[:n]

    for cls, pre in kinds:
        n = per[(cls, pre)]
        table = SIGS2_PRE if (cls == "convblock" and pre) else SIGS2
        acts = cycle([a for a in ACTS if a is not None or cls != "unet"], n)
        bs = cycle(list(BIASES), n)
        gns = cycle([True, False], n)
        sigs = cycle(sorted(table), n)
        tors = cycle(["all", "none", "mixed"], n)
        sqs = cycle([True, False], n)
        for i in range(n):
            nd = 2 if (cls == "unet" and i == 0) else 1
            out.append(make_cfg(rng, cls, preact=pre, sig=sigs[i], group_norm=gns[i], activation=acts[i], use_bias=bs[i],
                                torus=tors[i], square=sqs[i] or nd == 2, nd=nd, quick=False,
                                **({"num_conv": 2} if (cls in ("unet", "resnet") and i == 1) else {})))
    for cls, pre in [("convblock", False), ("convblock", True), ("unet", False), ("resnet", True), ("dilresnet", False),
                     ("resnet", False)]:
        out.append(make_cfg(rng, cls, D=3, preact=pre, torus=pick(rng, ["all", "none", "mixed"]), quick=False,
                            n_inputs=1, n_shifts=1))
    return out


# ---------------------------------------------------------------------------------------------


def set_texts(ctx: Ctx):
    ctx.rule = (
        "one case = one real model built in equivariant mode (ConvBlock in either activation order, UNet, ResNet, DilResNet) "
        "x activation {relu, gelu, tanh, None} x LayerNorm on/off x pre-activation order x use_bias {auto, mean, scalar, True, "
        "False} x signature (incl. pseudo-scalars / pseudo-vectors, the k=0-only signature, rank 2 without LayerNorm) x d in "
        "{2,3} x per-axis torus flags {all, none, mixed} x square / non-square extents (multiples of 2^num_downsamples), "
        "every learnable array leaf moved by N(0, 0.5^2) noise, the filter banks untouched; observed: (i) the trace of one "
        "un-jitted forward pass against the plan of the Lean model, (ii) model(g.x) = g.model(x) for all 7 non-identity g of "
        "B_2 (4-6 seeded elements of B_3 incl. a reflection and an axis swap for d=3) on 2 (quick) / 3 (thorough) generic "
        "inputs, (iii) on all-torus inputs commutation with random cyclic shifts (ResNet, DilResNet) / shifts by multiples of "
        "2^num_downsamples (UNet). Quick tier: a seeded sample that always holds one model of every class, both ConvBlock and both ResNet "
        "orders, a pseudo-type signature, a LayerNorm model with a pseudo-scalar block, a mixed-torus and a non-square case, "
        "one d=3 model. A case is non-trivial when at least two distinct types or a pseudo-type are involved, every parameter "
        "leaf was moved, at least one input carried a float32 verdict with a finite defect and an output that is not "
        "identically zero, and the evaluated group elements include a reflection (det = -1) and an axis swap; distinct by "
        "canonical JSON of the configuration (seeds included). Negative controls are not counted."
    )
    ctx.assumptions = [
        "float32: equivariance is accepted up to a defect of max(1e-3, 20 x measured amplification of 2-ulp input noise) "
        "relative to the output scale (measured 1e-7..1e-5 on the clean tree, 1e-2..1 on broken models); an input at which "
        "that tolerance would exceed 1e-2 carries no verdict (retried with perturbation 0.2, then counted as ill-conditioned)",
        "max pooling: inputs for which some MaxNormPool call of the forward pass sees two pixel norms of one patch within "
        "1e-4 relative at the maximum are excluded (the property excludes ties); counted in c07.excluded_pool_ties",
        "group elements: all of B_2; for d=3 a seeded subset of 4-6 non-identity elements of B_3 containing a reflection and "
        "an axis swap. With non-square extents or mixed per-axis torus flags the whole group still applies: the oracle "
        "transports extents and flags with g (refs.transport), so g.x lives on the rotated box with the permuted flags",
        "the forward pass is tied to the Lean model structurally (layer plan), not value by value; per-layer numerics are "
        "C06/C08/C11. A refactoring that bypasses the six observation points (e.g. calling individual_convolve directly) "
        "would be reported as a correspondence difference",
        "NaN/inf inputs excluded; inputs are generic normal samples",
    ]
    ctx.trusted_extra = [
        "harness/refs.py reference group action (diffed against the Lean spec by the C02 check) and harness/equiv.py",
        "Python attribute patching of ml.ConvContract/GroupNorm/VectorNeuronNonlinear/MaxNormPool.__call__ and "
        "MultiImage.concat/__add__ for the duration of one forward pass (restored afterwards; /repo is never edited)",
        "the invariant filter banks come from geom.get_invariant_filters (their invariance is C05's claim); the negative "
        "control with a non-invariant bank shows that the oracle depends on it",
    ]


def new_stats() -> dict:
    return {"models": 0, "excluded_pool_ties": 0, "ill_conditioned_inputs": 0, "shift_checks": 0, "group_evaluations": 0,
            "worst_defect": 0.0, "whole_group_on_mixed_or_nonsquare": 0}


def merge_notes(ctx: Ctx, stats: dict, t0: float):
    old = ctx.notes.get("c07")
    if old:  # second pass of the same run
        for k, v in stats.items():
            stats[k] = max(v, old[k]) if k == "worst_defect" else v + old.get(k, 0)
    stats["seconds"] = round(time.time() - t0 + (old or {}).get("seconds", 0.0), 1)
    ctx.notes["c07"] = stats


def run(ctx: Ctx):
    set_texts(ctx)
    ctx.max_samples = 8
    t0 = time.time()
    stats = new_stats()
    negative_controls(ctx)
    run_models(ctx, plan(ctx), stats)
    merge_notes(ctx, stats, t0)


def replay(ctx: Ctx, rp: dict):
    """re-execute the model configuration stored in a replay file"""
    set_texts(ctx)
    case = rp.get("case", {})
    if isinstance(case, dict) and "config" in case:
        stats = new_stats()
        t0 = time.time()
        run_models(ctx, [case["config"]], stats)
        merge_notes(ctx, stats, t0)
    else:
        run(ctx)
