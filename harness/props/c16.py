"""C16 - the autoregressive rollout feeds each prediction back correctly.

observation points: ml.autoregressive_step (returned MultiImage: key order + blocks),
  ml.autoregressive_map (returned MultiImage by key, returned aux_data, and the inputs the
  model callable is handed at every step: key order + blocks).
correspondence: the real functions against the Lean model (driver ops c16.step / c16.map), same
  inputs, exact integers; the model function of a rollout comes from a parametric family of
  history-sensitive integer maps that is implemented twice (here as the Python callable passed to
  ml.autoregressive_map, and in lean/Driver/C16.lean).  A malformed stream (prediction without a
  dynamic type, wrong channel count, non-dividing past_steps, too many constants, future_steps
  != 1, ...) is compared as rejected / accepted.
oracle: the property's sentence written directly in Python (explicit iteration of the model
  callable with `per channel: window[1:] + [prediction]`, constants in place, input key order;
  rollout = predictions in time order per channel), cross-checked against the Lean spec
  (c16.step_spec / c16.map_spec).
"""
from __future__ import annotations

import itertools

import numpy as np

from common import Ctx, DriverReject

D = 2
SPATIAL = (2, 2)
P = 65521  # prime < 2^16: every value is exactly representable in float32
KEY_POOL = [(0, 0), (1, 0), (0, 1), (1, 1), (2, 0)]


# ---------------------------------------------------------------------------------------------
# conversions


def frame_shape(key):
    return SPATIAL + (D,) * key[0]


def frame_size(key):
    return int(np.prod(frame_shape(key)))


# boundary flags of the multi images of the current case (the property's "input of step t+1 is the input of step t
# with ..." includes the image metadata: a model may depend on it); chosen per case from the case's own content
TORI = [(True, True), (False, False), (True, False)]
CUR = {"torus": (True, True)}


def to_mi(geom, items):
    """items: ordered list of (key, int ndarray (n, *frame_shape)) -> MultiImage (float32)"""
    import jax.numpy as jnp

    return geom.MultiImage({k: jnp.asarray(np.asarray(v), dtype=jnp.float32) for k, v in items}, D, CUR["torus"])


def meta_of(mi):
    t = mi.is_torus
    return (int(mi.D), tuple(bool(v) for v in (t if isinstance(t, (tuple, list)) else (t,) * D)))


def from_mi(mi):
    """MultiImage -> ordered list of (key, int64 ndarray); values must be integers"""
    out = []
    for k, v in mi.items():
        a = np.asarray(v)
        r = np.rint(a).astype(np.int64)
        if not np.array_equal(r.astype(a.dtype), a):
            raise ValueError(f"non-integer values in block {k}")
        out.append(((int(k[0]), int(k[1])), r))
    return out


def wire(items):
    return [[[int(k[0]), int(k[1])], [[int(v) for v in fr.reshape(-1)] for fr in blk]] for k, blk in items]


def unwire(j):
    out = []
    for k, frames in j:
        key = (int(k[0]), int(k[1]))
        out.append((key, np.array(frames, dtype=np.int64).reshape((len(frames),) + frame_shape(key))))
    return out


def same_ordered(a, b):
    return len(a) == len(b) and all(
        ka == kb and va.shape == vb.shape and np.array_equal(va, vb) for (ka, va), (kb, vb) in zip(a, b)
    )


def same_bykey(a, b):
    da, db = dict(a), dict(b)
    return (
        len(da) == len(a)
        and len(db) == len(b)
        and set(da) == set(db)
        and all(da[k].shape == db[k].shape and np.array_equal(da[k], db[k]) for k in da)
    )


def wire_consts(consts):
    return [[[int(k[0]), int(k[1])], int(n)] for k, n in consts.items()]


# ---------------------------------------------------------------------------------------------
# the model family (Python side; the Lean side is Driver.C16.famApply)


def adapt(fr, ks, kt):
    if ks <= kt:
        return np.broadcast_to(fr.reshape(fr.shape + (1,) * (kt - ks)), fr.shape + (D,) * (kt - ks))
    return fr.sum(axis=tuple(range(fr.ndim - (ks - kt), fr.ndim)))


META = []  # (D, is_torus) of every input handed to the model of the current rollout


def flag_module(fn):
    """the same model as an eqx.Module carrying an `inference` switch that is OFF and changes the prediction when
    ON: the rollout has to apply the model it was given, not a copy put into another mode"""
    import equinox as eqx

    class Flagged(eqx.Module):
        inference: bool
        fn: object = eqx.field(static=True)

        def __call__(self, x, aux):
            out, aux2 = self.fn(x, aux)
            if self.inference:
                out = type(out)({k: v + 1.0 for k, v in out.items()}, out.D, out.is_torus)
            return out, aux2

    return Flagged(False, fn)


def make_model(geom, spec, seen=None):
    """callable (x: MultiImage, aux) -> (MultiImage, aux'); records every input it is handed"""

    def term_frame(x, keys, t):
        key = keys[t["src"]] if isinstance(t["src"], int) else tuple(t["src"])
        blk = np.rint(np.asarray(x[key])).astype(np.int64)
        if t["idx"] >= blk.shape[0]:
            raise IndexError("model family: frame index out of range")
        return key[0], blk[t["idx"]]

    def model(x, aux):
        if seen is not None:
            seen.append(from_mi(x))
            META.append(meta_of(x))
        s = int(aux)
        keys = list(x.keys())
        outs = []
        for o in spec["outs"]:
            ko = tuple(o["key"])
            chans = []
            for c in o["channels"]:
                tot = np.full(frame_shape(ko), c["bias"] + c["scoef"] * s, dtype=np.int64)
                for t in c["terms"]:
                    ks, fr = term_frame(x, keys, t)
                    tot = tot + t["w"] * adapt(fr, ks, ko[0])
                chans.append(tot % P)
            outs.append((ko, np.stack(chans)))
        s2 = spec["state"]["a"] * s + spec["state"]["b"]
        for t in spec["state"]["terms"]:
            _, fr = term_frame(x, keys, t)
            s2 += t["w"] * int(fr.sum())
        r = s % len(outs) if (spec["rot"] and outs) else 0
        outs = outs[r:] + outs[:r]
        return to_mi(geom, outs), int(s2 % P)

    return model


# ---------------------------------------------------------------------------------------------
# the oracle: the sentence of the property


def oracle_step(x_items, pred, past, consts):
    new = []
    for key, blk in x_items:  # original type order
        m = consts.get(key, 0)
        c = (len(blk) - m) // past
        frames = []
        for i in range(c):
            window = [blk[i * past + j] for j in range(past)]
            frames += window[1:] + [pred[key][i]]  # oldest dropped, prediction is the newest
        frames += [blk[c * past + q] for q in range(m)]  # constants untouched, in place
        new.append((key, np.stack(frames)))
    return new


def oracle_rollout(geom, spec, x_items, s, n, past, consts):
    model = make_model(geom, spec)
    preds, inputs = [], [x_items]
    for _ in range(n):
        p, s = model(to_mi(geom, x_items), s)
        p = dict(from_mi(p))
        preds.append(p)
        x_items = oracle_step(x_items, p, past, consts)
        inputs.append(x_items)
    out = []
    if n > 0:
        for key in preds[0]:
            c = len(preds[0][key])
            out.append((key, np.stack([preds[t][key][i] for i in range(c) for t in range(n)])))
    return out, s, inputs


# ---------------------------------------------------------------------------------------------
# generators


def gen_config(rng, past=None, n=None):
    T = int(rng.choice([1, 2, 2, 3, 3, 3, 4]))
    keys = [KEY_POOL[i] for i in rng.permutation(len(KEY_POOL))[:T]]
    past = int(rng.integers(1, 5)) if past is None else past
    types = []
    for i, key in enumerate(keys):
        kind = ["both", "dyn", "const"][int(rng.integers(3))] if i > 0 else ["both", "dyn"][int(rng.integers(2))]
        c = 0 if kind == "const" else int(rng.integers(1, 4))
        m = 0 if kind == "dyn" else int(rng.integers(1, 3))
        types.append({"key": key, "c": c, "m": m})
    n = int(rng.choice([0, 1, 2, 3, 3, 4, 5, 5])) if n is None else n
    return {"types": types, "past": past, "n": n}


def gen_x(rng, cfg, order):
    items = []
    for i in order:
        t = cfg["types"][i]
        L = t["c"] * cfg["past"] + t["m"]
        items.append((t["key"], rng.integers(0, 10, size=(L,) + frame_shape(t["key"])).astype(np.int64)))
    return items


def gen_consts(rng, cfg):
    consts = {}
    for t in cfg["types"]:
        if t["m"] > 0:
            consts[t["key"]] = t["m"]
        elif rng.integers(3) == 0:
            consts[t["key"]] = 0  # an explicit 0 is the same as no entry
    if rng.integers(3) == 0:
        absent = [k for k in KEY_POOL if k not in [t["key"] for t in cfg["types"]]]
        if absent:
            consts[absent[0]] = 1  # an entry for a type the input does not have is ignored
    return consts


def gen_model(rng, cfg, order, bypos):
    past, types = cfg["past"], cfg["types"]
    pos = {types[i]["key"]: p for p, i in enumerate(order)}

    def src(key):
        return pos[key] if bypos else list(key)

    outs = []
    for tix, t in enumerate(types):
        extra = t["c"] == 0 and rng.integers(3) == 0  # predict a constant-only type too (ignored by the step)
        nch = t["c"] if t["c"] > 0 else (int(rng.integers(1, 3)) if extra else 0)
        if nch == 0:
            continue
        chans = []
        for ch in range(nch):
            terms = []
            if t["c"] > 0:
                for j in range(past):  # weights 1, 10, 100, ... on the window positions
                    terms.append({"src": src(t["key"]), "idx": ch * past + j, "w": 10**j * (ch + 1) + tix})
            for q in range(t["m"]):  # 1000 on the constants
                terms.append({"src": src(t["key"]), "idx": t["c"] * past + q, "w": 1000 * (q + 1) + ch + 7 * tix})
            if len(types) > 1 and rng.integers(2) == 0:  # mix in another type
                o = types[int(rng.integers(len(types)))]
                L = o["c"] * past + o["m"]
                for idx in sorted(set(int(v) for v in rng.integers(0, L, size=2))):
                    terms.append({"src": src(o["key"]), "idx": idx, "w": 7 * 10 ** (idx % 4) + 3 + ch})
            chans.append({"bias": int(rng.integers(0, 50)), "scoef": int(rng.choice([0, 1, 13])), "terms": terms})
        outs.append({"key": list(t["key"]), "size": frame_size(t["key"]), "channels": chans})
    if rng.integers(4) == 0:  # a predicted type the input does not have at all
        absent = [k for k in KEY_POOL if k not in pos]
        if absent:
            o = types[0]
            outs.append({"key": list(absent[-1]), "size": frame_size(absent[-1]), "channels": [
                {"bias": 5, "scoef": 1, "terms": [{"src": src(o["key"]), "idx": 0, "w": 3}]}]})
    outs = [outs[i] for i in rng.permutation(len(outs))]
    t0 = types[int(rng.integers(len(types)))]
    L0 = t0["c"] * past + t0["m"]
    state = {"a": int(rng.choice([1, 3])), "b": int(rng.integers(0, 6)),
             "terms": [{"src": src(t0["key"]), "idx": int(rng.integers(L0)), "w": int(rng.integers(1, 4))}]}
    return {"P": P, "D": D, "rot": bool(rng.integers(2)), "outs": outs, "state": state}


# ---------------------------------------------------------------------------------------------
# one rollout case


def check_rollout(ctx: Ctx, case, count=True):
    import ginjax.geometric as geom
    import ginjax.ml as ml

    past, n, s0, spec = case["past"], case["n"], case["s"], case["model"]
    consts = {(k[0], k[1]): m for k, m in case["consts"]}
    x_items = unwire(case["x"])
    nontriv = n >= 2 and past >= 2 and len(x_items) >= 2
    if count:
        ctx.case(("rollout", case), nontriv, sample={k: case[k] for k in ("past", "n", "consts", "s")}
                 | {"types": [[k, len(b)] for k, b in case["x"]], "rot": spec["rot"]})
    # --- implementation
    seen = []
    impl_err = None
    CUR["torus"] = TORI[(past + n + len(x_items)) % 3]
    ctx.hist("is_torus", str(CUR["torus"]))
    del META[:]
    out_meta = None
    try:
        mdl = make_model(geom, spec, seen)
        if (past + 2 * n + len(x_items)) % 3 == 0:
            mdl = flag_module(mdl)
            ctx.hist("model_with_inference_switch", 1)
        out_mi, aux = ml.autoregressive_map(mdl, to_mi(geom, x_items), s0, past, n, dict(consts))
        impl_out, impl_s = from_mi(out_mi), int(aux)
        out_meta = meta_of(out_mi)
    except Exception as e:  # noqa: BLE001
        impl_err = f"{type(e).__name__}: {str(e)[:200]}"
    # --- Lean model
    req = dict(past=past, consts=case["consts"], x=case["x"], s=s0, n=n, model=spec)
    try:
        mo = ctx.driver.call("c16.map", **req)
        model_out, model_s = unwire(mo["out"]), mo["state"]
        model_rej = False
    except DriverReject as e:
        if "harness" in str(e):
            raise RuntimeError(f"C16 generator produced an ill-formed model family: {e}")
        model_rej = True
    if case.get("malformed"):
        # nothing is pinned by the property here: only rejected/accepted is compared
        if (impl_err is not None) != model_rej:
            ctx.violation("correspondence", "rollout on a malformed input: implementation and Lean model disagree on rejection",
                          dict(case, impl_error=impl_err, model_rejected=model_rej))
        return
    # --- oracle (explicit iteration) and its Lean counterpart
    orc_out, orc_s, orc_inputs = oracle_rollout(geom, spec, x_items, s0, n, past, consts)
    sp = ctx.driver.call("c16.map_spec", **req)
    if not (same_ordered(unwire(sp["out"]), orc_out) and sp["state"] == orc_s
            and len(sp["inputs"]) == len(orc_inputs)
            and all(same_ordered(unwire(a), b) for a, b in zip(sp["inputs"], orc_inputs))):
        ctx.violation("correspondence", "python oracle (explicit iteration) differs from Lean spec specRollout/iterate",
                      dict(case, lean_spec=sp, oracle_out=wire(orc_out), oracle_state=orc_s))
    expected = {"out": wire(orc_out), "state": orc_s, "inputs": [wire(i) for i in orc_inputs[:n]]}
    if impl_err is not None:
        ctx.violation("oracle", "ml.autoregressive_map raised on a well-formed rollout",
                      dict(case, impl_error=impl_err, expected=expected))
        return
    bad = []
    if not same_bykey(impl_out, orc_out):
        bad.append("the returned rollout is not the n predictions in time order per channel")
    if impl_s != orc_s:
        bad.append("returned aux_data is not the state after n applications")
    if len(seen) != n or not all(same_ordered(a, b) for a, b in zip(seen, orc_inputs)):
        bad.append("an input handed to the model is not the sliding-window update of the previous one "
                   "(window order, constants or type order)")
    want_meta = (D, CUR["torus"])
    if any(m != want_meta for m in META) or out_meta != want_meta:
        bad.append(f"D / boundary flags are not carried through the rollout: inputs handed to the model have {META}, "
                   f"the returned rollout {out_meta}, the initial input {want_meta}")
    if bad:
        ctx.violation("oracle", "; ".join(bad),
                      dict(case, is_torus=list(CUR["torus"]),
                           impl={"out": wire(impl_out), "state": impl_s, "inputs": [wire(i) for i in seen]},
                           expected=expected))
        return
    if model_rej or not same_bykey(impl_out, model_out) or impl_s != model_s:
        ctx.violation("correspondence", "ml.autoregressive_map differs from Lean model autoregressiveMap",
                      dict(case, impl={"out": wire(impl_out), "state": impl_s},
                           model=("rejected" if model_rej else {"out": wire(model_out), "state": model_s})))


# ---------------------------------------------------------------------------------------------
# one direct step case


def check_step(ctx: Ctx, case, count=True):
    import ginjax.geometric as geom
    import ginjax.ml as ml

    past, future = case["past"], case.get("future", 1)
    consts = {(k[0], k[1]): m for k, m in case["consts"]}
    x_items, p_items = unwire(case["input"]), unwire(case["output"])
    if count:
        ctx.case(("step", case), past >= 2 and len(x_items) >= 2,
                 sample={k: case[k] for k in ("past", "consts")} | {"types": [[k, len(b)] for k, b in case["input"]]}
                 if not case.get("malformed") else None)
    impl_err = None
    CUR["torus"] = TORI[(past + len(x_items)) % 3]
    step_meta = None
    try:
        args = [to_mi(geom, x_items), to_mi(geom, p_items), past, dict(consts)]
        if "future" in case:
            args.append(future)
        step_mi = ml.autoregressive_step(*args)
        impl = from_mi(step_mi)
        step_meta = meta_of(step_mi)
    except Exception as e:  # noqa: BLE001
        impl_err = f"{type(e).__name__}: {str(e)[:200]}"
    try:
        model = unwire(ctx.driver.call("c16.step", past=past, consts=case["consts"], input=case["input"],
                                       output=case["output"], future=future))
        model_rej = False
    except DriverReject:
        model_rej = True
    if case.get("malformed"):
        if (impl_err is not None) != model_rej:
            ctx.violation("correspondence", "step on a malformed input: implementation and Lean model disagree on rejection",
                          dict(case, impl_error=impl_err, model_rejected=model_rej))
        return
    orc = oracle_step(x_items, dict(p_items), past, consts)
    sp = unwire(ctx.driver.call("c16.step_spec", past=past, consts=case["consts"], input=case["input"],
                                output=case["output"]))
    if not same_ordered(sp, orc):
        ctx.violation("correspondence", "python oracle (sliding window) differs from Lean spec specStep",
                      dict(case, lean_spec=wire(sp), oracle=wire(orc)))
    if impl_err is not None:
        ctx.violation("oracle", "ml.autoregressive_step raised on a well-formed input",
                      dict(case, impl_error=impl_err, expected=wire(orc)))
        return
    if not same_ordered(impl, orc):
        what = ("type order of the new input differs from the input's" if [k for k, _ in impl] != [k for k, _ in orc]
                else "new input is not `per channel window[1:] + [prediction]` with the constants in place")
        ctx.violation("oracle", "ml.autoregressive_step: " + what, dict(case, impl=wire(impl), expected=wire(orc)))
        return
    if (past + 3 * len(x_items)) % 4 == 1:
        # the window stored in a narrower dtype (int32) than the prediction (float32, half-integers): the fed-back
        # value is the prediction itself
        import jax.numpy as jnp
        try:
            xi = geom.MultiImage({k: jnp.asarray(np.asarray(v), dtype=jnp.int32) for k, v in x_items}, D, CUR["torus"])
            pf = geom.MultiImage({k: jnp.asarray(np.asarray(v) + 0.5, dtype=jnp.float32) for k, v in p_items}, D, CUR["torus"])
            a2 = [xi, pf, past, dict(consts)] + ([future] if "future" in case else [])
            got = {(int(k[0]), int(k[1])): np.rint(2 * np.asarray(v, dtype=np.float64)).astype(np.int64)
                   for k, v in ml.autoregressive_step(*a2).items()}
            # expected: the integer oracle with doubled values, predictions doubled + 1
            want = dict(oracle_step([(k, 2 * np.asarray(v)) for k, v in x_items],
                                    {k: 2 * np.asarray(v) + 1 for k, v in p_items}, past, consts))
            ctx.hist("int32_window_float_prediction", 1)
            if set(got) != set(want) or any(got[k].shape != want[k].shape or not np.array_equal(got[k], want[k]) for k in want):
                ctx.violation("oracle", "ml.autoregressive_step: with an int32 window and float32 half-integer predictions the "
                                        "new input does not hold the predictions themselves", dict(case, window_dtype="int32"))
                return
        except Exception as e:  # noqa: BLE001
            ctx.violation("oracle", "ml.autoregressive_step raised on an int32 window with float32 predictions",
                          dict(case, window_dtype="int32", impl_error=f"{type(e).__name__}: {str(e)[:200]}"))
            return
    if step_meta != (D, CUR["torus"]):
        ctx.violation("oracle", f"ml.autoregressive_step: the new input has (D, is_torus) = {step_meta}, the input had "
                                f"{(D, CUR['torus'])}", dict(case, is_torus=list(CUR["torus"])))
        return
    if model_rej or not same_ordered(impl, model):
        ctx.violation("correspondence", "ml.autoregressive_step differs from Lean model autoregressiveStep",
                      dict(case, impl=wire(impl), model=("rejected" if model_rej else wire(model))))


# ---------------------------------------------------------------------------------------------
# streams


def orders_of(rng, T, all_orders, cap):
    perms = list(itertools.permutations(range(T)))
    if all_orders or len(perms) <= cap:
        return perms
    return [perms[i] for i in sorted(rng.choice(len(perms), size=cap, replace=False))]


def gen_output(rng, cfg, shuffle=True, extra=True):
    """a prediction for a direct step: one frame per dynamic channel, random key order, sometimes an
    extra type (constant-only or foreign) that the step has to ignore"""
    items = []
    for t in cfg["types"]:
        if t["c"] > 0:
            items.append((t["key"], rng.integers(100, 1000, size=(t["c"],) + frame_shape(t["key"])).astype(np.int64)))
        elif extra and rng.integers(3) == 0:
            items.append((t["key"], rng.integers(100, 1000, size=(2,) + frame_shape(t["key"])).astype(np.int64)))
    if extra and rng.integers(4) == 0:
        absent = [k for k in KEY_POOL if k not in [t["key"] for t in cfg["types"]]]
        if absent:
            items.append((absent[0], rng.integers(100, 1000, size=(1,) + frame_shape(absent[0])).astype(np.int64)))
    if shuffle:
        items = [items[i] for i in rng.permutation(len(items))]
    return items


def rollout_stream(ctx: Ctx, n_cfg, all_orders, cap):
    rng = ctx.rng
    for ci in range(n_cfg):
        # the first configurations sweep (past, n) so that every value occurs in every run
        cfg = gen_config(rng, past=1 + ci % 4 if ci < 8 else None, n=(1 + (ci * 3) % 5) if ci < 8 else None)
        consts = gen_consts(rng, cfg)
        T = len(cfg["types"])
        for oi, order in enumerate(orders_of(rng, T, all_orders, cap)):
            bypos = bool((ci + oi) % 2)
            spec = gen_model(rng, cfg, order, bypos)
            x_items = gen_x(rng, cfg, order)
            case = {"kind": "rollout", "past": cfg["past"], "n": cfg["n"], "s": int(rng.integers(0, 5)),
                    "consts": wire_consts(consts), "x": wire(x_items), "model": spec}
            ctx.hist("past", cfg["past"])
            ctx.hist("n", cfg["n"])
            ctx.hist("types", T)
            ctx.hist("model_addresses_by", "position" if bypos else "key")
            ctx.hist("kinds", "+".join(sorted({("const-only" if t["c"] == 0 else "dyn-only" if t["m"] == 0 else "dyn+const")
                                                 for t in cfg["types"]})))
            check_rollout(ctx, case)
            # the same input through one direct step with an arbitrary prediction
            out_items = gen_output(rng, cfg)
            check_step(ctx, {"kind": "step", "past": cfg["past"], "consts": wire_consts(consts),
                             "input": wire(x_items), "output": wire(out_items)})


def malformed_stream(ctx: Ctx, reps):
    rng = ctx.rng
    for _ in range(reps):
        cfg = gen_config(rng, past=int(rng.integers(2, 4)), n=2)
        # make sure there is a type with dynamic part and constants
        cfg["types"][0].update(c=int(rng.integers(1, 3)), m=1)
        consts = {t["key"]: t["m"] for t in cfg["types"] if t["m"] > 0}
        order = list(range(len(cfg["types"])))
        x_items = gen_x(rng, cfg, order)
        good = gen_output(rng, cfg, shuffle=False, extra=False)
        t0 = cfg["types"][0]
        base = {"kind": "step", "past": cfg["past"], "consts": wire_consts(consts), "input": wire(x_items),
                "output": wire(good), "malformed": True}
        variants = []
        variants.append(("missing-dynamic-type", dict(base, output=wire(good[1:]))))
        wrong = [(k, np.concatenate([v, v[:1]])) if k == t0["key"] else (k, v) for k, v in good]
        variants.append(("wrong-channel-count", dict(base, output=wire(wrong))))
        L0 = len(x_items[0][1])
        if (L0 - 1) % (cfg["past"] + 1) != 0:
            variants.append(("past-not-dividing", dict(base, past=cfg["past"] + 1)))
        c2 = dict(consts)
        c2[t0["key"]] = L0 + 1
        variants.append(("too-many-constants", dict(base, consts=wire_consts(c2))))
        c3 = dict(consts)
        c3[t0["key"]] = -1
        variants.append(("negative-constants", dict(base, consts=wire_consts(c3))))
        variants.append(("future-steps-2", dict(base, future=2)))
        variants.append(("past-0", dict(base, past=0)))
        # well-formed with the keyword given explicitly: must be accepted and correct
        ok = dict(base, future=1)
        del ok["malformed"]
        ctx.hist("malformed", "none(future=1 explicit)")
        check_step(ctx, ok)
        for name, case in variants:
            ctx.hist("malformed", name)
            check_step(ctx, case)
        # a rollout whose model returns one channel too many for a dynamic type
        spec = gen_model(rng, cfg, order, False)
        for o in spec["outs"]:
            if tuple(o["key"]) == t0["key"]:
                o["channels"] = o["channels"] + o["channels"][:1]
        ctx.hist("malformed", "rollout-wrong-channel-count")
        check_rollout(ctx, {"kind": "rollout", "past": cfg["past"], "n": 2, "s": 1, "consts": wire_consts(consts),
                            "x": wire(x_items), "model": spec, "malformed": True})


def fixed_cases(ctx: Ctx):
    """the layout of the library's own tests and the corner cases named in the property"""
    rng = np.random.Generator(np.random.PCG64(12345))
    # scalar type with 2 channels x 4 past steps + 1 constant, vector type 1 channel + 1 constant,
    # pseudo-scalar constant-only, past_steps = 4, 5 steps
    cfg = {"past": 4, "n": 5, "types": [{"key": (0, 0), "c": 2, "m": 1}, {"key": (1, 0), "c": 1, "m": 1},
                                          {"key": (0, 1), "c": 0, "m": 2}]}
    consts = {(0, 0): 1, (1, 0): 1, (0, 1): 2}
    for order in itertools.permutations(range(3)):
        for bypos in (False, True):
            spec = gen_model(rng, cfg, order, bypos)
            x_items = gen_x(rng, cfg, order)
            check_rollout(ctx, {"kind": "rollout", "past": 4, "n": 5, "s": 2, "consts": wire_consts(consts),
                                "x": wire(x_items), "model": spec})
    # an input of constant-only types: the step hands it back unchanged, whatever is predicted
    cx = [((0, 1), rng.integers(0, 10, size=(2,) + frame_shape((0, 1))).astype(np.int64)),
          ((1, 0), rng.integers(0, 10, size=(1,) + frame_shape((1, 0))).astype(np.int64))]
    cconsts = {(0, 1): 2, (1, 0): 1}
    for out in ([], [((0, 0), rng.integers(0, 10, size=(2,) + frame_shape((0, 0))).astype(np.int64))]):
        check_step(ctx, {"kind": "step", "past": 3, "consts": wire_consts(cconsts), "input": wire(cx),
                         "output": wire(out)})
    cspec = {"P": P, "D": D, "rot": False, "state": {"a": 3, "b": 1, "terms": [{"src": [1, 0], "idx": 0, "w": 2}]},
             "outs": [{"key": [0, 0], "size": 4, "channels": [
                 {"bias": 1, "scoef": 13, "terms": [{"src": [0, 1], "idx": 1, "w": 1000}, {"src": [1, 0], "idx": 0, "w": 7}]},
                 {"bias": 2, "scoef": 1, "terms": [{"src": 0, "idx": 0, "w": 1001}]}]}]}
    check_rollout(ctx, {"kind": "rollout", "past": 3, "n": 3, "s": 1, "consts": wire_consts(cconsts),
                        "x": wire(cx), "model": cspec})
    # no rollout at all: the result is the empty MultiImage
    spec = gen_model(rng, cfg, (0, 1, 2), False)
    check_rollout(ctx, {"kind": "rollout", "past": 4, "n": 0, "s": 2, "consts": wire_consts(consts),
                        "x": wire(gen_x(rng, cfg, (0, 1, 2))), "model": spec})


# (past, [(key, total channels, [(dynamic fields c, constant fields m), ...]), ...]): per type every split has
# c * past + m = total channels, so all the inputs of one group have the SAME signature (types, channel counts)
SPLIT_GROUPS = [
    (2, [((0, 0), 6, [(2, 2), (3, 0), (1, 4)]), ((1, 0), 2, [(1, 0), (1, 0), (1, 0)])]),
    (1, [((0, 0), 3, [(1, 2), (3, 0), (2, 1)]), ((1, 0), 3, [(2, 1), (3, 0), (1, 2)])]),
    (3, [((1, 0), 7, [(2, 1), (1, 4)]), ((0, 1), 3, [(1, 0), (0, 3)])]),
    (2, [((0, 0), 5, [(2, 1), (1, 3)]), ((1, 1), 4, [(2, 0), (1, 2)]), ((0, 1), 2, [(0, 2), (1, 0)])]),
    (4, [((2, 0), 9, [(2, 1), (1, 5)]), ((0, 0), 4, [(1, 0), (1, 0)])]),
    (1, [((0, 0), 2, [(2, 0), (1, 1)])]),
]


def split_family(ctx: Ctx):
    """same signature, different dynamic/constant split, consecutive calls in one process: the window update is a
    function of (input, prediction, past_steps, constant_fields_dict) alone, not of what was called before with an
    input of the same shape.  Every group is run on two signatures (the type insertion order and its reverse), the
    splits once in the listed order and once in the opposite order; every call is judged by check_step /
    check_rollout (oracle = the property's sentence, cross-checked against the Lean spec).  A violation carries the
    earlier calls of its sequence as `preceded_by`, so that the replay re-creates the process history."""
    rng = ctx.rng
    for gi, (past, types) in enumerate(SPLIT_GROUPS):
        n_split = len(types[0][2])
        for rev in (False, True):
            order = tuple(range(len(types)))[::-1] if rev else tuple(range(len(types)))
            split_ids = list(range(n_split))[::-1] if rev else list(range(n_split))
            history = []
            for si in split_ids:
                cfg = {"past": past, "n": 3,
                       "types": [{"key": key, "c": sp[si][0], "m": sp[si][1]} for key, _, sp in types]}
                assert all(t["c"] * past + t["m"] == L for t, (_, L, _) in zip(cfg["types"], types))
                consts = {t["key"]: t["m"] for t in cfg["types"] if t["m"] > 0}
                x_items = gen_x(rng, cfg, order)
                step = {"kind": "step", "past": past, "consts": wire_consts(consts), "input": wire(x_items),
                        "output": wire(gen_output(rng, cfg, extra=False))}
                roll = {"kind": "rollout", "past": past, "n": 3, "s": int(rng.integers(0, 5)),
                        "consts": wire_consts(consts), "x": wire(x_items),
                        "model": gen_model(rng, cfg, order, bool((gi + si) % 2))}
                ctx.hist("split_family", f"past{past} " + " ".join(
                    f"{t['key']}:{L}={t['c']}x{past}+{t['m']}" for t, (_, L, _) in zip(cfg["types"], types)))
                for call, fn in ((step, check_step), (roll, check_rollout)):
                    n0 = len(ctx.violations)
                    fn(ctx, call)
                    for v in ctx.violations[n0:]:
                        v["case"] = dict(v["case"], family="same signature, different constant split, consecutive calls",
                                         preceded_by=list(history))
                        if history:
                            v["what"] += (f" [call {len(history) + 1} of a sequence of calls in one process whose inputs "
                                          "have the same signature and past_steps but another dynamic/constant split]")
                    history.append(call)


def run(ctx: Ctx):
    ctx.rule = (
        "rollouts through ml.autoregressive_map with a history-sensitive integer model (weights 1,10,100,.. on the "
        "window positions, 1000.. on the constants, different per channel and type, optional cross-type terms, a state "
        "(aux_data) that enters the prediction, output keys optionally rotated by the state; arithmetic mod 65521) "
        "addressing its input by key or by position; 1..4 tensor types out of {(0,0),(1,0),(0,1),(1,1),(2,0)} each "
        "dyn+const / dyn-only / const-only, 1..3 channels, 0..2 constants, past 1..4, n 0..5, every insertion order of "
        "the types, 2x2 frames (x 2^k tensor components), boundary flags (True,True)/(False,False)/(True,False) in turn "
        "(D and is_torus of every input handed to the model and of the results are compared with the initial input's); a third of the "
        "rollouts use the model as an eqx.Module with an `inference` switch that is off; a quarter of the steps are repeated with an "
        "int32 window and float32 half-integer predictions; each input also goes through one "
        "direct ml.autoregressive_step with a random prediction (shuffled keys, sometimes extra types); plus a "
        "malformed stream compared as rejected/accepted; plus a family 'same signature, different dynamic/constant split, "
        "consecutive calls in one process' (6 groups of (past, channel counts), 2-3 splits each, both call orders, one step "
        "and one 3-step rollout per split). Non-trivial = past >= 2 and >= 2 types (and n >= 2 for "
        "rollouts); distinct = distinct full input."
    )
    ctx.assumptions = [
        "blocks have exactly one leading (channel) axis; all frames of one tensor type have one shape; parities are 0/1",
        "frame values are integers < 2^24 so float32 holds them exactly",
        "the model is a function of (input, aux_data) that returns a MultiImage of non-empty blocks",
    ]
    ctx.trusted_extra = [
        "the parametric model family is implemented twice (props/c16.py make_model, Driver/C16.lean famApply); a common "
        "mistake in both would only weaken the history sensitivity, the oracle uses the Python one",
    ]
    quick = ctx.tier == "quick"
    fixed_cases(ctx)
    rollout_stream(ctx, 60 if quick else 500, all_orders=True, cap=24)
    malformed_stream(ctx, 3 if quick else 25)
    split_family(ctx)


def replay(ctx: Ctx, rep):
    case = rep.get("case", {})
    for prior in case.get("preceded_by", []):  # re-create the process history the case was observed in
        (check_rollout if prior.get("kind") == "rollout" else check_step)(ctx, prior, count=False)
    case = {k: v for k, v in case.items() if k in
            ("kind", "past", "n", "s", "consts", "x", "model", "input", "output", "future", "malformed")}
    if case.get("kind") == "rollout":
        check_rollout(ctx, case)
    elif case.get("kind") == "step":
        check_step(ctx, case)
    else:
        run(ctx)
