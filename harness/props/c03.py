"""C03 - the generated invariant filter family is invariant, independent and complete.

correspondence: `geom.get_unique_invariant_filters(M, k, p, D, ops)` against the Lean model
  `uniqueInvariantFilters` (driver op c03.family), both reduced to SETS of primitive integer vectors
  with positive leading entry (order and non-zero scale are left free by the property, so they are
  canonicalised away; if the two sets differ but span the same subspace with the same size that is
  only noted); the assembled `geom.get_invariant_filters` MultiImage against `assembleBank`
  (keys and block shapes, compared by key); `make_all_operators` / `make_C2_group` against the
  model's operator lists (as sets); the action used by the model (`act`, monomial form, and
  `actLit`, the literal dense formula) against the real `times_group_element` and `refs.act`.
oracle (on the implementation, exact in Q): every member is fixed by every group element under
  the reference action of refs.py; the rank of the family equals its size; the size equals the
  character formula (1/|G|) sum_g #fixedpixels(g) tr(g)^k det(g)^p evaluated independently here.
  Invariant + independent + size = dimension of the invariant subspace gives completeness.
converse ("reachable by weighting this family, and nothing non-equivariant is", theorems
  conv_equivariant_iff_filter_invariant / conv_equivariant_iff_mem_span_family): on a torus with
  extent >= dilated filter side, TORUS padding, through the real geom.convolve and the real
  times_group_element, exact integers: (a) for a filter C that is NOT G-invariant (one-hot entry with
  a non-trivial orbit, or a random integer filter) and a one-hot image A, for EVERY g in G:
  convolve(g.A, C) == g.convolve(A, C)  iff  g.C == C (reference action); (b) for a random integer
  combination of the generated family and a random integer image, equality for every g in G.
  Both sides are also compared with the Lean model (driver ops c04.conv spec on g.A, c01.rhs).
"""
from __future__ import annotations

import itertools
import math
import time
from fractions import Fraction

import numpy as np

import refs
from common import Ctx, DriverReject, jarr, log, unarr

TOL = 1e-5
PRIME = 2147483629  # < 2^31, products fit in int64


# ---------------------------------------------------------------------------------------------
# groups (closed operator lists)


def group_closed(ops) -> bool:
    keys = {tuple(np.asarray(g, dtype=np.int64).reshape(-1)) for g in ops}
    if len(keys) != len(ops) or not all(refs.is_signed_perm(g) for g in ops):
        return False  # the theorems need a duplicate-free list of signed permutations
    return all(
        tuple((np.asarray(a, dtype=np.int64) @ np.asarray(b, dtype=np.int64)).reshape(-1)) in keys
        for a in ops
        for b in ops
    )


def generated(gens, d):
    """closure of the generators under products (finite group, so this is the subgroup)"""
    elems = {tuple(np.eye(d, dtype=np.int64).reshape(-1)): np.eye(d, dtype=np.int64)}
    frontier = list(elems.values())
    while frontier:
        new = []
        for a in frontier:
            for g in gens:
                c = a @ np.asarray(g, dtype=np.int64)
                key = tuple(c.reshape(-1))
                if key not in elems:
                    elems[key] = c
                    new.append(c)
        frontier = new
    return list(elems.values())


def groups_for(geom, d):
    allops = [np.asarray(g, dtype=np.int64) for g in geom.make_all_operators(d)]
    out = {
        "B": allops,
        "SO": [g for g in allops if refs.det(g) == 1],
        "C2": [np.asarray(g, dtype=np.int64) for g in geom.make_C2_group(d)],
        "trivial": [np.eye(d, dtype=np.int64)],
    }
    rot = np.eye(d, dtype=np.int64)
    rot[:2, :2] = np.array([[0, -1], [1, 0]])
    out["C4"] = generated([rot], d)  # cyclic <rot90> (about the last axes' complement when d = 3)
    if d == 3:
        cyc = np.array([[0, 1, 0], [0, 0, 1], [1, 0, 0]], dtype=np.int64)
        out["C3"] = generated([cyc], d)  # cyclic permutation of the axes
    return out


# ---------------------------------------------------------------------------------------------
# exact helpers


def primitive(ints):
    g = 0
    for v in ints:
        g = math.gcd(g, abs(int(v)))
    if g == 0:
        return tuple(int(v) for v in ints)
    lead = next(v for v in ints if v != 0)
    s = 1 if lead > 0 else -1
    return tuple(s * int(v) // g for v in ints)


def rationalise(vec):
    """float vector -> primitive integer vector with positive leading entry, or None when the vector
    is not (within TOL) a real multiple of a small-denominator rational vector; 'zero' for 0."""
    v = np.asarray(vec, dtype=np.float64).reshape(-1)
    amax = float(np.max(np.abs(v))) if v.size else 0.0
    if not np.isfinite(amax):
        return None
    if amax == 0.0:
        return "zero"
    nz = np.nonzero(np.abs(v) > 1e-6 * amax)[0]
    w = v / v[nz[0]]
    fr = [Fraction(float(x)).limit_denominator(1024) if abs(x) > 1e-6 else Fraction(0) for x in w]
    if any(abs(float(f) - float(x)) > TOL for f, x in zip(fr, w)):
        return None
    den = 1
    for f in fr:
        den = den * f.denominator // math.gcd(den, f.denominator)
    return primitive([int(f * den) for f in fr])


def rank_mod_p(rows) -> int:
    a = np.array(rows, dtype=np.int64) % PRIME
    if a.size == 0:
        return 0
    n, m = a.shape
    r = 0
    for c in range(m):
        piv = None
        for i in range(r, n):
            if a[i, c] != 0:
                piv = i
                break
        if piv is None:
            continue
        a[[r, piv]] = a[[piv, r]]
        inv = pow(int(a[r, c]), PRIME - 2, PRIME)
        a[r] = (a[r] * inv) % PRIME
        for i in range(n):
            if i != r and a[i, c] != 0:
                a[i] = (a[i] - a[i, c] * a[r]) % PRIME
        r += 1
        if r == n:
            break
    return r


def rref_q(rows):
    """reduced row echelon form over Q (list of tuples of Fractions, zero rows removed)"""
    a = [[Fraction(int(x)) for x in r] for r in rows]
    n = len(a)
    m = len(a[0]) if n else 0
    r = 0
    for c in range(m):
        piv = next((i for i in range(r, n) if a[i][c] != 0), None)
        if piv is None:
            continue
        a[r], a[piv] = a[piv], a[r]
        pv = a[r][c]
        a[r] = [x / pv for x in a[r]]
        for i in range(n):
            if i != r and a[i][c] != 0:
                f = a[i][c]
                a[i] = [x - f * y for x, y in zip(a[i], a[r])]
        r += 1
        if r == n:
            break
    return [tuple(row) for row in a[:r]]


def rank_exact(rows) -> int:
    """rank over Q: full rank mod a prime implies full rank over Q; otherwise eliminate exactly"""
    if not rows:
        return 0
    r = rank_mod_p(rows)
    if r == len(rows):
        return r
    return len(rref_q(rows))


def fixed_pixels(g, M: int) -> int:
    """number of pixels x of the M^d grid with g.x = x, the pixel map being the rotation about the
    centre (M-1)/2 (doubled integer coordinates)"""
    g = np.asarray(g, dtype=np.int64)
    d = g.shape[0]
    n = 0
    for x in itertools.product(range(M), repeat=d):
        x2 = 2 * np.array(x, dtype=np.int64) - (M - 1)
        if np.array_equal(g @ x2, x2):
            n += 1
    return n


def character_count(ops, M, k, p):
    """(1/|G|) sum_g fix(g) tr(g)^k det(g)^p as a Fraction (independent of the library and of Lean)"""
    tot = 0
    for g in ops:
        tot += fixed_pixels(g, M) * int(np.trace(g)) ** k * refs.det(g) ** (p % 2)
    return Fraction(tot, len(ops))


# ---------------------------------------------------------------------------------------------
# one configuration


def impl_family(geom, ops, d, M, k, p):
    """the real family: list of float arrays + structural remarks"""
    fs = geom.get_unique_invariant_filters(M, k, p, d, [np.asarray(g) for g in ops])
    remarks = []
    want_shape = (M,) * d + (d,) * k
    vecs = []
    for f in fs:
        data = np.asarray(f.data)
        if tuple(data.shape) != want_shape or f.k != k or f.parity != p % 2 or f.D != d:
            remarks.append(
                f"member has shape {tuple(data.shape)}, k={f.k}, parity={f.parity}, D={f.D}"
            )
        vecs.append(data.astype(np.float64).reshape(-1))
    return vecs, remarks


def oracle_family(ops, d, M, k, p, vecs):
    """the property's sentence on a concrete family. returns (problems, info)"""
    problems = []
    want = character_count(ops, M, k, p)
    info = {"size": len(vecs), "character_formula": str(want)}
    shape = (M,) * d + (d,) * k
    ints = []
    exact = True
    for n, v in enumerate(vecs):
        r = rationalise(v)
        if r == "zero":
            problems.append(f"member {n} is the zero filter")
            ints.append(tuple([0] * len(v)))
        elif r is None:
            exact = False
            ints.append(None)
        else:
            ints.append(r)
    info["exact"] = exact
    if exact:
        for n, r in enumerate(ints):
            arr = np.array(r, dtype=np.int64).reshape(shape)
            for g in ops:
                if not np.array_equal(refs.act(arr, d, p, g), arr):
                    problems.append(
                        f"member {n} is not fixed by g={np.asarray(g).tolist()}"
                    )
                    break
        rk = rank_exact([list(r) for r in ints])
    else:
        # a family that is not a rescaling of rational vectors: decide in floating point
        mat = np.array(vecs, dtype=np.float64)
        for n, v in enumerate(vecs):
            arr = v.reshape(shape)
            for g in ops:
                if np.max(np.abs(refs.act(arr, d, p, g) - arr)) > 1e-4 * (1 + np.max(np.abs(arr))):
                    problems.append(f"member {n} is not fixed by g={np.asarray(g).tolist()} (float)")
                    break
        rk = int(np.linalg.matrix_rank(mat, tol=1e-4)) if len(vecs) else 0
    info["rank"] = rk
    if rk != len(vecs):
        problems.append(f"family of {len(vecs)} members has rank {rk}: not linearly independent")
    if want.denominator != 1:
        problems.append(f"character formula is not an integer ({want}): operator list is not a group")
    elif len(vecs) != want:
        problems.append(
            f"family has {len(vecs)} members, the invariant subspace has dimension {want}"
            + (": incomplete" if len(vecs) < want else "")
        )
    return problems, info, ints


def same_span(a_rows, b_rows) -> bool:
    return sorted(rref_q(a_rows)) == sorted(rref_q(b_rows))


def run_config(ctx: Ctx, geom, gname, ops, d, M, k, p, control=False):
    opsj = [np.asarray(g).astype(int).tolist() for g in ops]
    case = {"group": gname, "D": d, "M": M, "k": k, "parity": p, "operators": opsj}
    t0 = time.time()
    try:
        vecs, remarks = impl_family(geom, ops, d, M, k, p)
    except Exception as e:  # the implementation must accept every closed operator list
        if control:
            return {"detected": True, "problems": [f"raised {type(e).__name__}"]}
        ctx.case((gname, d, M, k, p), False)
        ctx.violation("oracle", f"get_unique_invariant_filters raised {type(e).__name__}: {e}", case)
        return None
    t_impl = time.time() - t0
    problems, info, ints = oracle_family(ops, d, M, k, p, vecs)
    problems = remarks + problems
    if control:
        return {"detected": bool(problems), "problems": problems[:3]}
    mod = ctx.driver.call("c03.family", d=d, M=M, k=k, p=p, ops=opsj)
    model_set = {tuple(r) for r in mod["family"]}
    want = character_count(ops, M, k, p)
    dim_total = M**d * d**k
    nontrivial = len(ops) > 1 and want >= 1 and want < dim_total
    sample = {
        "group": gname, "order": len(ops), "D": d, "M": M, "k": k, "parity": p,
        "size_impl": len(vecs), "size_model": len(mod["family"]),
        "character_formula": str(want), "rank": info["rank"],
        "first_member": list(ints[0]) if ints and ints[0] is not None else None,
    }
    ctx.case((gname, d, M, k, p), nontrivial, sample=sample if nontrivial and M >= 3 and k >= 1 else None)
    ctx.hist("group", f"{gname}_{d}")
    ctx.hist("D", d)
    ctx.hist("M", M)
    ctx.hist("k", k)
    ctx.hist("parity", p)
    ctx.hist("family_size", len(vecs))
    ctx.hist("expected_empty", want == 0)
    ctx.notes["impl_seconds"] = round(ctx.notes.get("impl_seconds", 0.0) + t_impl, 2)
    if want == 0:
        ctx.notes["empty_family_expected_cases"] = ctx.notes.get("empty_family_expected_cases", 0) + 1
    else:
        ctx.notes["nonempty_family_cases"] = ctx.notes.get("nonempty_family_cases", 0) + 1
    case.update({"impl_size": len(vecs), "model_size": len(mod["family"]), "oracle": info})
    if problems:
        case["problems"] = problems[:10]
        case["impl_family"] = [list(r) if r is not None else None for r in ints][:40]
        ctx.violation("oracle", "; ".join(problems[:3]), case)
        return None
    # the model must itself satisfy the count (it is the object of the theorems)
    if len(model_set) != len(mod["family"]) or len(mod["family"]) != want or mod["character_sum"] != want * len(ops):
        case["model_family"] = mod["family"][:40]
        case["model_character_sum"] = mod["character_sum"]
        ctx.violation("correspondence", "Lean model family size differs from the character formula", case)
        return None
    if info["exact"]:
        impl_set = set(ints)
        if impl_set != model_set:
            if len(impl_set) == len(model_set) and same_span([list(r) for r in ints], mod["family"]):
                ctx.notes["different_basis_same_span"] = ctx.notes.get("different_basis_same_span", 0) + 1
            else:
                case["impl_family"] = [list(r) for r in ints][:40]
                case["model_family"] = mod["family"][:40]
                ctx.violation("correspondence", "family differs from the Lean model uniqueInvariantFilters (as a set of primitive vectors and as a span)", case)
    else:
        # not rational multiples: compare spans numerically (every model vector in the impl span)
        a = np.array(vecs, dtype=np.float64).T
        b = np.array(mod["family"], dtype=np.float64).T
        res = b - a @ np.linalg.lstsq(a, b, rcond=None)[0] if len(vecs) else b
        if res.size and np.max(np.abs(res)) > 1e-4:
            ctx.violation("correspondence", "family spans a different subspace than the Lean model (float comparison)", case)
        else:
            ctx.notes["different_basis_same_span"] = ctx.notes.get("different_basis_same_span", 0) + 1
    return ints


# ---------------------------------------------------------------------------------------------
# assembled bank


def run_bank(ctx: Ctx, geom, gname, ops, d, M, ks, ps):
    opsj = [np.asarray(g).astype(int).tolist() for g in ops]
    case = {"group": gname, "D": d, "Ms": [M], "ks": ks, "parities": ps, "operators": opsj}
    expected = {}
    for k in ks:
        for p in ps:
            n = character_count(ops, M, k, p)
            if n > 0:
                expected[(k, p % 2)] = expected.get((k, p % 2), 0) + int(n)
    try:
        model = ctx.driver.call("c03.bank", d=d, ops=opsj, Ms=[M], ks=ks, ps=ps)
        model_blocks = {(e[0], e[1]): (e[2],) + (e[3],) * d + (d,) * e[0] for e in model}
    except DriverReject:
        model_blocks = None
    try:
        mi = geom.get_invariant_filters([M], ks, ps, d, [np.asarray(g) for g in ops])
        impl_blocks = {tuple(key): tuple(np.asarray(v).shape) for key, v in mi.items()}
        data = {tuple(key): np.asarray(v, dtype=np.float64) for key, v in mi.items()}
        mi_d = mi.D
    except AssertionError:
        impl_blocks, data, mi_d = None, {}, d
    ctx.case(("bank", gname, d, M, tuple(ks), tuple(ps)), len(ops) > 1 and len(expected) > 1,
             sample={"bank": True, "group": gname, "D": d, "M": M, "ks": ks, "parities": ps,
                     "blocks": {str(k_): list(v) for k_, v in (impl_blocks or {}).items()}})
    ctx.hist("bank", f"{gname}_{d}")
    want_blocks = {key: (n,) + (M,) * d + (d,) * key[0] for key, n in expected.items()} or None
    case.update({"impl_blocks": str(impl_blocks), "expected_blocks": str(want_blocks), "model_blocks": str(model_blocks)})
    if impl_blocks != want_blocks or mi_d != d:
        ctx.violation("oracle", "get_invariant_filters: block keys/shapes differ from (dimension of the invariant subspace,) + (M,)*D + (D,)*k per type", case)
        return
    if model_blocks != impl_blocks:
        ctx.violation("correspondence", "get_invariant_filters blocks differ from Lean assembleBank", case)
        return
    # the rows of every block must be invariant, independent (count already equals the dimension)
    for (k, p), block in data.items():
        vecs = [block[n].reshape(-1) for n in range(block.shape[0])]
        problems, info, _ = oracle_family_block(ops, d, M, k, p, vecs, ks, ps)
        if problems:
            case["problems"] = problems[:5]
            case["block"] = [k, p]
            ctx.violation("oracle", f"get_invariant_filters block {(k, p)}: " + "; ".join(problems[:2]), case)
            return


def oracle_family_block(ops, d, M, k, p, vecs, ks, ps):
    """like oracle_family, with the expected size summed over the requested parities that fold to p"""
    problems, info, ints = oracle_family(ops, d, M, k, p, vecs)
    mult = sum(1 for q in ps if q % 2 == p) * sum(1 for kk in ks if kk == k)
    if mult != 1:
        problems = [x for x in problems if "members, the invariant subspace" not in x and "rank" not in x]
    return problems, info, ints


# ---------------------------------------------------------------------------------------------
# the action used by the model vs the real action


def run_action(ctx: Ctx, geom, d, M, k, p, g):
    import jax
    import jax.numpy as jnp

    shape = (M,) * d + (d,) * k
    data = ctx.rng.integers(-3, 4, size=shape)
    gj = np.asarray(g).astype(int).tolist()
    mod = ctx.driver.call("c03.act", d=d, M=M, k=k, p=p, g=gj, data=[int(v) for v in data.reshape(-1)])
    impl = np.asarray(
        geom.times_group_element(d, jnp.asarray(data, dtype=jnp.float32), p, np.asarray(g), jax.lax.Precision.HIGH)
    )
    ref = refs.act(data, d, p, g)
    case = {"D": d, "M": M, "k": k, "parity": p, "g": gj, "data": data.reshape(-1).tolist(),
            "impl": impl.reshape(-1).tolist(), "reference": ref.reshape(-1).tolist(), "model": mod}
    ident = np.array_equal(np.asarray(g), np.eye(d))
    ctx.case(("act", d, M, k, p, tuple(np.asarray(g).reshape(-1).tolist())), not ident and M > 1)
    ctx.hist("act_D", d)
    if not np.array_equal(impl.reshape(-1), ref.reshape(-1).astype(impl.dtype)):
        # C02's subject; for C03 it only matters through the family, which is checked separately
        ctx.notes["times_group_element_differs_from_reference"] = ctx.notes.get(
            "times_group_element_differs_from_reference", 0) + 1
    if (mod["lit"] != mod["mono"] or mod["mono"] != [int(v) for v in ref.reshape(-1)]
            or mod["det"] != refs.det(g) or mod["det_laplace"] != mod["det"]
            or mod["trace"] != int(np.trace(g)) or not mod["roundtrip"]):
        ctx.violation("correspondence", "Lean action (monomial act / literal actLit / det / trace) differs from the reference action", case)


def run_operator_lists(ctx: Ctx, geom, d):
    for which, real in (("all", geom.make_all_operators(d)), ("c2", geom.make_C2_group(d))):
        model = ctx.driver.call("c03.ops", d=d, which=which)
        rs = sorted(np.asarray(g).astype(int).reshape(-1).tolist() for g in real)
        ms = sorted(np.asarray(g).reshape(-1).tolist() for g in model)
        case = {"D": d, "which": which, "impl": rs, "model": ms}
        ctx.case(("ops", d, which), d > 1)
        want = sorted(g.reshape(-1).tolist() for g in refs.signed_perms(d)) if which == "all" else sorted(
            np.diag(s).reshape(-1).tolist() for s in itertools.product([1, -1], repeat=d))
        if rs != want or not group_closed(real):
            ctx.violation("oracle", f"operator list '{which}' is not the expected closed group", case)
        elif rs != ms:
            ctx.violation("correspondence", f"operator list '{which}' differs from the Lean model", case)



# ---------------------------------------------------------------------------------------------
# converse: A -> A * C is G-equivariant  iff  C is G-invariant (iff C in span of the family)


def _lib_act(geom, jnp, arr, d, p, g):
    out = np.asarray(geom.times_group_element(d, jnp.array(arr, dtype=jnp.float32), p, np.asarray(g)))
    r = np.rint(out).astype(np.int64)
    if not np.array_equal(r.astype(out.dtype), out):
        raise AssertionError("non-integer action output")
    return r


def _lib_conv(geom, jnp, d, img, flt, rd):
    """img: spatial + tensor, flt: spatial + tensor; single batch / channel; fully toroidal, TORUS padding"""
    out = geom.convolve(d, jnp.array(img[None, None], dtype=jnp.float32), jnp.array(flt[None, None], dtype=jnp.float32),
                        (True,) * d, (1,) * d, "TORUS", None, (rd,) * d)
    out = np.asarray(out)
    r = np.rint(out).astype(np.int64)
    if not np.array_equal(r.astype(out.dtype), out):
        raise AssertionError("non-integer convolution output")
    return r[0, 0]


def _ref_conv(d, img, flt, kI, rd):
    """independent direct sum on the torus: out[i][t ++ t'] = sum_a img[(i + (a - c) rd) mod N][t] flt[a][t']"""
    N = img.shape[:d]
    M = flt.shape[:d]
    kF = flt.ndim - d
    out = np.zeros(tuple(N) + (d,) * (kI + kF), dtype=np.int64)
    for a in itertools.product(*[range(m) for m in M]):
        sh = np.asarray(img)
        for ax in range(d):
            sh = np.roll(sh, -((a[ax] - (M[ax] - 1) // 2) * rd), axis=ax)  # sh[i] = img[i + (a - c) rd]
        out += sh.reshape(tuple(N) + (d,) * kI + (1,) * kF) * np.asarray(flt[a]).reshape((1,) * (d + kI) + (d,) * kF)
    return out


def converse_one(ctx: Ctx, geom, jnp, base, kind, C, A, expect_all, budget):
    """for every g of the group: the real equivariance defect of A -> A * C on the image A against the
    invariance of C under the reference action.  On a one-hot image the two coincide for each g
    (conv_equivariant_iff_filter_invariant); on any image g.C == C implies equality."""
    d, M, k, p = base["D"], base["M"], base["k"], base["parity"]
    N, rd, kI, pI = base["N"], base["rhs_dilation"], base["image_k"], base["image_parity"]
    ops = [np.asarray(g, dtype=np.int64) for g in base["operators"]]
    onehot_img = int(np.count_nonzero(A)) == 1
    case = dict(base, kind=kind, filter=jarr(C), image=jarr(A))
    invs = [bool(np.array_equal(refs.act(C, d, p, g), C)) for g in ops]
    nontriv = len(ops) > 1 and bool(np.any(C != 0)) and ((not all(invs)) if not expect_all else True)
    ctx.case(("converse", kind, base["group"], d, M, k, p, N, rd, kI, pI, case["filter"]["data"], case["image"]["data"]),
             nontriv, sample={k_: case[k_] for k_ in ("group", "D", "M", "k", "parity", "N", "kind")})
    ctx.hist("converse_kind", kind)
    ctx.hist("converse_moving_g", sum(1 for v in invs if not v))
    if expect_all and not all(invs):
        bad = next(g for g, v in zip(ops, invs) if not v)
        ctx.violation("oracle", "a weighting of the generated family is not fixed by a group element",
                      dict(case, g=bad.astype(int).tolist()))
        return
    conv0 = _lib_conv(geom, jnp, d, A, C, rd)
    if not np.array_equal(conv0, _ref_conv(d, A, C, kI, rd)):
        # the convolution itself is C04's business; recorded only
        ctx.notes["converse_conv_differs_from_reference"] = ctx.notes.get("converse_conv_differs_from_reference", 0) + 1
    budget = dict(budget)
    margs = dict(d=d, torus=[True] * d, stride=[1] * d, rd=[rd] * d, ld=[1] * d, padding="TORUS", filter=jarr(C[None, None]))
    for g, inv in zip(ops, invs):
        gcase = dict(case, g=g.astype(int).tolist(), filter_fixed_by_g=inv)
        lhs = _lib_conv(geom, jnp, d, _lib_act(geom, jnp, A, d, pI, g), C, rd)
        rhs = _lib_act(geom, jnp, conv0, d, pI + p, g)
        eq = lhs.shape == rhs.shape and bool(np.array_equal(lhs, rhs))
        if inv and not eq:
            ctx.violation("oracle", "g.C == C but convolve(g.A, C) != g.convolve(A, C): an invariant filter "
                          "(a weighting of the family) gives a non-equivariant map", gcase)
            continue
        if (not inv) and eq and onehot_img:
            ctx.violation("oracle", "g.C != C but convolve(g.A, C) == g.convolve(A, C) on a one-hot image: "
                          "a non-invariant filter passes as equivariant", gcase)
            continue
        # the Lean model on the same inputs (within the budget: g != identity, per value of `inv`)
        if budget.get(inv, 0) > 0 and not np.array_equal(g, np.eye(d, dtype=np.int64)):
            budget[inv] -= 1
            try:
                gA = refs.act(A, d, pI, g)
                ml = unarr(ctx.driver.call("c04.conv", which="spec", image=jarr(gA[None, None]), **margs))[0, 0]
                mr = unarr(ctx.driver.call("c01.rhs", M=g.astype(int).tolist(), p_image=pI, p_filter=p,
                                           image=jarr(A[None, None]), **margs))[0, 0]
            except DriverReject as e:
                ctx.violation("correspondence", "the Lean model rejects the torus configuration", dict(gcase, model_rejects=str(e)))
                continue
            if ml.shape != lhs.shape or not np.array_equal(ml, lhs):
                ctx.violation("correspondence", "convolve(g.A, C): code differs from the Lean convSpec", gcase)
            if mr.shape != rhs.shape or not np.array_equal(mr, rhs):
                ctx.violation("correspondence", "g.convolve(A, C): code differs from the Lean tge of convSpec", gcase)
            if onehot_img and bool(np.array_equal(ml, mr)) != inv:
                ctx.violation("correspondence", "Lean model: equivariance on the one-hot image does not coincide with "
                              "g.C == C (would contradict conv_equivariant_iff_filter_invariant)", gcase)


def run_converse(ctx: Ctx, geom, jnp, gname, ops, d, M, k, p, N, rd, kI, budget):
    rng = ctx.rng
    pI = int(rng.integers(0, 2))
    fshape = (M,) * d + (d,) * k
    ishape = (N,) * d + (d,) * kI
    base = {"converse": True, "group": gname, "operators": [np.asarray(g).astype(int).tolist() for g in ops],
            "D": d, "M": M, "k": k, "parity": p, "N": N, "rhs_dilation": rd, "image_k": kI, "image_parity": pI}

    def delta_image():
        A = np.zeros(ishape, dtype=np.int64)
        idx = tuple(int(rng.integers(0, s)) for s in ishape)
        A[idx] = int(rng.choice([1, -1, 2]))
        return A

    # (a) non-invariant filters: a one-hot entry with a non-trivial orbit (if any), and a random integer filter
    entries = list(np.ndindex(*fshape))
    onehot = None
    for i in rng.permutation(len(entries)):
        C = np.zeros(fshape, dtype=np.int64)
        C[entries[int(i)]] = 1
        if any(not np.array_equal(refs.act(C, d, p, g), C) for g in ops):
            onehot = C
            break
    if onehot is not None:
        converse_one(ctx, geom, jnp, base, "one-hot-filter", onehot, delta_image(), False, budget)
    converse_one(ctx, geom, jnp, base, "random-filter", rng.integers(-2, 3, size=fshape).astype(np.int64),
                 delta_image(), False, {})
    # (b) a random integer weighting of the generated family
    vecs, _ = impl_family(geom, ops, d, M, k, p)
    prim = [rationalise(v) for v in vecs]
    if prim and all(isinstance(v, tuple) for v in prim):
        w = rng.integers(-3, 4, size=len(prim))
        if not np.any(w):
            w[int(rng.integers(0, len(prim)))] = 1
        C = sum(int(wi) * np.array(v, dtype=np.int64) for wi, v in zip(w, prim)).reshape(fshape)
        converse_one(ctx, geom, jnp, base, "family-weighting", C, delta_image(), True, {})
        converse_one(ctx, geom, jnp, base, "family-weighting-random-image", C,
                     rng.integers(-2, 3, size=ishape).astype(np.int64), True, budget)
        # weighting + a non-invariant perturbation: equivariance is lost exactly at the g that move the perturbation
        if onehot is not None:
            converse_one(ctx, geom, jnp, base, "family-plus-one-hot", C + 5 * onehot, delta_image(), False, {})
    else:
        ctx.hist("converse_empty_or_irrational_family", True)


def converse_grid(tier):
    # (group, d, M, k, p, N, rd, kI)
    g = [("B", 2, 3, 0, 0, 3, 1, 0), ("B", 2, 3, 1, 0, 4, 1, 0), ("C4", 2, 3, 1, 1, 3, 1, 1),
         ("C2", 2, 3, 0, 0, 5, 2, 1), ("SO", 2, 3, 0, 1, 4, 1, 0), ("B", 3, 3, 0, 0, 3, 1, 0)]
    if tier != "quick":
        g += [("B", 2, 3, 2, 0, 3, 1, 1), ("B", 2, 5, 1, 1, 5, 1, 0), ("B", 2, 3, 1, 1, 6, 2, 1), ("C4", 2, 5, 0, 0, 6, 1, 1),
              ("B", 3, 3, 1, 0, 3, 1, 0), ("SO", 3, 3, 0, 1, 4, 1, 1), ("C3", 3, 3, 1, 0, 3, 1, 0), ("C2", 3, 3, 1, 1, 5, 2, 0)]
    return g

# ---------------------------------------------------------------------------------------------


def grid(tier):
    if tier == "quick":
        return {2: (range(1, 5), range(0, 3)), 3: (range(1, 3), range(0, 2))}
    return {2: (range(1, 6), range(0, 5)), 3: (range(1, 4), range(0, 3))}


def run(ctx: Ctx):
    import ginjax.geometric as geom

    ctx.rule = (
        "configurations (group, D, M, k, parity): groups B_D (make_all_operators), its rotation "
        "subgroup, C2^D (make_C2_group), cyclic <rot90>, cyclic axis permutations (D=3), trivial, and the same groups "
        "listed in reversed / rotated order (identity not first; M<=3, k<=1); "
        "quick D=2: M<=4, k<=2; D=3: M<=2, k<=1; thorough D=2: M<=5, k<=4; D=3: M<=3, k<=2; both "
        "parities; every configuration of the grid is run (exhaustive over the grid, no sampling). "
        "A family case is non-trivial when |G| > 1 and 0 < dim(invariants) < M^D * D^k; bank cases "
        "when more than one block type is non-empty; action cases when g != identity and M > 1. "
        "Cases whose expected family is empty are counted in empty_family_expected_cases. "
        "Converse cases (group, D, M, k, parity, torus extent N >= dilated side, dilation, image order): per case a "
        "one-hot filter with a non-trivial orbit, a random integer filter, a random integer weighting of the real "
        "family (one-hot and random integer image) and weighting + 5 * one-hot, each checked for EVERY g of the group; "
        "non-trivial when |G| > 1, the filter is non-zero and (for the non-invariant kinds) some g moves it."
    )
    ctx.assumptions = [
        "float32 group sums of 0/±1 basis images are exact; the later rescalings (max-abs, normalize, rectify) "
        "are undone by dividing by the first non-zero entry and rationalising with denominators <= 1024 "
        f"(tolerance {TOL}); a family that is not rational up to scale is decided in floating point",
        "converse clause: proved and tested for convolutional maps A -> A * C on a full torus (extent >= dilated filter "
        "side); the classical fact that every translation-equivariant linear map with support in the filter window IS "
        "such a convolution is stated in Lean (C03Converse) but only partly mechanised",
    ]
    ctx.trusted_extra = [
        "np.unique(axis=0), jnp.argmax/sign, jax.vmap, einsum inside times_group_element (modelled, validated differentially)",
        "refs.act reference action (diffed against the Lean actLit/act here and against c02.act_spec by C02)",
    ]
    t_start = time.time()
    for d in (2, 3):
        run_operator_lists(ctx, geom, d)
    # the action: all of B_2, a seeded part (quick) or all (thorough) of B_3
    for d in (2, 3):
        gs = refs.signed_perms(d)
        if d == 3 and ctx.tier == "quick":
            pick = ctx.rng.choice(len(gs), size=12, replace=False)
            gs = [gs[int(i)] for i in pick]
        shapes = [(2, 0), (2, 1), (3, 1), (3, 2)] if d == 2 else [(2, 1), (3, 1), (2, 2)]
        for g in gs:
            for (M, k) in shapes:
                run_action(ctx, geom, d, M, k, int(ctx.rng.integers(0, 2)), g)
    g_ = grid(ctx.tier)
    for d in (2, 3):
        Ms, ks = g_[d]
        groups = groups_for(geom, d)
        for gname, ops in groups.items():
            if not group_closed(ops):
                raise AssertionError(f"harness bug: {gname} not closed")
            for M in Ms:
                for k in ks:
                    for p in (0, 1):
                        run_config(ctx, geom, gname, ops, d, M, k, p)
            log(f"[C03] D={d} group {gname} done at {time.time() - t_start:.0f}s")
    # the same groups listed in another order (identity not first): the family is a property of the group,
    # not of the order in which its elements are listed
    for d in (2, 3):
        groups = groups_for(geom, d)
        Ms, ks = ([2, 3], [0, 1]) if d == 2 else ([2], [0, 1])
        for gname in ("B", "C4", "C2", "SO"):
            ops = groups[gname]
            for vname, vops in ((gname + "-reversed", ops[::-1]), (gname + "-rotated", ops[1:] + ops[:1])):
                if ctx.tier == "quick" and d == 3 and vname.endswith("rotated"):
                    continue
                for M in Ms:
                    for k in ks:
                        for p in (0, 1):
                            run_config(ctx, geom, vname, vops, d, M, k, p)
    # assembled banks
    for d, M, ks in ((2, 3, [0, 1, 2]), (2, 2, [0, 1]), (3, 2, [0, 1])):
        groups = groups_for(geom, d)
        for gname in ("B", "C4", "C2") if ctx.tier == "quick" else tuple(groups):
            run_bank(ctx, geom, gname, groups[gname], d, M, ks, [0, 1])
    run_bank(ctx, geom, "B", groups_for(geom, 2)["B"], 2, 3, [1], [1])
    run_bank(ctx, geom, "B", groups_for(geom, 2)["B"], 2, 1, [1], [0, 1])  # no filter at all: rejected
    # converse: equivariance of A -> A * C under G  iff  C is G-invariant (a weighting of the family)
    import jax.numpy as jnp
    t_conv = time.time()
    for (gname, d, M, k, p, N, rd, kI) in converse_grid(ctx.tier):
        run_converse(ctx, geom, jnp, gname, groups_for(geom, d)[gname], d, M, k, p, N, rd, kI, {True: 1, False: 1})
    log(f"[C03] converse cases done in {time.time() - t_conv:.0f}s")
    # negative control for the oracle: a list that is not closed is not covered by the property
    rot = np.array([[0, -1], [1, 0]], dtype=np.int64)
    ctl = run_config(ctx, geom, "nonclosed", [np.eye(2, dtype=np.int64), rot], 2, 3, 1, 0, control=True)
    ctx.notes["negative_control_nonclosed_list_flagged_by_oracle"] = ctl
    if not ctl["detected"]:
        log("[C03] warning: the oracle did not flag the non-closed operator list")
    ctx.exhaustive = True
    ctx.notes["exhaustive_scope"] = "all (group, D, M, k, parity) of the tier's grid"


def replay(ctx: Ctx, rep: dict):
    import ginjax.geometric as geom

    case = rep.get("case", {})
    ctx.rule = "replay of one stored case"
    ops = [np.asarray(g, dtype=np.int64) for g in case.get("operators", [])]
    if case.get("converse"):
        import jax.numpy as jnp

        base = {k_: case[k_] for k_ in ("converse", "group", "operators", "D", "M", "k", "parity", "N", "rhs_dilation",
                                        "image_k", "image_parity")}
        C = unarr(case["filter"]); A = unarr(case["image"])
        converse_one(ctx, geom, jnp, base, case["kind"], C, A, case["kind"].startswith("family-weighting"), {True: 1, False: 1})
    elif "Ms" in case:
        run_bank(ctx, geom, case["group"], ops, case["D"], case["Ms"][0], case["ks"], case["parities"])
    elif "g" in case:
        run_action(ctx, geom, case["D"], case["M"], case["k"], case["parity"], np.asarray(case["g"]))
    elif "which" in case:
        run_operator_lists(ctx, geom, case["D"])
    else:
        run_config(ctx, geom, case["group"], ops, case["D"], case["M"], case["k"], case["parity"])
