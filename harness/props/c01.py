"""C01 - convolution commutes with the symmetry group (rotations, reflections, shifts).

correspondence: both sides of the theorem `conv_act`, evaluated by the Lean model
  (c01.lhs = convSpec on the transformed image/filter with the transported options,
   c01.rhs = tge applied to convSpec), against the real code: geom.convolve on
  (g.A, g.C, g.opts) resp. g.(geom.convolve(A, C, opts)) with g. from the library's own
  times_group_element; exact on integer inputs.
oracle (on the implementation, with the independent reference action of harness/refs.py):
  convolve(g.A, g.C, g.opts) == g.convolve(A, C, opts), result order k+k' and parity p+p'
  (GeometricImage.convolve_with), basis x basis pairs on the smallest shapes (bilinearity makes
  that exhaustive for the shape), random integer images otherwise; all g in B_2, seeded / all of
  B_3; all cyclic shifts on toroidal axes under TORUS padding without image dilation.
"""
from __future__ import annotations

import itertools

import numpy as np

import refs
from common import Ctx, DriverReject, jarr, unarr


def mat_list(g):
    return [[int(v) for v in row] for row in np.asarray(g)]


def gen_sym_case(ctx: Ctx, d, small=False):
    """symmetric boundary treatment at unit stride"""
    rng = ctx.rng
    kI = int(rng.choice([0, 0, 1, 1, 2])) if d == 2 else int(rng.choice([0, 1]))
    kF = int(rng.choice([0, 1, 1, 2])) if d == 2 else int(rng.choice([0, 1]))
    if small:
        kI, kF = min(kI, 1), min(kF, 1)
    B = 1 if small else int(rng.choice([1, 2]))
    inC = 1 if small else int(rng.choice([1, 2]))
    outC = 1 if small else int(rng.choice([1, 2]))
    hiN = 4 if small else 6
    N = [int(rng.integers(1, hiN)) for _ in range(d)]
    if rng.random() < 0.5 and d >= 2:
        N = list(rng.permutation([2, 3, 4, 5])[:d])  # pairwise distinct extents
        N = [int(v) for v in N]
    kind = str(rng.choice(["TORUS", "SAME", "VALID", "int", "explicit", "none"]))
    if kind in ("TORUS", "SAME", "none"):
        M = [int(rng.choice([1, 3, 3, 5] if not small else [1, 3])) for _ in range(d)]
    else:
        M = [int(rng.integers(1, 5 if not small else 4)) for _ in range(d)]
    torus = [bool(rng.integers(0, 2)) for _ in range(d)]
    rd = [int(rng.choice([1, 1, 2, 3])) for _ in range(d)]
    ld = [int(rng.choice([1, 2, 3])) for _ in range(d)] if rng.random() < 0.4 else None
    if kind == "int":
        padding = int(rng.integers(0, 4))
    elif kind == "explicit":
        padding = [[v, v] for v in (int(rng.integers(0, 4)) for _ in range(d))]
    elif kind == "none":
        padding = None
    else:
        padding = kind
    img = rng.integers(-3, 4, size=[B, inC] + N + [d] * kI).astype(np.int64)
    flt = rng.integers(-2, 3, size=[outC, inC] + M + [d] * kF).astype(np.int64)
    return dict(d=d, kI=kI, kF=kF, N=N, M=M, torus=torus, stride=[1] * d, rd=rd, ld=ld, padding=padding,
                kind=kind, img=img, flt=flt)


def transport_case(c, g):
    """the transformed call: images acted on by g (reference action), per-axis options travel with the axes"""
    d = c["d"]
    t = lambda v: list(refs.transport(g, v))
    pad = c["padding"]
    if isinstance(pad, list):
        pad = [list(p) for p in refs.transport(g, [tuple(p) for p in pad])]
    return dict(c, torus=t(c["torus"]), stride=t(c["stride"]), rd=t(c["rd"]),
                ld=None if c["ld"] is None else t(c["ld"]), padding=pad)


def impl_conv(geom, jnp, c, img, flt):
    padding = c["padding"]
    if isinstance(padding, list):
        padding = tuple(tuple(p) for p in padding)
    out = geom.convolve(c["d"], jnp.array(img, dtype=jnp.float32), jnp.array(flt, dtype=jnp.float32),
                        tuple(c["torus"]), tuple(c["stride"]), padding,
                        None if c["ld"] is None else tuple(c["ld"]), tuple(c["rd"]))
    out = np.asarray(out)
    r = np.rint(out).astype(np.int64)
    assert np.array_equal(r.astype(out.dtype), out), "non-integer output"
    return r


def act_bank(bank, d, k, p, g):
    """reference action on every image of a (lead0, lead1, spatial, tensor) bank"""
    return refs.act_block(bank, d, k, p, g)


def lib_act_bank(geom, jnp, bank, d, k, p, g):
    flat = bank.reshape((-1,) + bank.shape[2:])
    outs = [np.rint(np.asarray(geom.times_group_element(d, jnp.array(a, dtype=jnp.float32), p, np.asarray(g)))).astype(np.int64)
            for a in flat]
    out = np.stack(outs)
    return out.reshape(bank.shape[:2] + out.shape[1:])


def describe(c, g=None, pI=None, pF=None):
    dd = {"D": c["d"], "image_shape": list(c["img"].shape), "filter_shape": list(c["flt"].shape),
          "is_torus": c["torus"], "padding": c["padding"], "lhs_dilation": c["ld"], "rhs_dilation": c["rd"]}
    if g is not None:
        dd["g"] = mat_list(g); dd["parities"] = [pI, pF]
    return dd


def check_equivariance(ctx: Ctx, geom, jnp, c, g, pI, pF, idx, with_model=True, tag="random"):
    d = c["d"]
    desc = describe(c, g, pI, pF)
    full = dict(desc, image=jarr(c["img"]), filter=jarr(c["flt"]))
    ident = np.array_equal(np.asarray(g), np.eye(d, dtype=np.int64))
    try:
        base = impl_conv(geom, jnp, c, c["img"], c["flt"])
    except AssertionError:
        raise
    except Exception:
        return  # rejected configuration (e.g. empty output): nothing to compare
    if 0 in base.shape:
        return
    boundary = c["kind"] != "VALID" or any(c["torus"])
    nontriv = (not ident) and len(np.unique(c["img"])) > 1 and len(np.unique(c["flt"])) > 1 and \
        (max(c["M"]) > 1 or c["kF"] > 0) and boundary
    ctx.case(("eq", tag, idx, desc), nontriv, sample=desc)
    ctx.hist("d", d); ctx.hist("padding", c["kind"]); ctx.hist("det", refs.det(g))
    ctx.hist("square", len(set(c["N"])) == 1); ctx.hist("lhs_dilation", c["ld"] is not None)
    ctx.hist("even_filter", any(m % 2 == 0 for m in c["M"])); ctx.hist("kI,kF", (c["kI"], c["kF"]))
    ctx.hist("mixed_torus", len(set(c["torus"])) > 1)
    c2 = transport_case(c, g)
    gA = act_bank(c["img"], d, c["kI"], pI, g)
    gC = act_bank(c["flt"], d, c["kF"], pF, g)
    try:
        lhs = impl_conv(geom, jnp, c2, gA, gC)
    except AssertionError:
        raise
    except Exception as e:
        full["raised"] = repr(e)[:300]
        ctx.violation("oracle", "the transformed call raised although the original call succeeded", full)
        return
    rhs = act_bank(base, d, c["kI"] + c["kF"], pI + pF, g)
    if lhs.shape != rhs.shape or not np.array_equal(lhs, rhs):
        full["lhs"] = jarr(lhs); full["rhs"] = jarr(rhs)
        ctx.violation("oracle", "convolve(g.A, g.C, g.opts) != g.convolve(A, C, opts)", full)
        return
    if with_model:
        args = dict(d=d, M=mat_list(g), p_image=pI, p_filter=pF, image=jarr(c["img"]), filter=jarr(c["flt"]),
                    torus=c["torus"], stride=c["stride"], rd=c["rd"], ld=c["ld"] if c["ld"] is not None else [1] * d,
                    padding=c["padding"])
        try:
            mlhs = unarr(ctx.driver.call("c01.lhs", **args))
            mrhs = unarr(ctx.driver.call("c01.rhs", **args))
        except DriverReject as e:
            full["model_rejects"] = str(e)
            ctx.violation("correspondence", "the Lean model rejects a configuration the code accepts", full)
            return
        # the implementation's own action feeds the implementation's convolution
        lgA = lib_act_bank(geom, jnp, c["img"], d, c["kI"], pI, g)
        lgC = lib_act_bank(geom, jnp, c["flt"], d, c["kF"], pF, g)
        ilhs = impl_conv(geom, jnp, c2, lgA, lgC)
        irhs = lib_act_bank(geom, jnp, base, d, c["kI"] + c["kF"], pI + pF, g)
        if mlhs.shape != ilhs.shape or not np.array_equal(mlhs, ilhs):
            ctx.violation("correspondence", "left-hand side of conv_act: code differs from Lean model", full)
        if mrhs.shape != irhs.shape or not np.array_equal(mrhs, irhs):
            ctx.violation("correspondence", "right-hand side of conv_act: code differs from Lean model", full)


def basis_cases(ctx: Ctx, geom, jnp, d, gs):
    """basis x basis on a tiny shape: exhaustive for that shape by bilinearity"""
    c = gen_sym_case(ctx, d, small=True)
    c["N"] = [2, 3][:d] if d == 2 else [2, 1, 2]
    c["M"] = [min(m, 3) for m in c["M"]]
    c["kI"], c["kF"] = (1, 0) if d == 2 else (0, 0)
    ishape = [1, 1] + c["N"] + [d] * c["kI"]
    fshape = [1, 1] + c["M"] + [d] * c["kF"]
    ni, nf = int(np.prod(ishape)), int(np.prod(fshape))
    g = gs[int(ctx.rng.integers(1, len(gs)))]
    count = 0
    for a in range(ni):
        for b in range(nf):
            ei = np.zeros(ni, dtype=np.int64); ei[a] = 1
            ef = np.zeros(nf, dtype=np.int64); ef[b] = 1
            cc = dict(c, img=ei.reshape(ishape), flt=ef.reshape(fshape))
            check_equivariance(ctx, geom, jnp, cc, g, 0, 1, (a, b), with_model=False, tag="basis")
            count += 1
    ctx.hist("basis_pairs", count)


def shift_cases(ctx: Ctx, geom, jnp, n):
    rng = ctx.rng
    for it in range(n):
        d = int(rng.choice([2, 2, 3]))
        c = gen_sym_case(ctx, d)
        c["padding"] = "TORUS" if rng.random() < 0.7 else None
        c["kind"] = "TORUS"
        c["ld"] = None
        c["M"] = [int(rng.choice([1, 3, 3, 5])) for _ in range(d)]
        c["flt"] = rng.integers(-2, 3, size=list(c["flt"].shape[:2]) + c["M"] + [d] * c["kF"]).astype(np.int64)
        if not any(c["torus"]):
            c["torus"][int(rng.integers(d))] = True
        base = impl_conv(geom, jnp, c, c["img"], c["flt"])
        shifts = [range(n_) if t else [0] for n_, t in zip(c["N"], c["torus"])]
        for sh in itertools.product(*shifts):
            if not any(sh):
                continue
            axes = tuple(range(2, 2 + d))
            simg = np.roll(c["img"], sh, axis=axes)
            got = impl_conv(geom, jnp, c, simg, c["flt"])
            want = np.roll(base, sh, axis=axes)
            desc = dict(describe(c), shift=list(sh))
            ctx.case(("shift", it, desc), True, sample=desc if it == 0 else None)
            ctx.hist("shift", "torus-axis")
            if not np.array_equal(got, want):
                ctx.violation("oracle", "convolution does not commute with a cyclic shift on toroidal axes",
                              dict(desc, image=jarr(c["img"]), filter=jarr(c["flt"])))


def convolve_with_types(ctx: Ctx, geom, jnp, n):
    """GeometricImage.convolve_with: order k+k', parity p+p' is how the result transforms"""
    rng = ctx.rng
    for it in range(n):
        d = 2 if it % 3 else 3
        c = gen_sym_case(ctx, d, small=(d == 3))
        c["img"] = c["img"][:1, :1]; c["flt"] = c["flt"][:1, :1]
        pI, pF = int(rng.integers(0, 2)), int(rng.integers(0, 2))
        gs = refs.signed_perms(d)
        g = gs[int(rng.integers(1, len(gs)))]
        if d == 3:
            # axis 3-cycles with mixed flags: the only elements for which a row/column slip in the flag
            # transport of the object-level action shows
            cyc = [o for o in gs if all(int(np.argmax(np.abs(o[i]))) != i for i in range(3))]
            g = cyc[int(rng.integers(len(cyc)))]
            if len(set(c["torus"])) == 1:
                c["torus"][int(rng.integers(3))] = not c["torus"][0]
        pad = c["padding"]
        if isinstance(pad, list):
            pad = tuple(tuple(p) for p in pad)
        mk = lambda a, p, flags: geom.GeometricImage(jnp.array(a, dtype=jnp.float32), p, d, tuple(flags))
        if it % 4 == 1:
            # a half-integer float image convolved with an INTEGER-dtype filter (a hand-written stencil): the
            # product of the declared types, computed in floating point, whatever the filter's dtype
            try:
                Ah = mk(np.asarray(c["img"][0, 0]) * 0.5, pI, c["torus"])
                Ci = geom.GeometricImage(jnp.array(c["flt"][0, 0], dtype=jnp.int32), pF, d, tuple(c["torus"]))
                args = (1, pad, None if c["ld"] is None else tuple(c["ld"]), tuple(c["rd"]))
                o_int = Ah.convolve_with(Ci, *args)
                o_flt = Ah.convolve_with(mk(c["flt"][0, 0], pF, c["torus"]), *args)
                o_obj = Ah.times_group_element(np.asarray(g)).convolve_with(
                    Ci.times_group_element(np.asarray(g)), 1,
                    (lambda q: tuple(tuple(x) for x in q) if isinstance(q, list) else q)(transport_case(c, g)["padding"]),
                    None if transport_case(c, g)["ld"] is None else tuple(transport_case(c, g)["ld"]),
                    tuple(transport_case(c, g)["rd"]))
                dbl = lambda o: np.rint(2 * np.asarray(o.data, dtype=np.float64)).astype(np.int64)
                desc_h = dict(describe(c, g, pI, pF), entry="GeometricImage.convolve_with", image="half-integers",
                              filter_dtype="int32")
                ctx.case(("cw-half", it, desc_h), True)
                ctx.hist("integer_dtype_filter", 1)
                if o_int.data.shape != o_flt.data.shape or not np.array_equal(dbl(o_int), dbl(o_flt)):
                    ctx.violation("oracle", "convolve_with: the result depends on the dtype of the filter (integer-dtype "
                                  "filter, half-integer image)", dict(desc_h, image=jarr(c["img"]), filter=jarr(c["flt"])))
                elif 0 not in o_int.data.shape:
                    want_h = refs.act(dbl(o_int), d, o_int.parity, g)
                    if dbl(o_obj).shape != want_h.shape or not np.array_equal(dbl(o_obj), want_h):
                        ctx.violation("oracle", "convolve_with: (g.A)*(g.C) != g.(A*C) for an integer-dtype filter and a "
                                      "half-integer image", dict(desc_h, image=jarr(c["img"]), filter=jarr(c["flt"])))
            except Exception:
                pass  # options the implementation rejects are rejected below as well
        try:
            out = mk(c["img"][0, 0], pI, c["torus"]).convolve_with(
                mk(c["flt"][0, 0], pF, c["torus"]), 1, pad, None if c["ld"] is None else tuple(c["ld"]), tuple(c["rd"]))
        except Exception:
            continue
        if 0 in out.data.shape:
            continue
        c2 = transport_case(c, g)
        pad2 = c2["padding"]
        if isinstance(pad2, list):
            pad2 = tuple(tuple(p) for p in pad2)
        gA = refs.act(c["img"][0, 0], d, pI, g); gC = refs.act(c["flt"][0, 0], d, pF, g)
        out2 = mk(gA, pI, c2["torus"]).convolve_with(mk(gC, pF, c2["torus"]), 1, pad2,
                                                   None if c2["ld"] is None else tuple(c2["ld"]), tuple(c2["rd"]))
        desc = dict(describe(c, g, pI, pF), entry="GeometricImage.convolve_with")
        ctx.case(("cw", it, desc), True, sample=desc if it == 0 else None)
        want = refs.act(np.rint(np.asarray(out.data)).astype(np.int64), d, out.parity, g)
        got = np.rint(np.asarray(out2.data)).astype(np.int64)
        bad = []
        if out.k != c["kI"] + c["kF"] or out.parity != (pI + pF) % 2:
            bad.append(f"declared type ({out.k},{out.parity}) != ({c['kI'] + c['kF']},{(pI + pF) % 2})")
        if got.shape != want.shape or not np.array_equal(got, want):
            bad.append("result does not transform with its declared (k, parity)")
        # entirely through the object-level API: the transformed images carry their own flags
        try:
            oA = mk(c["img"][0, 0], pI, c["torus"]).times_group_element(np.asarray(g))
            oC = mk(c["flt"][0, 0], pF, c["torus"]).times_group_element(np.asarray(g))
            out3 = oA.convolve_with(oC, 1, pad2, None if c2["ld"] is None else tuple(c2["ld"]), tuple(c2["rd"]))
            got3 = np.rint(np.asarray(out3.data)).astype(np.int64)
            if got3.shape != want.shape or not np.array_equal(got3, want):
                bad.append("(g.A).convolve_with(g.C) computed through GeometricImage.times_group_element differs from g.(A*C)")
        except Exception as e:
            bad.append("object-level transformed call raised: " + repr(e)[:200])
        if bad:
            ctx.violation("oracle", "convolve_with: " + "; ".join(bad), dict(desc, image=jarr(c["img"]), filter=jarr(c["flt"])))


def filter_object_cases(ctx: Ctx, geom, jnp, n_cfg, n_g3):
    """(g.A).convolve_with(g.C) with C held in a GeometricFilter and both operands transformed by their OWN
    times_group_element methods (GeometricImage.times_group_element resp. GeometricFilter.times_group_element),
    C not invariant under g and g != g^-1 (only there does an inverse slip in the filter's own action show):
    both 90-degree rotations of B_2, the order 3/4/6 elements of B_3; filter order 0 (both parities) and 1."""
    rng = ctx.rng
    for d in (2, 3):
        ops = refs.signed_perms(d)
        noninv = [o for o in ops if not np.array_equal(np.asarray(o) @ np.asarray(o), np.eye(d, dtype=np.int64))]
        assert len(noninv) == (2 if d == 2 else 28)
        for it in range(n_cfg if d == 2 else max(2, n_cfg // 2)):
            c = gen_sym_case(ctx, d, small=(d == 3))
            c["kF"] = 0 if it % 3 else 1
            if it % 3 == 0:
                c["kI"] = min(c["kI"], 1)
            string_pad = c["kind"] in ("TORUS", "SAME", "none")
            m = 3 if string_pad else int(rng.choice([2, 3]))  # filters are square
            c["M"] = [m] * d
            c["img"] = c["img"][:1, :1]
            pF = it % 2 if c["kF"] == 0 else int(rng.integers(0, 2))
            pI = int(rng.integers(0, 2))
            gs = noninv if d == 2 else [noninv[i] for i in rng.choice(len(noninv), size=min(n_g3, len(noninv)),
                                                                      replace=False)]
            for g in gs:
                ginv = np.asarray(g).T
                for _ in range(20):
                    flt = rng.integers(-2, 3, size=[1, 1] + c["M"] + [d] * c["kF"]).astype(np.int64)
                    if not np.array_equal(refs.act(flt[0, 0], d, pF, g), refs.act(flt[0, 0], d, pF, ginv)) and \
                            not np.array_equal(refs.act(flt[0, 0], d, pF, g), flt[0, 0]):
                        break
                else:
                    continue
                cc = dict(c, flt=flt)
                pad = cc["padding"]
                if isinstance(pad, list):
                    pad = tuple(tuple(p) for p in pad)
                try:
                    A = geom.GeometricImage(jnp.array(cc["img"][0, 0], dtype=jnp.float32), pI, d, tuple(cc["torus"]))
                    C = geom.GeometricFilter(jnp.array(flt[0, 0], dtype=jnp.float32), pF, d, tuple(cc["torus"]))
                    out = A.convolve_with(C, 1, pad, None if cc["ld"] is None else tuple(cc["ld"]), tuple(cc["rd"]))
                except Exception:
                    continue  # rejected configuration
                if 0 in out.data.shape:
                    continue
                c2 = transport_case(cc, g)
                pad2 = c2["padding"]
                if isinstance(pad2, list):
                    pad2 = tuple(tuple(p) for p in pad2)
                desc = dict(describe(cc, g, pI, pF), entry="GeometricImage.times_group_element / "
                            "GeometricFilter.times_group_element, then GeometricImage.convolve_with")
                nontriv = len(np.unique(cc["img"])) > 1
                ctx.case(("cw-filter-object", d, it, desc), nontriv, sample=desc if it == 0 else None)
                ctx.hist("filter_object kF,pF", (cc["kF"], pF)); ctx.hist("filter_object d", d)
                full = dict(desc, image=jarr(cc["img"]), filter=jarr(flt))
                base = np.rint(np.asarray(out.data)).astype(np.int64)
                assert np.array_equal(base.astype(np.float32), np.asarray(out.data)), "non-integer output"
                want = refs.act(base, d, out.parity, g)
                try:
                    oA = A.times_group_element(np.asarray(g))
                    oC = C.times_group_element(np.asarray(g))
                    out2 = oA.convolve_with(oC, 1, pad2, None if c2["ld"] is None else tuple(c2["ld"]), tuple(c2["rd"]))
                    got = np.rint(np.asarray(out2.data)).astype(np.int64)
                except Exception as e:
                    full["raised"] = repr(e)[:300]
                    ctx.violation("oracle", "convolve_with: the object-level transformed call (g.A).convolve_with(g.C) "
                                  "with a GeometricFilter raised although the original call succeeded", full)
                    continue
                if got.shape != want.shape or not np.array_equal(got, want):
                    full["lhs"] = jarr(got); full["rhs"] = jarr(want)
                    ctx.violation("oracle", "convolve_with: (g.A).convolve_with(g.C), A transformed by "
                                  "GeometricImage.times_group_element and the GeometricFilter C by "
                                  "GeometricFilter.times_group_element, differs from g.(A*C)", full)


def run(ctx: Ctx):
    import jax.numpy as jnp
    import ginjax.geometric as geom

    ctx.rule = (
        "symmetric configurations at unit stride: d in {2,3}; extents 1-5 incl. pairwise distinct; image order 0-2, "
        "filter order 0-2; both parities; filter sides 1-5 (odd for string paddings, odd/even otherwise), non-square "
        "filters; all torus flag vectors; TORUS / SAME / VALID / integer / explicit equal pairs / default; rhs dilation "
        "1-3; lhs dilation absent or 1-3; batch and channels 1-2; every g of B_2, 6 (quick) / all 48 (thorough) of B_3 "
        "per configuration; basis x basis pairs on a tiny shape; all cyclic shifts on toroidal axes; the fully object-level "
        "path (g.A).convolve_with(g.C) with C a non-invariant square GeometricFilter of order 0 (parity 0 and 1) or 1 "
        "and g != g^-1 (both 90-degree rotations of B_2; 4 (quick) / all 28 (thorough) such elements of B_3 per "
        "configuration; non-trivial when the image is non-constant). Non-trivial: g != 1, "
        "image and filter non-constant, filter side > 1 or k' > 0, and padding or wrap actually present."
    )
    ctx.assumptions = ["integer-valued float32 inputs keep the implementation's arithmetic exact"]
    ctx.trusted_extra = ["jax.lax.conv_general_dilated modelled by xlaConv (validated in C04)",
                         "the per-axis options of the transformed call are chosen by the harness with refs.transport; "
                         "the Lean side uses ConvCfg.transport"]
    n_cfg = 40 if ctx.tier == "quick" else 300
    idx = 0
    for d in (2, 3):
        ops = refs.signed_perms(d)
        basis_cases(ctx, geom, jnp, d, ops)
        for it in range(n_cfg if d == 2 else max(3, n_cfg // 3)):
            c = gen_sym_case(ctx, d)
            if d == 2:
                gs = ops
            elif ctx.tier == "thorough":
                gs = ops
            else:
                gs = [ops[i] for i in ctx.rng.choice(len(ops), size=6, replace=False)]
            for gi, g in enumerate(gs):
                pI, pF = int(ctx.rng.integers(0, 2)), int(ctx.rng.integers(0, 2))
                check_equivariance(ctx, geom, jnp, c, g, pI, pF, idx, with_model=(gi % 3 == 0))
                idx += 1
    shift_cases(ctx, geom, jnp, 8 if ctx.tier == "quick" else 80)
    convolve_with_types(ctx, geom, jnp, 24 if ctx.tier == "quick" else 240)
    if ctx.tier == "quick":
        filter_object_cases(ctx, geom, jnp, 6, 4)
    else:
        filter_object_cases(ctx, geom, jnp, 24, 28)
