"""C11 - the linear layer computes its defining sum and returns the requested types.

Real `ml.ConvContract` objects are built, their weights and biases are replaced by integers through
`eqx.tree_at` (weights: dict of dicts, bias: dict), and they are run on integer MultiImages.

correspondence: `ml.ConvContract(...)(x)` vs the Lean model `layerV` (driver op `c11.layer`, field
  "model"): block values by key (exact; tolerance 1e-5*scale only where the float32 spatial mean of the
  mean-scaled bias enters), key order, channel counts, spatial shape; the constructor
  (`weights[s][t].shape`, `bias[t].shape`, `missing_filter`, stored `use_bias`) vs `initShapes`
  (`c11.init`); rejection of undeclared input keys.
oracle (the property pins the output): implementation == Lean spec `layerSpec` (field "spec": the
  defining sum + the bias selected by the bias setting) incl. key order == requested order of the
  reachable targets, channel counts, spatial shape == `outLen` of the dispatched options; the
  signature clause is re-evaluated independently in Python; "bias part": layer(x) - layer_without_bias(x)
  is a per-channel constant exactly for true scalars in modes auto/scalar/True, a per-channel multiple
  of the unbiased block's spatial mean in mode mean / for non-scalars in auto/True, zero otherwise.
Banks: random integer banks (a `geom.MultiImage` of filters, the layer does not care about invariance;
  with and without missing filter types) and one real invariant bank.
"""
from __future__ import annotations

import itertools
import time
from fractions import Fraction

import numpy as np

from common import Ctx, DriverReject, log

TYPES = [(0, 0), (0, 1), (1, 0), (1, 1), (2, 0), (2, 1)]
BIASES = ["auto", "mean", "scalar", True, False]
PADKINDS = ["none", "TORUS", "SAME", "VALID", "int", "explicit"]
_REAL_BANKS: dict = {}


# ---------------------------------------------------------------------------------------------
# small helpers


def jsig(sig):
    return [[[int(t[0]), int(t[1])], int(c)] for t, c in sig]


def tsig(sig):
    return tuple(((int(t[0]), int(t[1])), int(c)) for t, c in sig)


def fkey(s, t):
    return (s[0] + t[0], (s[1] + t[1]) % 2)


def jblock(a):
    a = np.asarray(a)
    r = np.rint(a).astype(np.int64)
    assert np.array_equal(r.astype(a.dtype), a), "non-integer data sent to the model"
    return {"shape": [int(v) for v in a.shape], "data": [int(v) for v in r.reshape(-1)]}


def unblock(j):
    """block of the driver -> (float64 ndarray, exact list of Fractions or None)"""
    data = j["data"]
    if data and isinstance(data[0], list):
        arr = np.array([n / d for n, d in data], dtype=np.float64)
    else:
        arr = np.array(data, dtype=np.float64)
    return arr.reshape(j["shape"])


def real_bank(D: int, kmax: int):
    """invariant filters of B_D with every filter rescaled to integer entries (still invariant)"""
    key = (D, kmax)
    if key not in _REAL_BANKS:
        import ginjax.geometric as geom
        import jax.numpy as jnp

        t0 = time.time()
        b = geom.get_invariant_filters(Ms=[3], ks=list(range(kmax + 1)), parities=[0, 1], D=D,
                                       operators=geom.make_all_operators(D))
        b = rescale_bank(geom, jnp, b)[0]
        log(f"[C11] invariant bank D={D} k<={kmax}: {sorted(b.keys())} in {time.time() - t0:.1f}s")
        _REAL_BANKS[key] = b
    return _REAL_BANKS[key]


def rescale_bank(geom, jnp, bank):
    """divide every filter by its smallest non-zero |entry|; returns (bank, all_integer)"""
    out, ok = {}, True
    for key, v in bank.items():
        a = np.asarray(v, dtype=np.float64)
        fs = []
        for f in a:
            nz = np.abs(f[np.abs(f) > 1e-6])
            g = f / nz.min() if nz.size else f
            if np.allclose(g, np.rint(g), atol=1e-4):
                g = np.rint(g)
            else:
                ok = False
                g = f
            fs.append(g)
        out[key] = jnp.asarray(np.array(fs), dtype=jnp.float32)
    return geom.MultiImage(out, bank.D, bank.is_torus), ok


def random_bank(rng, geom, jnp, D, keys, M, order=None):
    keys = list(keys)
    if order is not None:
        keys = [keys[i] for i in order]
    data = {}
    for (k, p) in keys:
        nf = int(rng.integers(1, 4))
        data[(k, p)] = jnp.asarray(rng.integers(-2, 3, size=(nf,) + tuple(M) + (D,) * k).astype(np.float32))
    return geom.MultiImage(data, D, True)


def lib_opts(D, o):
    """options of a case (JSON-able) -> keyword arguments of ml.ConvContract"""
    kw = {}
    if o.get("stride") is not None:
        kw["stride"] = tuple(o["stride"]) if isinstance(o["stride"], list) else o["stride"]
    pad = o.get("padding")
    if isinstance(pad, list):
        pad = tuple(tuple(p) for p in pad)
    kw["padding"] = pad
    if o.get("lhs_dilation") is not None:
        kw["lhs_dilation"] = tuple(o["lhs_dilation"])
    if o.get("rhs_dilation") is not None:
        kw["rhs_dilation"] = tuple(o["rhs_dilation"]) if isinstance(o["rhs_dilation"], list) else o["rhs_dilation"]
    return kw


def per_axis(D, v, default=1):
    if v is None:
        return [default] * D
    if isinstance(v, (list, tuple)):
        return [int(a) for a in v]
    return [int(v)] * D


def build_layer(ml, D, in_sig, target, bank, bias, opts):
    import jax.random as random

    return ml.ConvContract(tsig(in_sig), tsig(target), bank, bias, key=random.PRNGKey(0), **lib_opts(D, opts))


def set_params(layer, rng, wlo=-2, whi=3, params=None):
    """integer weights and (non-zero) biases, set through eqx.tree_at; returns (layer, weights, bias)
    with numpy copies keyed like the layer's own dicts; `params` = (weights, bias) lists of a replay
    file overrides the random draw"""
    import equinox as eqx
    import jax.numpy as jnp

    if params is not None:
        # stored values wherever they fit the dict structure of the layer built on the current tree
        wl, bl = params
        stored_w = {(tuple(e["s"]), tuple(e["t"])): e["w"] for e in wl}
        stored_b = {tuple(e["t"]): e["data"] for e in bl}
        W = {}
        for s, d in layer.weights.items():
            W[s] = {}
            for t, w in d.items():
                e = stored_w.get((s, t))
                if e is not None and tuple(e["shape"]) == tuple(w.shape):
                    W[s][t] = np.array(e["data"], dtype=np.float32).reshape(w.shape)
                else:
                    W[s][t] = rng.integers(wlo, whi, size=w.shape).astype(np.float32)
        B = {}
        for t, b in layer.bias.items():
            e = stored_b.get(t)
            if e is not None and len(e) == int(np.prod(b.shape)):
                B[t] = np.array(e, dtype=np.float32).reshape(b.shape)
            else:
                B[t] = (rng.integers(1, 4, size=b.shape) * rng.choice([-1, 1], size=b.shape)).astype(np.float32)
    else:
        W = {s: {t: rng.integers(wlo, whi, size=w.shape).astype(np.float32) for t, w in d.items()}
             for s, d in layer.weights.items()}
        B = {}
        for t, b in layer.bias.items():
            v = rng.integers(1, 4, size=b.shape) * rng.choice([-1, 1], size=b.shape)
            B[t] = v.astype(np.float32)
    new = eqx.tree_at(lambda l: (l.weights, l.bias), layer,
                      ({s: {t: jnp.asarray(w) for t, w in d.items()} for s, d in W.items()},
                       {t: jnp.asarray(b) for t, b in B.items()}))
    return new, W, B


def zero_bias(layer):
    import equinox as eqx
    import jax.numpy as jnp

    return eqx.tree_at(lambda l: l.bias, layer, {t: jnp.zeros_like(b) for t, b in layer.bias.items()})


def request(D, in_sig, target, bank, W, B, bias, opts, x_blocks, torus):
    """the driver request describing the layer call"""
    return dict(
        d=D,
        input_keys=jsig(in_sig),
        target_keys=jsig(target),
        use_bias=bias,
        input=[{"key": [int(k), int(p)], "block": jblock(v)} for (k, p), v in x_blocks.items()],
        bank=[{"key": [int(k), int(p)], "block": jblock(np.asarray(v))} for (k, p), v in bank.items()],
        weights=[{"s": list(s), "t": list(t), "w": jblock(w)} for s, d in W.items() for t, w in d.items()],
        bias=[{"t": list(t), "data": [int(v) for v in np.asarray(b).reshape(-1)]} for t, b in B.items()],
        padding=opts.get("padding"),
        torus=[bool(v) for v in torus],
        stride=per_axis(D, opts.get("stride")),
        rd=per_axis(D, opts.get("rhs_dilation")),
        ld=per_axis(D, opts.get("lhs_dilation")),
    )


def run_impl(geom, layer, x_blocks, D, torus):
    import jax.numpy as jnp

    x = geom.MultiImage({k: jnp.asarray(v, dtype=jnp.float32) for k, v in x_blocks.items()}, D,
                        tuple(bool(t) for t in torus))
    out = layer(x)
    return [((int(k), int(p)), np.asarray(v)) for (k, p), v in out.items()]


def blocks_of(model_list):
    return [((int(e["key"][0]), int(e["key"][1])), unblock(e["block"])) for e in model_list]


def compare(impl, ref, float_ok):
    """None when equal (keys in order, shapes, values), else a description"""
    ik = [k for k, _ in impl]
    rk = [k for k, _ in ref]
    if ik != rk:
        if sorted(ik) != sorted(rk):
            return f"block keys differ: got {ik}, expected {rk}"
        return f"block order differs: got {ik}, expected {rk}"
    scale = max([float(np.max(np.abs(v))) for _, v in ref if v.size] + [0.0]) + 1.0
    for (k, a), (_, b) in zip(impl, ref):
        if tuple(a.shape) != tuple(b.shape):
            return f"block {k}: shape {tuple(a.shape)}, expected {tuple(b.shape)}"
        if a.size == 0:
            continue
        if float_ok:
            err = float(np.max(np.abs(a.astype(np.float64) - b)))
            if not err <= 1e-5 * scale:
                return f"block {k}: values differ by {err:.3g} (scale {scale:.3g})"
        elif not np.array_equal(a.astype(np.float64), b):
            bad = np.argwhere(a.astype(np.float64) != b)[0]
            return f"block {k}: value at {tuple(int(v) for v in bad)} is {float(a[tuple(bad)])}, expected {float(b[tuple(bad)])}"
    return None


def mean_branch(bias, target):
    return bias == "mean" or (bias in ("auto", True) and any(tuple(t) != (0, 0) for t, _ in target))


# ---------------------------------------------------------------------------------------------
# the three checks on one layer call


def check_bias_part(layer, geom, x_blocks, D, torus, bias, impl):
    """independent of Lean: layer(x) - layer_with_zero_bias(x) has the form the property states"""
    base = dict(run_impl(geom, zero_bias(layer), x_blocks, D, torus))
    for (k, p), out in impl:
        if (k, p) not in base:
            return f"block {(k, p)} missing without bias"
        diff = out.astype(np.float64) - base[(k, p)].astype(np.float64)
        b = np.asarray(layer.bias[(k, p)], dtype=np.float64) if (k, p) in layer.bias else None
        scale = float(np.max(np.abs(out))) + 1.0
        if (k, p) == (0, 0) and bias in ("auto", "scalar", True):
            want = np.broadcast_to(b, diff.shape)
            form = "a per-channel additive constant"
        elif bias == "mean" or (bias in ("auto", True) and (k, p) != (0, 0)):
            mean = base[(k, p)].astype(np.float64).mean(axis=tuple(range(1, 1 + D)), keepdims=True)
            want = np.broadcast_to(mean * b, diff.shape)
            form = "a per-channel multiple of the block's spatial mean"
        else:
            want = np.zeros_like(diff)
            form = "nothing"
        if not np.max(np.abs(diff - want), initial=0.0) <= 1e-5 * scale:
            return f"bias part of block {(k, p)} with use_bias={bias!r} is not {form}"
    return None


def one_call(ctx: Ctx, geom, ml, c, tag="random", params=None):
    """c: dict(D, in_sig, target, bank, bias, opts, x_blocks (ordered dict), torus)"""
    D = c["D"]
    desc = {
        "D": D, "input_keys": jsig(c["in_sig"]), "target_keys": jsig(c["target"]), "use_bias": c["bias"],
        "opts": c["opts"], "is_torus": [bool(t) for t in c["torus"]],
        "bank": {str(k): list(np.asarray(v).shape) for k, v in c["bank"].items()},
        "x": {str(k): list(np.asarray(v).shape) for k, v in c["x_blocks"].items()},
    }
    bkeys = set(c["bank"].keys())
    missing = any(fkey(s, t) not in bkeys for s, _ in c["in_sig"] for t, _ in c["target"])
    x_order_differs = [k for k in c["x_blocks"]] != [s for s, _ in c["in_sig"] if s in c["x_blocks"]]
    ctx.hist("d", D); ctx.hist("use_bias", c["bias"]); ctx.hist("padding", c.get("padkind", "?"))
    ctx.hist("missing_filter", missing); ctx.hist("n_in,n_out", (len(c["x_blocks"]), len(c["target"])))
    ctx.hist("stride>1", any(s > 1 for s in per_axis(D, c["opts"].get("stride"))))
    ctx.hist("rd>1", any(s > 1 for s in per_axis(D, c["opts"].get("rhs_dilation"))))
    ctx.hist("lhs_dilation", c["opts"].get("lhs_dilation") is not None)
    ctx.hist("x_order_differs", x_order_differs); ctx.hist("bank", c.get("bankkind", "?"))
    ctx.hist("mixed_torus", len(set(bool(t) for t in c["torus"])) > 1)
    # ---- build the real layer
    try:
        layer0 = build_layer(ml, D, c["in_sig"], c["target"], c["bank"], c["bias"], c["opts"])
    except Exception as e:  # noqa: BLE001
        ctx.case((tag, desc), False)
        ctx.violation("oracle", f"ConvContract constructor raised {type(e).__name__} on a valid configuration", desc)
        return None
    # ---- constructor correspondence
    init = ctx.driver.call("c11.init", input_keys=jsig(c["in_sig"]), target_keys=jsig(c["target"]),
                           use_bias=c["bias"],
                           bank=[{"key": list(k), "n": int(np.asarray(v).shape[0])} for k, v in c["bank"].items()])
    impl_init = {
        "weights": [{"s": list(s), "entries": [{"t": list(t), "shape": list(w.shape)} for t, w in d.items()]}
                    for s, d in layer0.weights.items()],
        "bias": [{"t": list(t), "out_c": int(b.shape[0])} for t, b in layer0.bias.items()],
        "missing_filter": bool(layer0.missing_filter),
        "use_bias": layer0.use_bias,
    }
    bias_shapes_ok = all(tuple(b.shape) == (b.shape[0],) + (1,) * (D + t[0]) for t, b in layer0.bias.items())
    layer, W, B = set_params(layer0, ctx.rng, params=params)
    full = dict(desc)
    full["weights"] = [{"s": list(s), "t": list(t), "w": jblock(w)} for s, d in W.items() for t, w in d.items()]
    full["bias"] = [{"t": list(t), "data": [int(v) for v in b.reshape(-1)]} for t, b in B.items()]
    full["bank_blocks"] = [{"key": list(k), "block": jblock(np.asarray(v))} for k, v in c["bank"].items()]
    full["input"] = [{"key": list(k), "block": jblock(v)} for k, v in c["x_blocks"].items()]
    if impl_init != init or not bias_shapes_ok:
        full["impl_init"] = impl_init; full["model_init"] = init
        ctx.violation("correspondence", "constructor (weight/bias shapes, missing_filter, stored use_bias) differs from initShapes", full)
    # ---- the layer AS CONSTRUCTED (its weight dicts still in target_keys order; eqx.tree_at / jit / an optimiser
    # update rebuild them in sorted key order) against the same layer after a pytree round trip: same parameter
    # values, so the defining sum gives the same blocks; a difference means one of the two is not that sum
    if c.get("fresh_check") or ctx.rng.random() < 0.34:
        import jax
        try:
            fresh = run_impl(geom, layer0, c["x_blocks"], D, c["torus"])
            rt = run_impl(geom, jax.tree_util.tree_map(lambda a: a, layer0), c["x_blocks"], D, c["torus"])
            ok = [k for k, _ in fresh] == [k for k, _ in rt] and all(
                a.shape == b.shape and np.allclose(a, b, rtol=1e-4, atol=1e-4 * (1 + float(np.max(np.abs(b), initial=0))))
                for (_, a), (_, b) in zip(fresh, rt))
            what = (f"blocks {[list(k) for k, _ in fresh]} as constructed, {[list(k) for k, _ in rt]} after a pytree round trip"
                    if [k for k, _ in fresh] != [k for k, _ in rt] else "same keys, different values")
        except Exception as e:  # noqa: BLE001
            ok, what = False, f"raised {type(e).__name__}: {str(e)[:160]}"
        ctx.hist("fresh_vs_roundtrip", ok)
        if not ok:
            ctx.violation("oracle", "the layer as constructed and the same layer (same parameter values) after a pytree round "
                          "trip give different outputs, so one of them is not the defining sum: " + what,
                          {**desc, "weights_order_as_constructed": [[list(s), [list(t) for t in d]] for s, d in layer0.weights.items()]})
    # ---- the call
    req = request(D, c["in_sig"], c["target"], c["bank"], W, B, c["bias"], c["opts"], c["x_blocks"], c["torus"])
    try:
        mo = ctx.driver.call("c11.layer", **req)
        model_rejects = None
    except DriverReject as e:
        mo, model_rejects = None, str(e)
    try:
        impl = run_impl(geom, layer, c["x_blocks"], D, c["torus"])
        impl_rejects = None
    except Exception as e:  # noqa: BLE001
        impl, impl_rejects = None, f"{type(e).__name__}: {str(e)[:200]}"
    reach = [s for s in c["x_blocks"]]
    want_sig = [(t, n) for t, n in c["target"] if any(fkey(s, t) in bkeys for s in reach)]
    nontriv = (len(c["x_blocks"]) + len(c["target"]) >= 3) and model_rejects is None and len(want_sig) > 0
    ctx.case((tag, desc, full["weights"], full["bias"], full["input"]), nontriv, sample=desc)
    if model_rejects is not None or impl_rejects is not None:
        ctx.hist("outcome", "rejected")
        if (model_rejects is None) != (impl_rejects is None):
            empty = mo is not None and 0 in mo["out_dims"]
            if not empty:
                full["model_rejects"] = model_rejects; full["impl_rejects"] = impl_rejects
                kind = "oracle" if model_rejects is None and c.get("valid", True) else "correspondence"
                ctx.violation(kind, f"rejection differs: model {model_rejects!r}, implementation {impl_rejects!r}", full)
        return None
    if 0 in mo["out_dims"]:
        ctx.hist("outcome", "empty")
        return None
    ctx.hist("outcome", "ok")
    fl = mean_branch(c["bias"], c["target"])
    spec = blocks_of(mo["spec"])
    model = blocks_of(mo["model"])
    bad = compare(impl, spec, fl)
    # the signature clause, independently of Lean
    got_sig = [(k, int(v.shape[0])) for k, v in impl]
    if bad is None and got_sig != [(tuple(t), n) for t, n in want_sig]:
        bad = f"output signature {got_sig} is not the requested reachable signature {want_sig}"
    if bad is None:
        for k, v in impl:
            if list(v.shape[1:1 + D]) != mo["out_dims"]:
                bad = f"block {k}: spatial shape {v.shape[1:1 + D]} is not the size formula {mo['out_dims']}"
    if bad is None:
        bad = check_bias_part(layer, geom, c["x_blocks"], D, c["torus"], c["bias"], impl)
    if bad is not None:
        full["impl"] = [{"key": list(k), "shape": list(v.shape), "data": [float(u) for u in v.reshape(-1)]} for k, v in impl]
        full["expected"] = mo["spec"]
        ctx.violation("oracle", f"ConvContract(use_bias={c['bias']!r}) output is not the defining sum + selected bias: {bad}", full)
        return layer
    if [tuple(e[0]) for e in mo["spec_sig"]] != [tuple(t) for t, _ in want_sig] or \
            [e[1] for e in mo["spec_sig"]] != [n for _, n in want_sig]:
        ctx.violation("correspondence", "python signature oracle differs from Lean spec convContractOut", full)
    bad = compare(impl, model, fl)
    if bad is not None:
        full["model"] = mo["model"]
        ctx.violation("correspondence", "ConvContract output differs from the Lean model layerV: " + bad, full)
    return layer


# ---------------------------------------------------------------------------------------------
# generators


def gen_opts(rng, D, allow_stride=True, kind=None):
    kind = str(rng.choice(PADKINDS)) if kind is None else kind
    o = {}
    if kind == "none":
        o["padding"] = None
    elif kind in ("TORUS", "SAME", "VALID"):
        o["padding"] = kind
    elif kind == "int":
        o["padding"] = int(rng.integers(0, 3))
    else:
        o["padding"] = [[int(rng.integers(0, 3)), int(rng.integers(0, 3))] for _ in range(D)]
    r = rng.random()
    if allow_stride and r < 0.3:
        o["stride"] = [int(rng.integers(1, 3)) for _ in range(D)]
    elif allow_stride and r < 0.4:
        o["stride"] = 2
    r = rng.random()
    if r < 0.3:
        o["rhs_dilation"] = [int(rng.integers(1, 3)) for _ in range(D)]
    elif r < 0.4:
        o["rhs_dilation"] = 2
    if rng.random() < 0.3:
        o["lhs_dilation"] = [int(rng.integers(1, 3)) for _ in range(D)]
    return kind, o


def gen_sig(rng, types, nmax):
    n = int(rng.integers(1, nmax + 1))
    idx = rng.permutation(len(types))[:n]
    chans = rng.permutation([1, 2, 3])[:n]
    return [(types[int(i)], int(c)) for i, c in zip(idx, chans)]


def gen_case(ctx: Ctx, geom, jnp, D, use_real_bank=False, idx=None):
    rng = ctx.rng
    types = TYPES if D == 2 else TYPES[:4]
    nmax = 3 if D == 2 else 2
    in_sig = gen_sig(rng, types, nmax)
    target = gen_sig(rng, types, nmax)
    uniform = idx is not None and idx % 7 == 3
    if uniform:
        # equal channel counts on each side, a complete bank with one filter size, target types NOT in sorted
        # order (the configuration in which one fused convolution could replace the per-pair ones)
        ci, co = int(rng.integers(1, 4)), int(rng.integers(1, 4))
        in_sig = [((1, 0), ci), ((0, 0), ci)] if rng.integers(2) else [((0, 0), ci), ((1, 0), ci)]
        target = [((1, 0), co), ((0, 0), co)]
    ctx.hist("uniform_channels_unsorted_targets", uniform)
    kind, opts = gen_opts(rng, D, kind=None if idx is None else PADKINDS[idx % len(PADKINDS)])
    need = sorted({fkey(s, t) for s, _ in in_sig for t, _ in target})
    if use_real_bank:
        bank = real_bank(D, 4 if D == 2 else 2)
        M = [3] * D
        if D == 3:
            in_sig = [(t, c) for t, c in in_sig if t[0] <= 1]; target = [(t, c) for t, c in target if t[0] <= 1]
        bankkind = "invariant"
    else:
        keys = list(need)
        if rng.random() < 0.45 and len(keys) > 1 and not uniform:
            drop = rng.permutation(len(keys))[: int(rng.integers(1, min(3, len(keys))))]
            keys = [k for i, k in enumerate(keys) if i not in set(int(v) for v in drop)]
        if kind in ("none", "TORUS", "SAME"):
            M = [int(rng.choice([1, 3, 3])) for _ in range(D)]
        else:
            M = [int(rng.integers(1, 4)) for _ in range(D)]
        if D == 3:
            M = [min(m, 2) if kind not in ("none", "TORUS", "SAME") else m for m in M]
        bank = random_bank(rng, geom, jnp, D, keys, M, order=[int(i) for i in rng.permutation(len(keys))])
        bankkind = "random-integer"
    # extents: the filter must fit into the padded signal on every axis
    N = [int(rng.integers(2, 6 if D == 2 else 4)) for _ in range(D)]
    if kind in ("none", "TORUS") and rng.random() < 0.35:
        # narrow periodic axes: the wrap ((M-1)//2)*dilation is wider than the extent (wraps more than once)
        j = int(rng.integers(D))
        N[j] = int(rng.integers(1, 3))
        opts["rhs_dilation"] = [int(rng.integers(2, 4)) if i == j else 1 for i in range(D)]
    if kind == "VALID" or (kind in ("int", "explicit")):
        rd = per_axis(D, opts.get("rhs_dilation"))
        for j in range(D):
            N[j] = max(N[j], (M[j] - 1) * rd[j] + 1)
    torus = [bool(rng.integers(0, 2)) for _ in range(D)]
    if kind in ("none", "TORUS") and min(N) <= 2:
        torus[int(np.argmin(N))] = True
    # input: the declared blocks (sometimes one is absent), in an order that differs from input_keys
    present = list(in_sig)
    if len(present) > 1 and rng.random() < 0.2 and not uniform:
        present.pop(int(rng.integers(len(present))))
    order = [int(i) for i in rng.permutation(len(present))]
    if len(order) > 1 and order == sorted(order) and rng.random() < 0.7:
        order = order[::-1]  # an input MultiImage whose key order differs from input_keys
    x_blocks = {}
    for i in order:
        (k, p), ch = present[i]
        x_blocks[(k, p)] = rng.integers(-3, 4, size=(ch,) + tuple(N) + (D,) * k).astype(np.float32)
    bias = BIASES[int(rng.integers(len(BIASES)))] if idx is None else BIASES[(idx // 2) % len(BIASES)]
    return dict(D=D, in_sig=in_sig, target=target, bank=bank, bias=bias, opts=opts, x_blocks=x_blocks,
                torus=torus, padkind=kind, bankkind=bankkind)


def fixed_cases(ctx: Ctx, geom, jnp):
    """the D6 / D10 witnesses (with values) and every bias setting on one two-type layer"""
    rng = ctx.rng
    b3 = real_bank(2, 4)
    out = []
    x = {(0, 0): rng.integers(-3, 4, size=(2, 4, 4)).astype(np.float32),
         (1, 0): rng.integers(-3, 4, size=(1, 4, 4, 2)).astype(np.float32)}
    in_sig = [((0, 0), 2), ((1, 0), 1)]
    for bias in BIASES:
        out.append(dict(D=2, in_sig=in_sig, target=[((1, 0), 3), ((0, 0), 1)], bank=b3, bias=bias, opts={"padding": None},
                        x_blocks=x, torus=[True, True], padkind="none", bankkind="invariant"))
    # two target types of one tensor order requested NON-adjacently (a type of another order between them), on a
    # freshly constructed layer: per-order grouping of the targets must not lose or merge either of them
    for bias in ("auto", False):
        out.append(dict(D=2, in_sig=in_sig, target=[((1, 0), 2), ((0, 0), 1), ((1, 1), 3)], bank=b3, bias=bias, fresh_check=True,
                        opts={"padding": None}, x_blocks=x, torus=[True, True], padkind="none", bankkind="invariant"))
        out.append(dict(D=2, in_sig=in_sig, target=[((0, 1), 1), ((1, 0), 2), ((0, 0), 3), ((1, 1), 1)], bank=b3, bias=bias, fresh_check=True,
                        opts={"padding": None}, x_blocks=x, torus=[True, False], padkind="none", bankkind="invariant"))
    # D10 witness: the (0,1) target is only reachable from the second input type
    sub = geom.MultiImage({k: v for k, v in b3.items() if k != (0, 1)}, 2, True)
    out.append(dict(D=2, in_sig=in_sig, target=[((0, 1), 1), ((0, 0), 2)], bank=sub, bias="auto", opts={"padding": None},
                    x_blocks=x, torus=[True, False], padkind="none", bankkind="invariant"))
    return out


def malformed_cases(ctx: Ctx, geom, ml, jnp):
    """an input block whose key was not declared: both sides must reject"""
    rng = ctx.rng
    for D in (2,):
        c = gen_case(ctx, geom, jnp, D)
        extra = [t for t in TYPES if t not in [s for s, _ in c["in_sig"]]][0]
        xb = dict(c["x_blocks"])
        N = next(iter(xb.values())).shape[1:1 + D]
        xb[extra] = rng.integers(-3, 4, size=(1,) + tuple(N) + (D,) * extra[0]).astype(np.float32)
        c = dict(c, x_blocks=xb, valid=False)
        one_call(ctx, geom, ml, c, tag="undeclared-key")


def run(ctx: Ctx):
    import jax.numpy as jnp
    import ginjax.geometric as geom
    import ginjax.ml as ml

    ctx.rule = (
        "real ml.ConvContract objects with integer weights/biases (eqx.tree_at) on integer MultiImages: input and "
        "target signatures = random subsets (1-3 types) of {(k,p): k<=2} (d=3: k<=1) in random key order with distinct "
        "channel counts 1-3, input MultiImage in a key order that differs from input_keys (sometimes a declared block "
        "absent), all five bias settings with non-zero integer biases, six padding kinds (default, TORUS, SAME, VALID, "
        "integer, explicit pairs incl. asymmetric), stride 1-2, filter dilation 1-2, image dilation absent or 1-2, all "
        "torus flag combinations, extents 2-5 non-square, random integer banks (1-3 filters per type, side 1-3, "
        "non-square, random dict order, with and without missing filter types) and the real invariant bank of B_d; "
        "the D6/D10 witnesses; an undeclared input key (expected: rejected by both). Non-trivial: at least three "
        "blocks among inputs and targets, accepted, non-empty output. Distinct = distinct (configuration, weights, "
        "biases, input values)."
    )
    ctx.assumptions = [
        "integer-valued float32 inputs, weights, biases and filters keep every partial sum exact; the float32 spatial mean of the mean-scaled bias is compared with tolerance 1e-5 * (1 + max |block|)",
        "all blocks of one MultiImage share their extents; all filters of a bank share theirs (banks of get_invariant_filters(Ms=[M]))",
    ]
    ctx.trusted_extra = [
        "geom.convolve_contract is modelled by convContractImpl (tied to the code by the C04 check); jax.lax.conv_general_dilated by xlaConv",
        "jnp.einsum('ijk,k...->ij...'), jnp.mean, broadcasting of the (out_c,1,...,1) bias are modelled by index arithmetic",
        "the driver evaluates layerV as biasLoopV . emitInTargetOrderV . individualConvolveV with array-backed copies of the intermediate blocks",
    ]
    quick = ctx.tier == "quick"
    t0 = time.time()
    for c in fixed_cases(ctx, geom, jnp):
        one_call(ctx, geom, ml, c, tag="witness")
    n2, n3, nreal = (46, 5, 4) if quick else (1800, 160, 240)
    for i in range(n2):
        one_call(ctx, geom, ml, gen_case(ctx, geom, jnp, 2, idx=i))
    for i in range(nreal):
        one_call(ctx, geom, ml, gen_case(ctx, geom, jnp, 2, use_real_bank=True, idx=i), tag="invariant-bank")
    for i in range(n3):
        one_call(ctx, geom, ml, gen_case(ctx, geom, jnp, 3, idx=i))
    malformed_cases(ctx, geom, ml, jnp)
    log(f"[C11] {ctx.evaluations} layer calls in {time.time() - t0:.1f}s")


def replay(ctx: Ctx, rep: dict):
    """re-run the stored layer call (configuration, bank, weights, biases, input) on the current tree"""
    import jax.numpy as jnp
    import ginjax.geometric as geom
    import ginjax.ml as ml

    c0 = rep["case"]
    D = c0["D"]
    arr = lambda b: np.array(b["data"], dtype=np.float32).reshape(b["shape"])
    bank = geom.MultiImage({tuple(e["key"]): jnp.asarray(arr(e["block"])) for e in c0["bank_blocks"]}, D, True)
    c = dict(D=D, in_sig=[(tuple(t), n) for t, n in c0["input_keys"]], target=[(tuple(t), n) for t, n in c0["target_keys"]],
             bank=bank, bias=c0["use_bias"], opts=c0["opts"], torus=c0["is_torus"],
             x_blocks={tuple(e["key"]): arr(e["block"]) for e in c0["input"]}, padkind="replay", bankkind="replay")
    ctx.rule = "replay of one stored layer call"
    one_call(ctx, geom, ml, c, tag="replay", params=(c0.get("weights", []), c0.get("bias", [])))
