"""C17 - mini-batching is an aligned partition of the data set.

Every sample (all channels, pixels and tensor components of one entry of the leading axis) of
type `ti` of co-batched multi-image `j` is filled with `idx + 100*ti + 10000*j`, so the output of
the real `ml.get_batches` can be decoded into sample indices exactly.

oracle: the property's sentence checked directly on the decoded output: floor(L/B) batches per
  multi-image; every multi-image and every type shows the same index sequence, in the same order
  (input i stays paired with target i); no index twice per epoch, all indices valid; identity order
  without a key; the device axis only reshapes (same flattened sequence as with one device).
correspondence: the Lean model `getBatches` driven with the permutation observed from the
  implementation ("given this permutation, the same batches"), and `reshapePmap` called directly
  with device lists of length 1, 2, 3, exact comparison by key; rejections must agree.

Use of the batches (`ml.map_loss_in_batches`, `ml.map_plus_loss_in_batches`, hence `evaluate` in both
branches, `loss_reducer`, `multi_image_reducer`): a model that maps every sample independently
(`2 * block + the sample's own first entry`), `map_and_loss` = `jax.vmap(model)` + `ml.smse_loss`
(2-tuple and 3-tuple forms), inputs whose sample `i` of type `t` is the constant `(i + 1) + 16 * t`,
integer targets `3 * input + small offsets`; all per-sample losses are small multiples of 1/4.
oracle: numpy table `loss[i][j]` (prediction from input i against target j, exact rationals); the
  value must be the mean of `loss[i][i]` over exactly the used samples (input i with target i), the
  mapped output `f` of the used samples in batch order for every type (identity order without a key,
  no repetition with one), and the mean over all samples whatever the key when B divides L.
correspondence: the Lean model `mapLossInBatches` / `mapPlusLossInBatches` (driver ops `c17.map_loss`,
  `c17.map_plus`) with the same table and the observed permutation: value, used indices and per-type
  order of the mapped samples; rejections (L < B) must agree.
"""
from __future__ import annotations

from fractions import Fraction

import numpy as np

from common import Ctx, DriverReject

D = 2
N = 2
TYPES = [(0, 0), (1, 0), (0, 1), (2, 0)]
CHANNELS = [2, 1, 1, 1]
# type sets (type indices, dict insertion order) a co-batched multi-image can have
TYPESETS = [[0, 1], [0], [1, 2], [2, 0, 3], [1], [3, 1]]


def key_str(ti):
    return f"{TYPES[ti][0]},{TYPES[ti][1]}"


def sample_id(idx, ti, j):
    return idx + 100 * ti + 10000 * j


_MI = {}


def make_mi(geom, jnp, L, ts, j, side=N):
    ck = (L, tuple(ts), j, side)
    if ck not in _MI:
        if len(_MI) > 400:
            _MI.clear()
        data = {}
        for ti in ts:
            k, par = TYPES[ti]
            ids = np.asarray([sample_id(i, ti, j) for i in range(L)], dtype=np.float32)
            shape = (L, CHANNELS[ti]) + (side,) * D + (D,) * k
            data[(k, par)] = jnp.asarray(np.broadcast_to(ids.reshape((L,) + (1,) * (len(shape) - 1)), shape).copy())
        _MI[ck] = geom.MultiImage(data, D, True)
    return _MI[ck]


def model_mi(L, ts, j):
    return [[key_str(ti), [sample_id(i, ti, j) for i in range(L)]] for ti in ts]


def decode_block(a, ti, lead, side=N):
    """block with `lead` leading axes (2: device x sample, 1: sample) -> nested ids"""
    a = np.asarray(a)
    k = TYPES[ti][0]
    want_tail = (CHANNELS[ti],) + (side,) * D + (D,) * k
    if a.ndim != lead + len(want_tail) or tuple(a.shape[lead:]) != want_tail:
        return ["bad-shape", list(a.shape)]
    flat = a.reshape(a.shape[:lead] + (-1,))
    const = (flat == flat[..., :1]).all(axis=-1)
    vals = flat[..., 0]

    def one(v, c):
        return int(v) if c and float(v) == int(v) else ["garbled", float(v)]

    if lead == 1:
        return [one(vals[r], const[r]) for r in range(a.shape[0])]
    return [[one(vals[d, r], const[d, r]) for r in range(a.shape[1])] for d in range(a.shape[0])]


def decode_mi(mi, ts, lead, side=N):
    out = {}
    by_key = {TYPES[ti]: ti for ti in ts}
    for kp, blk in mi.items():
        ti = by_key.get(tuple(kp))
        out[f"{kp[0]},{kp[1]}"] = ["unknown-key"] if ti is None else decode_block(blk, ti, lead, side)
    return out


def flat_idx(rows, ti, j):
    """device rows of ids -> flat list of sample indices (None where undecodable)"""
    out = []
    if not isinstance(rows, list):
        return None
    for row in rows:
        if not isinstance(row, list):
            return None
        for v in row:
            out.append(v - 100 * ti - 10000 * j if isinstance(v, int) else None)
    return out


def run_case(ctx: Ctx, ml, geom, jnp, random, L, B, seed, tsets, nd, single, sides=None):
    nmis = len(tsets)
    sides = sides or [N] * nmis
    mis = [make_mi(geom, jnp, L, ts, j, sides[j]) for j, ts in enumerate(tsets)]
    key = None if seed is None else random.PRNGKey(seed)
    devices = None if nd is None else [None] * nd
    ndv = 1 if nd is None else nd
    case = {
        "fn": "ml.get_batches", "L": L, "batch_size": B, "key": None if seed is None else f"PRNGKey({seed})",
        "multi_images": [[list(TYPES[ti]) for ti in ts] for ts in tsets],
        "devices": "jax.devices()" if nd is None else f"{nd} synthetic",
        "passed_as": "single MultiImage" if single else "sequence",
        "encoding": "sample = idx + 100*type + 10000*multi_image",
        "spatial_sides": list(sides),
    }
    try:
        out = ml.get_batches(mis[0] if single else tuple(mis), B, key, devices)
        impl = [[decode_mi(b, tsets[j], 2, sides[j]) for b in row] for j, row in enumerate(out)]
    except Exception as e:  # noqa: BLE001
        impl = "rejected:" + type(e).__name__
    nb = L // B
    nontriv = seed is not None and nb >= 2 and (nmis >= 2 or len(tsets[0]) >= 2)
    ctx.case(("batches", L, B, seed, tuple(map(tuple, tsets)), nd, single), nontriv,
             sample=dict(case, n_batches=nb) if (L, B) == (7, 3) else None)
    ctx.hist("key", "none" if seed is None else "key")
    ctx.hist("n_multi_images", nmis)
    ctx.hist("devices", ndv)
    ctx.hist("divisible", L % B == 0)
    expect_reject = nb >= 1 and B % ndv != 0
    # ---------------- oracle: the sentence of the property on the decoded output
    ok = True
    seqs = None
    if isinstance(impl, str):
        if not expect_reject:
            ctx.violation("oracle", "get_batches raises on a valid configuration", dict(case, impl=impl))
            return
    else:
        def bad(what, **kw):
            nonlocal ok
            if ok:
                ctx.violation("oracle", what, dict(case, **kw))
            ok = False

        if len(impl) != nmis or any(len(row) != nb for row in impl):
            bad("number of batches is not floor(L / B) for every multi-image",
                got=[len(row) for row in impl], want=[nb] * nmis)
        else:
            seqs = []
            for i in range(nb):
                ref = None
                for j, ts in enumerate(tsets):
                    b = impl[j][i]
                    if sorted(b.keys()) != sorted(key_str(ti) for ti in ts):
                        bad("a batch does not have the types of its multi-image", batch=i, multi_image=j, keys=sorted(b.keys()))
                        continue
                    for ti in ts:
                        rows = b[key_str(ti)]
                        fl = flat_idx(rows, ti, j)
                        shape_ok = (fl is not None and len(rows) == ndv and all(len(r) == B // ndv for r in rows))
                        if not shape_ok or any(v is None for v in fl):
                            bad("a batch block is not (devices, B/devices) whole samples of its own type",
                                batch=i, multi_image=j, type=key_str(ti), got=rows)
                            continue
                        if ref is None:
                            ref = fl
                        elif fl != ref:
                            bad("co-batched blocks are sliced with different indices (pairing broken)",
                                batch=i, multi_image=j, type=key_str(ti), got=fl, first_block=ref)
                seqs.append(ref)
            if ok:
                allidx = [v for s in seqs for v in s]
                if len(set(allidx)) != len(allidx) or any(not (0 <= v < L) for v in allidx):
                    bad("a sample index occurs twice in one epoch or is out of range", indices=allidx)
                elif seed is None and allidx != list(range(nb * B)):
                    bad("without a key the order is not the identity", indices=allidx)
    if not ok:
        return
    # ---------------- the device axis only reshapes: same flattened order as with one device
    if not isinstance(impl, str) and ndv > 1:
        try:
            out1 = ml.get_batches(mis[0] if single else tuple(mis), B, key, [None])
            impl1 = [[decode_mi(b, tsets[j], 2) for b in row] for j, row in enumerate(out1)]
            for j, ts in enumerate(tsets):
                for i in range(nb):
                    for ti in ts:
                        a = flat_idx(impl[j][i][key_str(ti)], ti, j)
                        b1 = flat_idx(impl1[j][i][key_str(ti)], ti, j)
                        if a != b1 and ok:
                            ok = False
                            ctx.violation("oracle", "the device axis reorders samples (differs from one device)",
                                          dict(case, batch=i, multi_image=j, type=key_str(ti), got=a, one_device=b1))
        except Exception as e:  # noqa: BLE001
            ctx.violation("oracle", "get_batches raises with one device", dict(case, impl=str(type(e).__name__)))
            return
    if not ok:
        return
    # ---------------- correspondence: the model given the observed permutation
    perm = None
    if seed is not None:
        seen = [v for s in (seqs or []) for v in s]
        perm = seen + [v for v in range(L) if v not in set(seen)]
    try:
        mod = ctx.driver.call("c17.batches", perm=perm, B=B, nd=ndv,
                              mis=[model_mi(L, ts, j) for j, ts in enumerate(tsets)])
        mod = [[{k: v for k, v in b} for b in row] for row in mod]
    except DriverReject:
        mod = "rejected"
    if isinstance(impl, str) or isinstance(mod, str):
        if isinstance(impl, str) != isinstance(mod, str):
            ctx.violation("correspondence", "model and implementation do not both reject",
                          dict(case, impl=impl if isinstance(impl, str) else "accepted",
                               model=mod if isinstance(mod, str) else "accepted"))
        return
    if mod != impl:
        ctx.violation("correspondence", "get_batches differs from the Lean model getBatches on the observed permutation",
                      dict(case, permutation=perm, impl=impl, model=mod))


def run_reshape(ctx: Ctx, geom, jnp, jax, L, ts, nd):
    mi = make_mi(geom, jnp, L, ts, 0)
    devices = jax.devices() if nd is None else [None] * nd
    ndv = len(devices)
    case = {"fn": "MultiImage.reshape_pmap", "L": L, "types": [list(TYPES[ti]) for ti in ts],
            "devices": "jax.devices()" if nd is None else f"{nd} synthetic"}
    try:
        impl = decode_mi(mi.reshape_pmap(devices), ts, 2)
    except Exception as e:  # noqa: BLE001
        impl = "rejected:" + type(e).__name__
    try:
        mod = {k: v for k, v in ctx.driver.call("c17.reshape_pmap", nd=ndv, mi=model_mi(L, ts, 0))}
    except DriverReject:
        mod = "rejected"
    ctx.case(("reshape", L, tuple(ts), nd), ndv >= 2 and L % ndv == 0 and L // ndv >= 2)
    ctx.hist("reshape_devices", ndv)
    if L % ndv == 0:
        want = {key_str(ti): [[sample_id(d * (L // ndv) + r, ti, 0) for r in range(L // ndv)] for d in range(ndv)]
                for ti in ts}
        if impl != want:
            ctx.violation("oracle", "reshape_pmap is not the pure reshape (devices, L/devices)",
                          dict(case, impl=impl, expected=want))
        elif mod != impl:
            ctx.violation("correspondence", "reshape_pmap differs from the Lean model reshapePmap", dict(case, impl=impl, model=mod))
    elif isinstance(impl, str) != isinstance(mod, str):
        ctx.violation("correspondence", "device count not dividing L: model and implementation do not both reject",
                      dict(case, impl=impl if isinstance(impl, str) else "accepted", model=mod if isinstance(mod, str) else "accepted"))


# ---------------------------------------------------------------- evaluation over the batches
LOSS_TYPES = [(0, 0), (1, 0)]  # input / output types of the loss family (one channel each)
EXTRA_TYPE = (0, 1)  # a target type the model does not produce (ignored by smse_loss)
_LOSS = {}


def loss_tools():
    """the per-sample model and the two shapes of map_and_loss (built once)"""
    if not _LOSS:
        import equinox as eqx
        import jax

        import ginjax.ml as ml

        class Affine(eqx.Module):
            """maps every sample independently: 2 * block + the sample's own first entry"""

            def __call__(self, x, aux_data=None):
                out = x.empty()
                for (k, par), blk in x.items():
                    out.append(k, par, 2 * blk + blk.reshape(-1)[0])
                return out, aux_data

        def mal(model, x, y, aux_data):
            pred, aux_data = jax.vmap(model, in_axes=(0, None), out_axes=(0, None))(x, aux_data)
            return ml.smse_loss(pred, y), aux_data

        def mal_map(model, x, y, aux_data):
            pred, aux_data = jax.vmap(model, in_axes=(0, None), out_axes=(0, None))(x, aux_data)
            return ml.smse_loss(pred, y), aux_data, pred

        _LOSS.update(model=Affine(), mal=mal, mal_map=mal_map)
    return _LOSS


def loss_value(i, t):
    return (i + 1) + 16 * t


def loss_shape(L, t):
    return (L, 1) + (N,) * D + (D,) * LOSS_TYPES[t][0]


def loss_data(rng, L, ntypes, yextra):
    """integer numpy inputs / targets (dict insertion order = list order) and the oracle table"""
    xs, ys = [], []
    for t in range(ntypes):
        shp = loss_shape(L, t)
        ids = np.asarray([loss_value(i, t) for i in range(L)], dtype=np.int64)
        x = np.broadcast_to(ids.reshape((L,) + (1,) * (len(shp) - 1)), shp).copy()
        xs.append((LOSS_TYPES[t], x))
        ys.append((LOSS_TYPES[t], 3 * x + rng.integers(0, 3, size=shp)))
    if yextra:
        junk = (EXTRA_TYPE, rng.integers(-5, 6, size=(L, 1) + (N,) * D))
        ys.insert(int(rng.integers(0, len(ys) + 1)), junk)
    ydict = dict(ys)
    table = [[Fraction(0)] * L for _ in range(L)]
    for kp, x in xs:
        pred = 2 * x + x.reshape(L, -1)[:, 0].reshape((L,) + (1,) * (x.ndim - 1))  # the model, in numpy
        for i in range(L):
            for j in range(L):
                table[i][j] += Fraction(int(np.sum((pred[i] - ydict[kp][j]) ** 2)), N**D)
    return xs, ys, table


def decode_mapped(out, ntypes, want_len):
    """mapped MultiImage -> {key: [sample index or None]} (or a string describing a malformed block)"""
    res = {}
    by_key = {LOSS_TYPES[t]: t for t in range(ntypes)}
    for kp, blk in out.items():
        t = by_key.get(tuple(kp))
        if t is None:
            return f"unexpected key {tuple(kp)}"
        a = np.asarray(blk)
        if tuple(a.shape) != loss_shape(want_len, t):
            return f"type {tuple(kp)} has shape {tuple(a.shape)}, expected {loss_shape(want_len, t)}"
        flat = a.reshape(want_len, -1)
        ids = []
        for r in range(want_len):
            v = float(flat[r, 0])
            const = bool((flat[r] == flat[r, 0]).all())
            i = (v / 3) - 16 * t - 1
            ids.append(int(i) if const and i == int(i) else None)
        res[key_str_kp(kp)] = ids
    if len(res) != ntypes:
        return f"mapped output has {len(res)} types, the model produces {ntypes}"
    return res


def key_str_kp(kp):
    return f"{kp[0]},{kp[1]}"


def frac_close(got, want: Fraction, exact: bool):
    w = float(want)
    if exact:
        return got == w
    return abs(got - w) <= 1e-6 * max(1.0, abs(w))


def run_loss_case(ctx: Ctx, ml, geom, jax, jnp, random, L, B, seed, ntypes, yextra):
    tools = loss_tools()
    xs, ys, table = loss_data(ctx.rng, L, ntypes, yextra)
    X = geom.MultiImage({kp: jnp.asarray(a.astype(np.float32)) for kp, a in xs}, D, True)
    Y = geom.MultiImage({kp: jnp.asarray(a.astype(np.float32)) for kp, a in ys}, D, True)
    key = None if seed is None else random.PRNGKey(seed)
    devices = jax.devices()[:1]
    n = L // B
    case = {
        "fn": "ml.map_loss_in_batches / ml.map_plus_loss_in_batches", "L": L, "batch_size": B,
        "key": None if seed is None else f"PRNGKey({seed})", "devices": "jax.devices()[:1]",
        "model": "per sample: 2 * block + block.reshape(-1)[0]", "map_and_loss": "vmap(model) + ml.smse_loss",
        "x": {key_str_kp(kp): "sample i = constant (i + 1) + 16 * type" for kp, _ in xs},
        "y": {key_str_kp(kp): a.astype(int).tolist() for kp, a in ys},
        "per_sample_loss[i][i]": [str(table[i][i]) for i in range(L)],
    }

    def call(fn, mal):
        try:
            return fn(mal, tools["model"], X, Y, B, key, devices)
        except Exception as e:  # noqa: BLE001
            return "rejected:" + type(e).__name__

    r_plus = call(ml.map_plus_loss_in_batches, tools["mal_map"])
    r_loss = call(ml.map_loss_in_batches, tools["mal"])
    ctx.case(("maploss", L, B, seed, ntypes, yextra), n >= 2,
             sample=dict(case, n_batches=n) if (L, B, ntypes) == (7, 3, 2) else None)
    ctx.hist("maploss_key", "none" if seed is None else "key")
    ctx.hist("maploss_batches", n)
    ctx.hist("maploss_divisible", L % B == 0)
    xkeys = [key_str_kp(kp) for kp, _ in xs]
    ykeys = [key_str_kp(kp) for kp, _ in ys]
    tab_json = [[[t.numerator, t.denominator] for t in row] for row in table]

    def model_call(op, perm):
        try:
            return ctx.driver.call(op, L=L, B=B, nd=1, perm=perm, xkeys=xkeys, ykeys=ykeys, loss=tab_json)
        except DriverReject:
            return "rejected"

    if n == 0:
        # no batch at all: nothing the property pins; the model says both raise
        perm = None if seed is None else [int(v) for v in np.asarray(random.permutation(key, L))]
        for name, r, op in (("map_loss_in_batches", r_loss, "c17.map_loss"),
                            ("map_plus_loss_in_batches", r_plus, "c17.map_plus")):
            mod = model_call(op, perm)
            if isinstance(r, str) != isinstance(mod, str):
                ctx.violation("correspondence", f"L < batch_size: model and {name} do not both reject",
                              dict(case, impl=r if isinstance(r, str) else "accepted",
                                   model=mod if isinstance(mod, str) else "accepted"))
        return
    # ---------------- oracle: the mapped output is f of the used samples, in batch order, per type
    for name, r in (("map_loss_in_batches", r_loss), ("map_plus_loss_in_batches", r_plus)):
        if isinstance(r, str):
            ctx.violation("oracle", f"{name} raises on a valid configuration", dict(case, impl=r))
            return
    try:
        v_plus = float(np.asarray(r_plus[0]).reshape(()))
        v_loss = float(np.asarray(r_loss).reshape(()))
        dec = decode_mapped(r_plus[1], ntypes, n * B)
    except Exception as e:  # noqa: BLE001
        ctx.violation("oracle", "the result is not (scalar loss[, mapped MultiImage])", dict(case, error=repr(e)))
        return
    if isinstance(dec, str):
        ctx.violation("oracle", "mapped output of map_plus_loss_in_batches is not the model applied to "
                      "floor(L/B)*B whole samples per type: " + dec, case)
        return
    used = dec[xkeys[0]]
    for k in xkeys:
        if any(v is None for v in dec[k]) or dec[k] != used:
            ctx.violation("oracle", "mapped output: a type is not f of whole samples, or the types show "
                          "different sample orders", dict(case, mapped=dec))
            return
    if len(set(used)) != len(used) or any(not (0 <= v < L) for v in used):
        ctx.violation("oracle", "mapped output: a sample occurs twice in one pass or is out of range",
                      dict(case, mapped_order=used))
        return
    if seed is None and used != list(range(n * B)):
        ctx.violation("oracle", "without a key the mapped output is not f of the first floor(L/B)*B samples in order",
                      dict(case, mapped_order=used))
        return
    # ---------------- oracle: the value is the mean of the paired per-sample losses over the used samples
    exact = (B & (B - 1)) == 0 and (n & (n - 1)) == 0
    want = sum(table[i][i] for i in used) / len(used)
    for name, v in (("map_loss_in_batches", v_loss), ("map_plus_loss_in_batches", v_plus)):
        if not frac_close(v, want, exact):
            ctx.violation("oracle", f"{name} is not the mean over the used samples of loss(f(x_i), y_i)",
                          dict(case, got=v, expected=str(want), used=used, exact_comparison=exact))
            return
    if L % B == 0:
        full = sum(table[i][i] for i in range(L)) / L
        for name, v in (("map_loss_in_batches", v_loss), ("map_plus_loss_in_batches", v_plus)):
            if not frac_close(v, full, exact):
                ctx.violation("oracle", f"B divides L: {name} is not the mean over all samples (depends on the key)",
                              dict(case, got=v, expected=str(full), used=used))
                return
    # ---------------- correspondence: the Lean model on the observed permutation
    perm = None if seed is None else used + [v for v in range(L) if v not in set(used)]
    m_loss = model_call("c17.map_loss", perm)
    m_plus = model_call("c17.map_plus", perm)
    if isinstance(m_loss, str) or isinstance(m_plus, str):
        ctx.violation("correspondence", "the model rejects a configuration the implementation accepts",
                      dict(case, permutation=perm, model_map_loss=m_loss if isinstance(m_loss, str) else "accepted",
                           model_map_plus=m_plus if isinstance(m_plus, str) else "accepted"))
        return
    ml_v = Fraction(m_loss["loss"][0], m_loss["loss"][1])
    mp_v = Fraction(m_plus["loss"][0], m_plus["loss"][1])
    if not frac_close(v_loss, ml_v, exact) or m_loss["used"] != used:
        ctx.violation("correspondence", "map_loss_in_batches differs from the Lean model mapLossInBatches",
                      dict(case, permutation=perm, impl=v_loss, model=str(ml_v), impl_used=used, model_used=m_loss["used"]))
        return
    mod_out = {k: [v - 100 * xkeys.index(k) for v in ids] for k, ids in m_plus["out"]}
    if not frac_close(v_plus, mp_v, exact) or mod_out != dec:
        ctx.violation("correspondence", "map_plus_loss_in_batches differs from the Lean model mapPlusLossInBatches",
                      dict(case, permutation=perm, impl=v_plus, model=str(mp_v), impl_mapped=dec, model_mapped=mod_out))


def run(ctx: Ctx):
    import jax
    import jax.numpy as jnp
    import jax.random as random

    import ginjax.geometric as geom
    import ginjax.ml as ml

    quick = ctx.tier == "quick"
    Lmax = 12 if quick else 16
    nkeys = 4 if quick else 30
    LmaxLoss, BmaxLoss, nkeysLoss = (9, 4, 1) if quick else (12, 6, 3)
    ctx.rule = (
        f"all (L <= {Lmax}, 1 <= B <= L): once without a key and with {nkeys} random keys, 1..3 co-batched "
        "multi-images with type sets drawn from 6 (scalars, vectors, pseudoscalars, 2-tensors; 1-3 types), the "
        "real device list (length 1) and, when it divides B (and sometimes when it does not), synthetic device "
        "lists of length 2 and 3; a single MultiImage passed instead of a sequence now and then; reshape_pmap "
        "directly for L <= 12 with 1, 2, 3 devices. A get_batches case is non-trivial when it has a key, >= 2 "
        "batches and >= 2 co-batched blocks (multi-images or types); distinct = distinct (L, B, key, type sets, "
        f"devices). Use of the batches: all (L <= {LmaxLoss}, B <= {BmaxLoss}) incl. L < B, once without a key and "
        f"with {nkeysLoss} random key(s), 1-2 input/output tensor types, now and then a target type the model does "
        "not produce, one real device; non-trivial when there are >= 2 batches."
    )
    ctx.assumptions = [
        "all co-batched multi-images and all their types have the same leading extent L",
        "B >= 1; L small enough that float division L / B is exact",
        "random.permutation returns a permutation of range(L) (checked on every call by the oracle)",
        "map_loss_in_batches / map_plus_loss_in_batches: one device (device invariance is a theorem only); "
        "map_and_loss = vmap(model) + smse_loss, returning the vmapped prediction in the 3-tuple form; values are "
        "compared exactly when batch size and batch count are powers of two (all float32 operations exact), "
        "otherwise with relative tolerance 1e-6 (float32 division by 3, 5, ...); two calls with the same key "
        "are assumed to draw the same permutation",
    ]
    ctx.trusted_extra = ["jax.random.permutation is modelled as an arbitrary permutation handed to the model"]
    rng = ctx.rng
    for L in range(1, Lmax + 1):
        for B in range(1, L + 1):
            seeds = [None] + [int(s) for s in rng.integers(0, 2**31 - 1, size=nkeys)]
            for seed in seeds:
                nmis = int(rng.integers(1, 4))
                tsets = [TYPESETS[int(t)] for t in rng.integers(0, len(TYPESETS), size=nmis)]
                single = nmis == 1 and bool(rng.integers(2))
                run_case(ctx, ml, geom, jnp, random, L, B, seed, tsets, None, single)
            for nd in (2, 3):
                if B % nd == 0 or rng.integers(5) == 0:
                    nmis = int(rng.integers(1, 4))
                    tsets = [TYPESETS[int(t)] for t in rng.integers(0, len(TYPESETS), size=nmis)]
                    seed = None if rng.integers(4) == 0 else int(rng.integers(0, 2**31 - 1))
                    run_case(ctx, ml, geom, jnp, random, L, B, seed, tsets, nd, False)
    # co-batched multi-images of very different size (one above 2**20 elements, e.g. a high-resolution input next
    # to a small target): size-dependent gathering strategies must still slice both with the same indices
    for (L, B) in ((16, 5), (16, 4)) if quick else ((16, 5), (16, 4), (18, 7), (20, 3)):
        for seed in [None] + [int(s) for s in rng.integers(0, 2**31 - 1, size=2)]:
            run_case(ctx, ml, geom, jnp, random, L, B, seed, [[0], [1, 2]], None, False, sides=[192, N])
            run_case(ctx, ml, geom, jnp, random, L, B, seed, [[1], [0]], None, False, sides=[N, 192])
    _MI.clear()
    for L in range(1, 13):
        for nd in (None, 1, 2, 3):
            run_reshape(ctx, geom, jnp, jax, L, TYPESETS[int(rng.integers(len(TYPESETS)))], nd)
    for L in range(1, LmaxLoss + 1):
        for B in range(1, BmaxLoss + 1):
            seeds = [None] + [int(v) for v in rng.integers(0, 2**31 - 1, size=nkeysLoss)]
            for seed in seeds:
                ntypes = 1 + int(rng.integers(2))
                yextra = bool(rng.integers(4) == 0)
                run_loss_case(ctx, ml, geom, jax, jnp, random, L, B, seed, ntypes, yextra)
    ctx.exhaustive = True
    ctx.notes["exhaustive_scope"] = f"all (L<={Lmax}, B<=L) without key; sampled keys, type sets, device counts"
