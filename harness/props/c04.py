"""C04 - convolution computes its mathematical definition in every mode.

correspondence (three diffs per case, all exact on integer inputs):
  * jax.lax.conv_general_dilated itself vs the Lean model `xlaConv` (validates the trusted definition),
  * geom.convolve / GeometricImage.convolve_with / geom.convolve_contract vs the Lean model of the
    code's pipeline `convImpl` / `convContractImpl` (tensor expansion, channel layout, grouped conv),
  * and vs the Lean spec `convSpec` / `convContractSpec` (the property's direct sum).
oracle: implementation == spec (the property pins the output), output shape == size formula,
  bilinearity on the implementation.
"""
from __future__ import annotations

import itertools

import numpy as np

from common import Ctx, DriverReject, jarr, unarr


def gen_case(ctx: Ctx, d=None):
    rng = ctx.rng
    d = int(rng.choice([2, 2, 2, 3])) if d is None else d
    kI = int(rng.choice([0, 0, 1, 1, 2])) if d == 2 else int(rng.choice([0, 0, 1]))
    kF = int(rng.choice([0, 1, 1, 2])) if d == 2 else int(rng.choice([0, 1]))
    B = int(rng.choice([1, 1, 2]))
    inC = int(rng.choice([1, 2, 3]))
    outC = int(rng.choice([1, 2, 3]))
    N = [int(rng.integers(1, 6)) for _ in range(d)]
    kind = str(rng.choice(["TORUS", "SAME", "VALID", "int", "explicit", "none"]))
    if kind in ("TORUS", "SAME", "none"):
        M = [int(rng.choice([1, 3, 3, 5])) for _ in range(d)]
    else:
        M = [int(rng.integers(1, 5)) for _ in range(d)]
    if rng.random() < 0.1 and kind in ("TORUS", "SAME", "none"):
        M[int(rng.integers(d))] = 2  # malformed: even filter with string padding -> rejected
    torus = [bool(rng.integers(0, 2)) for _ in range(d)]
    stride = [int(rng.choice([1, 1, 1, 2, 3])) for _ in range(d)]
    rd = [int(rng.choice([1, 1, 2, 3])) for _ in range(d)]
    use_ld = bool(rng.random() < 0.35)
    ld = [int(rng.choice([1, 2, 3])) for _ in range(d)] if use_ld else None
    if kind == "int":
        padding = int(rng.integers(0, 4))
    elif kind == "explicit":
        padding = [[int(rng.integers(0, 4)), int(rng.integers(0, 4))] for _ in range(d)]
    elif kind == "none":
        padding = None
    else:
        padding = kind
    img = rng.integers(-3, 4, size=[B, inC] + N + [d] * kI).astype(np.int64)
    flt = rng.integers(-2, 3, size=[outC, inC] + M + [d] * kF).astype(np.int64)
    return dict(d=d, kI=kI, kF=kF, N=N, M=M, torus=torus, stride=stride, rd=rd, ld=ld,
                padding=padding, kind=kind, img=img, flt=flt)


def call_model(ctx: Ctx, c, which, img=None, flt=None):
    img = c["img"] if img is None else img
    flt = c["flt"] if flt is None else flt
    return unarr(ctx.driver.call(
        "c04.conv", d=c["d"], which=which, image=jarr(img), filter=jarr(flt), torus=c["torus"],
        stride=c["stride"], rd=c["rd"], ld=c["ld"] if c["ld"] is not None else [1] * c["d"],
        padding=c["padding"]))


def impl_args(c):
    padding = c["padding"]
    if isinstance(padding, list):
        padding = tuple(tuple(p) for p in padding)
    return dict(is_torus=tuple(c["torus"]), stride=tuple(c["stride"]), padding=padding,
                lhs_dilation=None if c["ld"] is None else tuple(c["ld"]), rhs_dilation=tuple(c["rd"]))


def call_impl(geom, jnp, c, img=None, flt=None, contract=False):
    img = c["img"] if img is None else img
    flt = c["flt"] if flt is None else flt
    a = impl_args(c)
    f = geom.convolve_contract if contract else geom.convolve
    out = f(c["d"], jnp.array(img, dtype=jnp.float32), jnp.array(flt, dtype=jnp.float32), a["is_torus"],
            a["stride"], a["padding"], a["lhs_dilation"], a["rhs_dilation"])
    out = np.asarray(out)
    r = np.rint(out).astype(np.int64)
    assert np.array_equal(r.astype(out.dtype), out), "non-integer output"
    return r


def describe(c):
    return {"D": c["d"], "image_shape": list(c["img"].shape), "filter_shape": list(c["flt"].shape),
            "is_torus": c["torus"], "stride": c["stride"], "padding": c["padding"], "lhs_dilation": c["ld"],
            "rhs_dilation": c["rd"]}


def nondefault_count(c):
    n = 0
    n += any(s != 1 for s in c["stride"])
    n += any(s != 1 for s in c["rd"])
    n += c["ld"] is not None and any(s != 1 for s in c["ld"])
    n += c["kind"] in ("int", "explicit", "VALID")
    n += len(set(c["torus"])) > 1
    n += c["img"].shape[1] > 1 or c["flt"].shape[0] > 1
    n += (c["kI"] + c["kF"]) > 0
    return n


def one_case(ctx: Ctx, geom, jnp, c, idx):
    desc = describe(c)
    full = dict(desc, image=jarr(c["img"]), filter=jarr(c["flt"]))
    ctx.hist("d", c["d"]); ctx.hist("padding", c["kind"]); ctx.hist("kI,kF", (c["kI"], c["kF"]))
    ctx.hist("stride>1", any(s != 1 for s in c["stride"])); ctx.hist("rd>1", any(s != 1 for s in c["rd"]))
    ctx.hist("lhs_dilation", c["ld"] is not None); ctx.hist("mixed_torus", len(set(c["torus"])) > 1)
    ctx.hist("even_filter", any(m % 2 == 0 for m in c["M"]))
    # model side
    try:
        spec = call_model(ctx, c, "spec")
        model_rejects = False
    except DriverReject:
        spec, model_rejects = None, True
    # implementation side
    try:
        impl = call_impl(geom, jnp, c)
        impl_rejects = False
    except AssertionError as e:
        if "non-integer" in str(e):
            raise
        impl, impl_rejects = None, True
    except Exception:
        impl, impl_rejects = None, True
    ctx.case(("conv", idx, desc), nondefault_count(c) >= 2 and not model_rejects, sample=desc)
    if model_rejects or impl_rejects:
        ctx.hist("outcome", "rejected")
        empty_out = spec is not None and 0 in spec.shape
        if model_rejects != impl_rejects and not empty_out:
            ctx.violation("correspondence", f"rejection differs: model_rejects={model_rejects} impl_rejects={impl_rejects}", full)
        return
    ctx.hist("outcome", "ok")
    if impl.shape != spec.shape or not np.array_equal(impl, spec):
        full["impl"] = jarr(impl); full["expected"] = jarr(spec)
        ctx.violation("oracle", "geom.convolve differs from the direct sum / size formula", full)
        return
    mimpl = call_model(ctx, c, "impl")
    if mimpl.shape != impl.shape or not np.array_equal(mimpl, impl):
        full["model"] = jarr(mimpl)
        ctx.violation("correspondence", "geom.convolve differs from Lean model convImpl", full)
    # fused contraction
    if c["kF"] >= c["kI"] and idx % 2 == 0:
        cs = call_model(ctx, c, "contract_spec")
        ci = call_model(ctx, c, "contract_impl")
        try:
            cimpl = call_impl(geom, jnp, c, contract=True)
        except Exception as e:
            full["raised"] = repr(e)[:300]
            ctx.violation("oracle", "convolve_contract raised on a valid input", full)
            return
        ctx.case(("contract", idx, desc), c["kI"] > 0)
        ctx.hist("contract", c["kI"])
        if cimpl.shape != cs.shape or not np.array_equal(cimpl, cs):
            full["impl"] = jarr(cimpl); full["expected"] = jarr(cs)
            ctx.violation("oracle", "convolve_contract differs from convolve-then-contract", full)
        elif not np.array_equal(ci, cimpl):
            ctx.violation("correspondence", "convolve_contract differs from Lean model convContractImpl", full)
    # bilinearity on the implementation
    if idx % 5 == 0:
        img2 = ctx.rng.integers(-3, 4, size=c["img"].shape).astype(np.int64)
        a, b = int(ctx.rng.integers(-2, 3)), int(ctx.rng.integers(-2, 3))
        lhs = call_impl(geom, jnp, c, img=a * c["img"] + b * img2)
        rhs = a * impl + b * call_impl(geom, jnp, c, img=img2)
        flt2 = ctx.rng.integers(-2, 3, size=c["flt"].shape).astype(np.int64)
        lhs2 = call_impl(geom, jnp, c, flt=a * c["flt"] + b * flt2)
        rhs2 = a * impl + b * call_impl(geom, jnp, c, flt=flt2)
        ctx.case(("bilinear", idx, desc, a, b), True)
        if not np.array_equal(lhs, rhs) or not np.array_equal(lhs2, rhs2):
            ctx.violation("oracle", "convolution is not bilinear", full)


def xla_cases(ctx: Ctx, n):
    """the trusted definition itself: lax.conv_general_dilated vs Lean xlaConv"""
    import jax
    import jax.numpy as jnp

    rng = ctx.rng
    for it in range(n):
        d = int(rng.choice([2, 2, 3]))
        G = int(rng.choice([1, 2, 3]))
        I = int(rng.choice([1, 2]))
        Og = int(rng.choice([1, 2]))
        B = int(rng.choice([1, 2]))
        N = [int(rng.integers(1, 5)) for _ in range(d)]
        M = [int(rng.integers(1, 4)) for _ in range(d)]
        lo = [int(rng.integers(0, 3)) for _ in range(d)]
        hi = [int(rng.integers(0, 3)) for _ in range(d)]
        stride = [int(rng.choice([1, 1, 2])) for _ in range(d)]
        rd = [int(rng.choice([1, 1, 2])) for _ in range(d)]
        ld = [int(rng.choice([1, 1, 2, 3])) for _ in range(d)]
        lhs = rng.integers(-3, 4, size=[B] + N + [G * I]).astype(np.int64)
        rhs = rng.integers(-2, 3, size=M + [I, G * Og]).astype(np.int64)
        dn = ("NHWC", "HWIO", "NHWC") if d == 2 else ("NHWDC", "HWDIO", "NHWDC")
        case = {"d": d, "G": G, "lhs": jarr(lhs), "rhs": jarr(rhs), "lo": lo, "hi": hi, "stride": stride, "rd": rd, "ld": ld}
        ctx.case(("xla", it, {k: v for k, v in case.items() if k not in ("lhs", "rhs")}, list(lhs.shape), list(rhs.shape)), G > 1 or any(x > 1 for x in ld + rd + stride))
        ctx.hist("xla_G", G)
        model = unarr(ctx.driver.call("c04.xla", **case))
        if 0 in model.shape:
            continue
        out = jax.lax.conv_general_dilated(
            jnp.array(lhs, dtype=jnp.float32), jnp.array(rhs, dtype=jnp.float32), tuple(stride),
            tuple(zip(lo, hi)), lhs_dilation=tuple(ld), rhs_dilation=tuple(rd), dimension_numbers=dn,
            feature_group_count=G)
        out = np.rint(np.asarray(out)).astype(np.int64)
        if out.shape != model.shape or not np.array_equal(out, model):
            ctx.violation("correspondence", "jax.lax.conv_general_dilated differs from Lean xlaConv (trusted definition)", case)


def convolve_with_cases(ctx: Ctx, geom, jnp, n):
    """GeometricImage.convolve_with: same numbers, parity p+p', metadata kept"""
    for it in range(n):
        c = gen_case(ctx)
        c["img"] = c["img"][:1, :1]; c["flt"] = c["flt"][:1, :1]
        if c["kind"] in ("TORUS", "SAME", "none") and any(m % 2 == 0 for m in c["M"]):
            continue
        if isinstance(c["padding"], (str, int)) and not isinstance(c["padding"], bool):
            if isinstance(c["padding"], str) or True:
                pass
        p1, p2 = int(ctx.rng.integers(0, 2)), int(ctx.rng.integers(0, 2))
        a = impl_args(c)
        A = geom.GeometricImage(jnp.array(c["img"][0, 0], dtype=jnp.float32), p1, c["d"], a["is_torus"])
        F = geom.GeometricImage(jnp.array(c["flt"][0, 0], dtype=jnp.float32), p2, c["d"], a["is_torus"])
        desc = dict(describe(c), parities=[p1, p2], entry="GeometricImage.convolve_with")
        try:
            spec = call_model(ctx, c, "spec")
        except DriverReject:
            continue
        if 0 in spec.shape:
            continue
        ctx.case(("convolve_with", it, desc), True, sample=desc if it < 1 else None)
        try:
            out = A.convolve_with(F, a["stride"], a["padding"], a["lhs_dilation"], a["rhs_dilation"])
        except Exception as e:
            ctx.violation("oracle", "GeometricImage.convolve_with raised on a configuration the definition covers",
                          dict(desc, image=jarr(c["img"]), filter=jarr(c["flt"]), raised=repr(e)[:300]))
            continue
        impl = np.rint(np.asarray(out.data)).astype(np.int64)
        bad = []
        if impl.shape != spec.shape[2:] or not np.array_equal(impl, spec[0, 0]):
            bad.append("values")
        if out.parity != (p1 + p2) % 2:
            bad.append(f"parity {out.parity} != {(p1 + p2) % 2}")
        if out.k != c["kI"] + c["kF"] or out.D != c["d"] or tuple(out.is_torus) != a["is_torus"]:
            bad.append("k/D/is_torus")
        if bad:
            ctx.violation("oracle", "GeometricImage.convolve_with: " + ", ".join(bad), dict(desc, image=jarr(c["img"]), filter=jarr(c["flt"])))


def replay(ctx: Ctx, rep: dict):
    """re-run the single stored case (geom.convolve / convolve_contract / bilinearity on that input)"""
    import jax.numpy as jnp
    import ginjax.geometric as geom

    case = rep.get("case", {})
    if "image" not in case or "filter" not in case:
        return run(ctx)
    img, flt = unarr(case["image"]), unarr(case["filter"])
    d = case["D"]
    pad = case.get("padding")
    kind = ("none" if pad is None else pad if isinstance(pad, str) else "int" if isinstance(pad, int) else "explicit")
    c = dict(d=d, kI=img.ndim - 2 - d, kF=flt.ndim - 2 - d, N=list(img.shape[2:2 + d]), M=list(flt.shape[2:2 + d]),
             torus=case["is_torus"], stride=case["stride"], rd=case["rhs_dilation"], ld=case.get("lhs_dilation"),
             padding=pad, kind=kind, img=img, flt=flt)
    ctx.rule = "replay of one stored case"
    one_case(ctx, geom, jnp, c, 0)


def dtype_cases(ctx: Ctx, geom, jnp, n):
    """real-valued (dyadic) images with filters handed over in an INTEGER dtype, and integer images with
    float filters: the result must still be the real-valued direct sum (linearity: conv(A/4, F) = conv(A, F)/4)"""
    for it in range(n):
        c = gen_case(ctx)
        if c["kind"] in ("TORUS", "SAME", "none") and any(m % 2 == 0 for m in c["M"]):
            continue
        try:
            spec = call_model(ctx, c, "spec")
        except DriverReject:
            continue
        if 0 in spec.shape:
            continue
        a = impl_args(c)
        desc = dict(describe(c), part="dtype", image_dtype="float32 (quarters)", filter_dtype="int32")
        ctx.case(("dtype", it, desc), True, sample=desc if it == 0 else None)
        ctx.hist("dtype_case", "float image / int filter")
        try:
            out = geom.convolve(c["d"], jnp.array(c["img"], dtype=jnp.float32) / 4.0, jnp.array(c["flt"], dtype=jnp.int32),
                                a["is_torus"], a["stride"], a["padding"], a["lhs_dilation"], a["rhs_dilation"])
            out = np.asarray(out, dtype=np.float64)
            out2 = geom.convolve(c["d"], jnp.array(c["img"], dtype=jnp.int32), jnp.array(c["flt"], dtype=jnp.float32) / 2.0,
                                 a["is_torus"], a["stride"], a["padding"], a["lhs_dilation"], a["rhs_dilation"])
            out2 = np.asarray(out2, dtype=np.float64)
        except Exception as e:
            ctx.violation("oracle", "geom.convolve raised on a real image with an integer-dtype filter",
                          dict(desc, image=jarr(c["img"]), filter=jarr(c["flt"]), raised=repr(e)[:300]))
            continue
        if out.shape != spec.shape or not np.array_equal(out, spec / 4.0) or not np.array_equal(out2, spec / 2.0):
            ctx.violation("oracle", "convolution of a real-valued image with an integer-dtype filter (or an integer image with a "
                          "real filter) differs from the direct sum", dict(desc, image_times_4=jarr(c["img"]), filter=jarr(c["flt"])))


def run(ctx: Ctx):
    import jax.numpy as jnp
    import ginjax.geometric as geom

    ctx.rule = (
        "random option combinations: d in {2,3}, batch 1-2, in/out channels 1-3, image order 0-2, filter order 0-2, "
        "extents 1-5 (non-square), filter sides 1-5 odd/even and non-square, all 2^d torus flags, six padding kinds "
        "(TORUS, SAME, VALID, integer, explicit pairs, default), stride 1-3, rhs dilation 1-3, lhs dilation 1-3 or "
        "absent; a malformed stream (even filter with string padding) expected to be rejected by both sides; "
        "plus direct cases for lax.conv_general_dilated with feature_group_count 1-3. Non-trivial: at least two of "
        "{stride, rhs dilation, lhs dilation, padding kind, mixed torus flags, channels>1, k+k'>0} differ from "
        "their defaults. Distinct = distinct (options, shapes, values)."
    )
    ctx.assumptions = ["integer-valued float32 inputs (|v| <= 3) keep every partial sum exact"]
    ctx.trusted_extra = ["jax.lax.conv_general_dilated incl. feature_group_count is modelled by xlaConv (diffed directly against JAX in this run)",
                         "jnp.pad(mode='wrap'), moveaxis, reshape, tensordot with ones are modelled by index arithmetic"]
    n = 150 if ctx.tier == "quick" else 2500
    xla_cases(ctx, 40 if ctx.tier == "quick" else 400)
    for i in range(n):
        one_case(ctx, geom, jnp, gen_case(ctx), i)
    convolve_with_cases(ctx, geom, jnp, 25 if ctx.tier == "quick" else 300)
    dtype_cases(ctx, geom, jnp, 12 if ctx.tier == "quick" else 150)
