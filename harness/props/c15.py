"""C15 - time-series windowing yields exactly the causal (past, future) pairs.

Every frame (one channel of one tensor type at one time step; a small spatial block times the
tensor axes) is filled with its own identity `type*10^5 + channel*10^3 + t` (constant fields:
`type*10^5 + 90000 + channel`, trajectories add `b*10^6`), so the output of the real
`ginjax.data` functions can be decoded frame by frame into (identity, pooling level) and every
misplaced, duplicated or leaked frame is seen exactly.

oracle: the property's sentence evaluated in Python (count T-s-(p+f-1)*dt; input times
  s+w+j*dt, target times s+w+(p+j)*dt per channel in time order for every type; constants after
  the dynamic channels of every input and in no target; targets later than and disjoint from the
  inputs; batched = per-trajectory stacked trajectory-major), compared with the decoded output of
  `time_series_idxs`, `times_series_to_multi_images`, `batch_time_series`.
correspondence: the same calls on the Lean model (driver ops c15.idxs / c15.windows / c15.batch),
  exact comparison by key; configurations without a window must be rejected by both.
"""
from __future__ import annotations

import itertools

import numpy as np

from common import Ctx, DriverReject

D = 2
TYPES = [(0, 0), (1, 0), (0, 1), (2, 0)]  # index in this list = the `type` digit of the identity

# (dynamic signature, constant signature): lists of (type index, channels) in dict insertion order
SIGNATURES = [
    ([(0, 2), (1, 1)], [(1, 1), (0, 1), (2, 2)]),
    ([(1, 2), (0, 3)], [(0, 2)]),
    ([(0, 1), (2, 2), (1, 2)], []),
    ([(3, 1), (0, 2)], [(2, 1), (3, 2)]),
    ([(0, 3)], [(1, 2), (0, 1)]),
    # only used by the mixed-dtype family below (not drawn at random): every dynamic identity <= 2048
    ([(0, 2)], [(0, 2), (3, 1), (1, 1)]),
]
N_DRAWN = 5  # the signatures drawn per configuration

# mixed-dtype families: name -> (dynamic dtype, constant dtype, scale, offset). A constant field with identity
# c holds the float32 value c*scale + offset (exact in float32, never an integer, not representable in the
# dynamic dtype), the dynamic frames hold their identity in the dynamic dtype (exact). Identities are decoded
# back through the inverse map, so the same expected()/first_diff oracle judges these cases.
MIXES = {
    "int32+float32": ("int32", "float32", 1.0, 0.5),
    "float16+float32": ("float16", "float32", 1.0 / 64, 0.0),
}


def code(ti, ch, t, b=0):
    return b * 1000000 + ti * 100000 + ch * 1000 + t


def ccode(ti, ch, b=0):
    return b * 1000000 + ti * 100000 + 90000 + ch


def key_str(ti):
    k, par = TYPES[ti]
    return f"{k},{par}"


def dyn_codes(sig, T, b=0):
    return [(ti, [code(ti, ch, t, b) for ch in range(c) for t in range(T)]) for ti, c in sig]


def const_codes(sig, b=0):
    return [(ti, [ccode(ti, ch, b) for ch in range(c)]) for ti, c in sig]


def fill(codes, N, k, dtype="float32", scale=1.0, offset=0.0):
    """list of identities -> block (len, N, N, (2,)*k) of constant frames holding identity*scale + offset"""
    exact = np.asarray(codes, dtype=np.float64) * scale + offset
    a = exact.astype(dtype)
    assert np.array_equal(a.astype(np.float64), exact), "identities must be exact in the chosen dtype"
    shape = (len(codes),) + (N,) * D + (D,) * k
    return np.broadcast_to(a.reshape((-1,) + (1,) * (D + k)), shape).copy()


_MI_CACHE = {}


def make_mi(geom, jnp, per_traj, N, dtype="float32", scale=1.0, offset=0.0):
    """per_traj: list over trajectories (or a single one, unbatched) of [(ti, codes)]"""
    data = {}
    batched = isinstance(per_traj, tuple)
    trajs = per_traj if batched else (per_traj,)
    for pos in range(len(trajs[0])):
        ti = trajs[0][pos][0]
        k, par = TYPES[ti]
        blocks = [fill(tr[pos][1], N, k, dtype, scale, offset) for tr in trajs]
        arr = np.stack(blocks) if batched else blocks[0]
        data[(k, par)] = jnp.asarray(arr)
        assert str(data[(k, par)].dtype) == dtype
    return geom.MultiImage(data, D, True)


def decode(block, N, k, cmap=None):
    """(n, ch, spatial, tensor) -> [w][chan] = [identity, level]; anything unexpected is marked.
    cmap = (scale, offset) of a mixed-dtype family: constant fields hold identity*scale + offset (never an
    integer), so there an integer value is an identity only if it is a dynamic one, and a non-integer value
    is the identity of a constant field only if it is exactly the value of one."""
    a = np.asarray(block).astype(np.float64)
    if a.ndim != 2 + D + k:
        return ["bad-rank", list(a.shape)]
    n, ch = a.shape[:2]
    sp, tens = a.shape[2 : 2 + D], a.shape[2 + D :]
    level = -1
    if tens == (D,) * k and len(set(sp)) == 1 and sp[0] > 0 and N % sp[0] == 0:
        r = N // sp[0]
        if r & (r - 1) == 0:
            level = r.bit_length() - 1
    flat = a.reshape(n, ch, -1)
    if flat.shape[2] == 0:
        return ["empty-frame", list(a.shape)]
    const = (flat == flat[:, :, :1]).all(axis=2)
    vals = flat[:, :, 0]
    out = []
    for w in range(n):
        row = []
        for c in range(ch):
            v = float(vals[w, c])
            if not np.isfinite(v):
                row.append(["garbled", repr(v)])
            elif cmap is None:
                if const[w, c] and v == int(v):
                    row.append([int(v), level])
                else:
                    row.append(["garbled", v])
            else:
                u = (v - cmap[1]) / cmap[0]
                if const[w, c] and v == int(v) and parse_code(int(v))[0] == "dyn":
                    row.append([int(v), level])
                elif (const[w, c] and v != int(v) and u == int(u) and int(u) * cmap[0] + cmap[1] == v
                      and parse_code(int(u))[0] == "const"):
                    row.append([int(u), level])
                else:
                    row.append(["garbled", v])
        out.append(row)
    return out


def decode_mi(mi, N, cmap=None):
    return {f"{k},{par}": decode(blk, N, k, cmap) for (k, par), blk in mi.items()}


# ---------------------------------------------------------------------------------------------
# the property's sentence


def n_windows(T, p, f, dt, s):
    return T - s - (p + f - 1) * dt


def expected(dsig, csig, T, p, f, dt, s, ds, b=0):
    """(x, y) as {key: [w][chan] = [identity, level]} straight from the statement"""
    n = n_windows(T, p, f, dt, s)
    consts = {ti: [ccode(ti, ch, b) for ch in range(c)] for ti, c in csig}
    x, y = {}, {}
    for ti, c in dsig:
        x[key_str(ti)] = [
            [[code(ti, ch, s + w + j * dt, b), ds] for ch in range(c) for j in range(p)]
            + [[v, ds] for v in consts.get(ti, [])]
            for w in range(n)
        ]
        y[key_str(ti)] = [
            [[code(ti, ch, s + w + (p + j) * dt, b), ds] for ch in range(c) for j in range(f)]
            for w in range(n)
        ]
    for ti, cs in consts.items():
        if key_str(ti) not in x:
            x[key_str(ti)] = [[[v, ds] for v in cs] for _ in range(n)]
    return x, y


def parse_code(v):
    """identity -> ("const", channel) | ("dyn", channel, t)"""
    rest = (v % 1000000) % 100000
    if rest >= 90000:
        return ("const", rest - 90000)
    return ("dyn", rest // 1000, rest % 1000)


def causal_ok(x, y):
    """no target time is an input time of the same sample and channel, every target is later than
    every input of its channel (dt >= 1), and no constant field sits in a target"""
    for key, ys in y.items():
        xs = x.get(key)
        if not isinstance(xs, list) or not isinstance(ys, list) or len(xs) != len(ys):
            return False
        for xr, yr in zip(xs, ys):
            ins = [parse_code(v[0]) for v in xr if isinstance(v[0], int)]
            outs = [parse_code(v[0]) for v in yr if isinstance(v[0], int)]
            for o in outs:
                if o[0] == "const":
                    return False
                if any(i[0] == "dyn" and i[1] == o[1] and i[2] >= o[2] for i in ins):
                    return False
    return True


def first_diff(a, b):
    if a.keys() != b.keys():
        return {"keys": [sorted(a.keys()), sorted(b.keys())]}
    for key in a:
        if a[key] != b[key]:
            la, lb = a[key], b[key]
            if not (isinstance(la, list) and isinstance(lb, list)) or len(la) != len(lb):
                return {"key": key, "n_samples": [len(la) if isinstance(la, list) else la,
                                                  len(lb) if isinstance(lb, list) else lb]}
            for w, (ra, rb) in enumerate(zip(la, lb)):
                if ra != rb:
                    return {"key": key, "sample": w, "got": ra, "want": rb}
    return None


def model_mi(j):
    return {k: v for k, v in j}


# ---------------------------------------------------------------------------------------------


def check_idxs(ctx: Ctx, data, Tmax):
    drv = ctx.driver
    for p, f, dt in itertools.product(range(1, 4), range(1, 4), range(1, 4)):
        for Tp in range(-1, Tmax + 1):
            n = Tp - (p + f - 1) * dt
            try:
                i, o = data.time_series_idxs(p, f, dt, Tp)
                impl = {"in": np.asarray(i).tolist(), "out": np.asarray(o).tolist()}
            except Exception as e:  # noqa: BLE001
                impl = "rejected:" + type(e).__name__
            try:
                mod = drv.call("c15.idxs", p=p, f=f, dt=dt, T=Tp)
            except DriverReject:
                mod = "rejected"
            case = {"fn": "time_series_idxs", "p": p, "f": f, "dt": dt, "total_steps": Tp, "impl": impl}
            ctx.case(("idxs", p, f, dt, Tp), n >= 2 and p + f >= 3,
                     sample=case if (p, f, dt, Tp) == (2, 2, 2, 8) else None)
            ctx.hist("idxs_outcome", "window" if n >= 1 else "no-window")
            if n >= 1:
                want = {"in": [[w + j * dt for j in range(p)] for w in range(n)],
                        "out": [[w + (p + j) * dt for j in range(f)] for w in range(n)]}
                if impl != want:
                    ctx.violation("oracle", "time_series_idxs differs from the windows of the statement",
                                  dict(case, expected=want))
                elif mod != impl:
                    ctx.violation("correspondence", "time_series_idxs differs from Lean timeSeriesIdxs",
                                  dict(case, model=mod))
            else:
                ir = isinstance(impl, str)
                mr = isinstance(mod, str)
                if ir != mr:
                    ctx.violation("correspondence",
                                  "configuration without a window: model and implementation do not both reject",
                                  dict(case, model=mod))


def run_windows(ctx: Ctx, data, geom, jnp, si, T, p, f, dt, s, ds, N, B, mix=None):
    """one configuration through times_series_to_multi_images (B is None) or batch_time_series;
    mix: a key of MIXES (dynamic and constant fields of different dtypes) or None (float32 everywhere)"""
    dsig, csig = SIGNATURES[si]
    n = n_windows(T, p, f, dt, s)
    ddt, cdt, cscale, coff = MIXES[mix] if mix else ("float32", "float32", 1.0, 0.0)
    cmap = (cscale, coff) if mix else None
    ck = (si, T, N, B, mix)
    if ck not in _MI_CACHE:
        if len(_MI_CACHE) > 64:
            _MI_CACHE.clear()
        if B is None:
            _MI_CACHE[ck] = (make_mi(geom, jnp, dyn_codes(dsig, T), N, ddt),
                             make_mi(geom, jnp, const_codes(csig), N, cdt, cscale, coff))
        else:
            _MI_CACHE[ck] = (
                make_mi(geom, jnp, tuple(dyn_codes(dsig, T, b) for b in range(B)), N, ddt),
                make_mi(geom, jnp, tuple(const_codes(csig, b) for b in range(B)), N, cdt, cscale, coff),
            )
    dyn, const = _MI_CACHE[ck]
    case = {
        "fn": "times_series_to_multi_images" if B is None else "batch_time_series",
        "T": T, "p": p, "f": f, "dt": dt, "s": s, "downsample": ds, "spatial": N, "trajectories": B,
        "dynamic_signature": [[*TYPES[ti], c] for ti, c in dsig],
        "constant_signature": [[*TYPES[ti], c] for ti, c in csig],
        "encoding": "frame = b*10^6 + type*10^5 + channel*10^3 + t ; constants type*10^5 + 90000 + channel",
    }
    if mix:
        case.update(dynamic_dtype=ddt, constant_dtype=cdt,
                    constant_values=f"identity*{cscale!r} + {coff!r} (float32, exact); dynamic frames hold their identity")
    try:
        if B is None:
            X, Y = data.times_series_to_multi_images(dyn, const, T, p, f, s, dt, ds)
        else:
            X, Y = data.batch_time_series(dyn, const, T, p, f, s, dt, ds)
        impl = (decode_mi(X, N, cmap), decode_mi(Y, N, cmap))
    except Exception as e:  # noqa: BLE001
        impl = "rejected:" + type(e).__name__
    jd = lambda codes: [[key_str(ti), c] for ti, c in codes]  # noqa: E731
    try:
        if B is None:
            mo = ctx.driver.call("c15.windows", T=T, p=p, f=f, dt=dt, s=s, ds=ds,
                                 dyn=jd(dyn_codes(dsig, T)), const=jd(const_codes(csig)))
        else:
            dd = [[key_str(ti), [dyn_codes(dsig, T, b)[pos][1] for b in range(B)]] for pos, (ti, _) in enumerate(dsig)]
            cc = [[key_str(ti), [const_codes(csig, b)[pos][1] for b in range(B)]] for pos, (ti, _) in enumerate(csig)]
            mo = ctx.driver.call("c15.batch", T=T, p=p, f=f, dt=dt, s=s, ds=ds, dyn=dd, const=cc)
        mod = (model_mi(mo["x"]), model_mi(mo["y"]))
    except DriverReject:
        mod = "rejected"
    nontriv = n >= 2 and p + f >= 3
    ctx.case(("win", si, T, p, f, dt, s, ds, N, B) + ((mix,) if mix else ()), nontriv,
             sample=dict(case, n_samples=n) if (T, p, f, dt, s) == (9, 2, 2, 2, 1) else None)
    ctx.hist("fn", case["fn"])
    ctx.hist("dtypes", mix or "float32+float32")
    ctx.hist("dt", dt)
    ctx.hist("skip", s)
    ctx.hist("downsample", ds)
    ctx.hist("windows", "none" if n < 1 else ("1" if n == 1 else "2+"))
    if n < 1:
        if isinstance(impl, str) != isinstance(mod, str):
            ctx.violation("correspondence",
                          "configuration without a window: model and implementation do not both reject",
                          dict(case, impl=impl if isinstance(impl, str) else "accepted", model=mod if isinstance(mod, str) else "accepted"))
        return
    if B is None:
        want = expected(dsig, csig, T, p, f, dt, s, ds)
    else:
        parts = [expected(dsig, csig, T, p, f, dt, s, ds, b) for b in range(B)]
        want = tuple({k: [row for part in parts for row in part[h][k]] for k in parts[0][h]} for h in (0, 1))
    ok = True
    if isinstance(impl, str):
        ctx.violation("oracle", "a configuration with at least one window is rejected", dict(case, impl=impl))
        return
    for h, name in ((0, "input"), (1, "target")):
        d = first_diff(impl[h], want[h])
        if d is not None:
            ok = False
            ctx.violation("oracle", f"{case['fn']}: {name} differs from the windows of the statement",
                          dict(case, first_difference=d))
            break
    if ok and not causal_ok(impl[0], impl[1]):
        ok = False
        ctx.violation("oracle", "a target time is not later than the input times of its sample", case)
    if ok and mod != impl:
        d = "model rejects" if isinstance(mod, str) else (first_diff(impl[0], mod[0]) or first_diff(impl[1], mod[1]))
        ctx.violation("correspondence", f"{case['fn']} differs from the Lean model", dict(case, first_difference=d))


def spec_crosscheck(ctx: Ctx):
    """the Python sentence against the Lean spec functions (nWindows, specBlock)"""
    for T, p, f, dt, s, c in [(9, 2, 2, 2, 1, 2), (7, 3, 1, 1, 0, 1), (8, 1, 3, 2, 2, 3), (5, 2, 2, 1, 1, 2)]:
        sp = ctx.driver.call("c15.spec", T=T, p=p, f=f, dt=dt, s=s, c=c)
        n = n_windows(T, p, f, dt, s)
        want_in = [[ch * 1000 + s + w + j * dt for ch in range(c) for j in range(p)] for w in range(n)]
        want_out = [[ch * 1000 + s + w + (p + j) * dt for ch in range(c) for j in range(f)] for w in range(n)]
        if sp["n"] != n or sp["input"] != want_in or sp["target"] != want_out:
            ctx.violation("correspondence", "python oracle differs from Lean spec (nWindows/specBlock)",
                          {"T": T, "p": p, "f": f, "dt": dt, "s": s, "c": c, "lean": sp})


def run(ctx: Ctx):
    import jax.numpy as jnp

    import ginjax.data as data
    import ginjax.geometric as geom

    quick = ctx.tier == "quick"
    Tmax = 9 if quick else 14
    ctx.rule = (
        f"all (T <= {Tmax}, p <= 3, f <= 3, dt <= 3, skip <= 2) incl. those without a window, plus every "
        "(p, f, dt, skip) at T = skip + (p+f-1)*dt + 2 (two windows), through "
        "times_series_to_multi_images with a dynamic/constant signature drawn per configuration from 5 "
        "(2-3 tensor types incl. vectors, pseudoscalars, 2-tensors, 1-3 channels, constant-only types, "
        "types without constants), downsample 1 on a subset (thorough: also 2), spatial side 2 or 4; fixed configurations with downsample 2 and 3 (sides 4, 8), also batched incl. a batch of one trajectory; "
        "batch_time_series on a subset (thorough: all, 1..3 trajectories); fixed configurations with dynamic and "
        "constant fields of different dtypes at downsample 0 (int32 dynamic + float32 half-integer constants, all "
        "signatures with constants, also batched; float16 dynamic + float32 constants that float16 cannot hold, "
        "one trajectory): the constants of every input compared by value; time_series_idxs alone for all "
        "(p, f, dt <= 3, total_steps -1..Tmax). A case is non-trivial when it has >= 2 windows and "
        "p + f >= 3; distinct = distinct (function, signature, T, p, f, dt, skip, downsample, side, trajectories, dtypes)."
    )
    ctx.assumptions = [
        "p, f, dt >= 1 (p = 0, f = 0, dt = 0 are rejected by model and code but not compared)",
        "spatial sides are powers of two >= 2^downsample (average pooling is exact on constant frames)",
        "every type has >= 1 channel; block extents are c*T as the docstring requires",
    ]
    ctx.trusted_extra = ["average pooling itself is opaque in the model (any frame function); C08/C14 cover it"]
    spec_crosscheck(ctx)
    check_idxs(ctx, data, Tmax)
    rng = ctx.rng
    configs = list(itertools.product(range(1, Tmax + 1), range(1, 4), range(1, 4), range(1, 4), range(0, 3)))
    # every (p, f, dt, skip) also right above its threshold (exactly two windows), beyond Tmax
    for p, f, dt, s in itertools.product(range(1, 4), range(1, 4), range(1, 4), range(0, 3)):
        T2 = s + (p + f - 1) * dt + 2
        if T2 > Tmax:
            configs.append((T2, p, f, dt, s))
    for T, p, f, dt, s in configs:
        n = n_windows(T, p, f, dt, s)
        si = int(rng.integers(N_DRAWN))
        N = 2 if rng.integers(3) else 4
        run_windows(ctx, data, geom, jnp, si, T, p, f, dt, s, 0, N, None)
        if n < 1:
            continue
        # downsample on a subset
        if (not quick) or rng.integers(6) == 0:
            run_windows(ctx, data, geom, jnp, si, T, p, f, dt, s, 1, N, None)
        if (not quick) and rng.integers(4) == 0:
            run_windows(ctx, data, geom, jnp, si, T, p, f, dt, s, 2, 4, None)
        # trajectory batches
        if quick:
            if rng.integers(8) == 0:
                run_windows(ctx, data, geom, jnp, si, T, p, f, dt, s, int(rng.integers(2)), N, int(rng.integers(1, 4)))
        else:
            B = int(rng.integers(1, 4))
            run_windows(ctx, data, geom, jnp, si, T, p, f, dt, s, int(rng.integers(2)), N, B)
    # a few batched configurations without a window
    for T, p, f, dt, s in [(3, 2, 2, 1, 0), (5, 2, 2, 2, 1), (2, 1, 1, 1, 2)]:
        run_windows(ctx, data, geom, jnp, 0, T, p, f, dt, s, 0, 2, 2)
    # deeper downsampling on fixed configurations (halving the extents `downsample` times: 2^downsample, not a
    # multiple of it), per trajectory and batched, incl. a batch of exactly one trajectory
    for T, p, f, dt, s in [(6, 2, 1, 1, 0), (7, 1, 2, 2, 1)]:
        run_windows(ctx, data, geom, jnp, 1, T, p, f, dt, s, 2, 4, None)
        run_windows(ctx, data, geom, jnp, 2, T, p, f, dt, s, 3, 8, None)
        run_windows(ctx, data, geom, jnp, 0, T, p, f, dt, s, 3, 8, 2)
        run_windows(ctx, data, geom, jnp, 1, T, p, f, dt, s, 2, 8, 1)
        run_windows(ctx, data, geom, jnp, 1, T, p, f, dt, s, 1, 2, 1)
    # dynamic and constant fields of different dtypes: "constant fields are appended unchanged to every input"
    # must hold for the values, whatever the dtype of the dynamic windows they are appended to. (No downsampling:
    # pooling of integer / half-precision frames is not exact.) int32 dynamic + float32 half-integer constants,
    # every signature with constants, per trajectory and batched; float16 dynamic (identities <= 2048 only:
    # one scalar dynamic type, a single trajectory) + float32 constants that float16 cannot hold.
    mixed = [(9, 2, 2, 2, 1), (6, 2, 1, 1, 0), (7, 1, 2, 2, 1), (8, 3, 1, 1, 2), (5, 1, 1, 3, 0)]
    if not quick:
        mixed += [(11, 2, 3, 2, 0), (12, 3, 3, 1, 1), (10, 1, 3, 3, 0), (4, 1, 1, 1, 2)]
    for i, (T, p, f, dt, s) in enumerate(mixed):
        for si in (0, 1, 3, 4, 5):
            N = 2 if (i + si) % 2 else 4
            run_windows(ctx, data, geom, jnp, si, T, p, f, dt, s, 0, N, None, mix="int32+float32")
            if quick and (i + si) % 2:
                continue
            run_windows(ctx, data, geom, jnp, si, T, p, f, dt, s, 0, N, 1 + (i + si) % 3, mix="int32+float32")
        for si in (4, 5):
            run_windows(ctx, data, geom, jnp, si, T, p, f, dt, s, 0, 2 if i % 2 else 4, None, mix="float16+float32")
            run_windows(ctx, data, geom, jnp, si, T, p, f, dt, s, 0, 2, 1, mix="float16+float32")
    ctx.exhaustive = True
    ctx.notes["exhaustive_scope"] = f"all (T<={Tmax}, p,f,dt<=3, skip<=2) at downsample 0; subsets for downsample/batches"
