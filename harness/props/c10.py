"""C10 - symmetrisation wrappers make any inner model equivariant.

GroupAverage
  oracle: for inner models drawn from a family of nonlinear, channel-mixing, position-dependent
    INTEGER maps (so every float32 operation is exact), operator lists that are groups (B_2, its
    rotation subgroup, C2^2, <rot180>, trivial; B_3, C2^3, SO-part of B_3 in the thorough tier) and
    every g of the group:   wrapper(g.x) == g.wrapper(x)   exactly, with `g.` computed by the
    reference action of harness/refs.py (not by the library); with averaging off the wrapper
    equals the inner model.  A non-closed operator subset is run as a NEGATIVE CONTROL: the oracle
    has to see it fail (that validates the oracle; it is not a violation).
  correspondence: the Lean definition `groupAverageCode` (flag logic, running sum in list order,
    division by len(operators)), with the group action instantiated by the reference action on the
    recorded inner-model outputs (driver op c10.average), against the real wrapper.
Climate1D
  oracle: from1d(to1d(x)) == x for every insertion order of the input types (the D5 witness
    first), also on the dynamic rows when constant fields are present; to1d(lonflip.x) ==
    [-1].to1d(x); wrapper(equatorflip.x) == equatorflip.wrapper(x) around inner 1-D models of the
    same integer family; signature of to1d(x) == get_1d_signature(signature(x)).
  correspondence: to1d / from1d / get_1d_signature / the two reflections / the combination step of
    __call__ against the Lean model (driver ops c10.to1d, c10.from1d, c10.sig1d, c10.flip,
    c10.climate_combine), compared by key.
ModelWrapper
  oracle: identity inner model and output_keys = signature(x) gives x back; correspondence of
    to_scalar_multi_image / from_scalar_multi_image with c10.to_scalar / c10.from_scalar.

Until the repairs of D2/D3 (`MultiImage.times_group_element` on non-square blocks) and D7
(`MultiImage.__add__` pairs positionally) have landed, GroupAverage cases on the real code use
square extents for groups containing axis-swapping elements (any extents for flips-only groups) and
inner models that emit their blocks in a fixed key order.  `C10_NONSQUARE=1` adds the non-square
cases for the axis-swapping groups as well.
"""
from __future__ import annotations

import itertools
import math
import os
from fractions import Fraction

import numpy as np

import refs
from common import Ctx, DriverReject, InfraError

NONSQUARE = os.environ.get("C10_NONSQUARE", "1") == "1"  # D2/D3/D7 are repaired: on by default

# ---------------------------------------------------------------------------------------------
# helpers


def to_mi(blocks: dict, D: int, is_torus=True):
    import jax.numpy as jnp

    import ginjax.geometric as geom

    return geom.MultiImage({k: jnp.array(np.asarray(v), dtype=jnp.float32) for k, v in blocks.items()}, D, is_torus)


def as_int_dict(mi) -> dict:
    """MultiImage -> {key: int64 ndarray}; raises if a value is not an integer"""
    out = {}
    for key, val in mi.items():
        a = np.asarray(val, dtype=np.float64)
        r = np.rint(a)
        if not np.array_equal(a, r):
            raise ValueError("non-integer value in a block expected to be integral")
        out[key] = r.astype(np.int64)
    return out


def as_frac_dict(mi, den: int) -> dict:
    """MultiImage -> {key: int64 ndarray of numerators over `den`}; None if not representable"""
    out = {}
    for key, val in mi.items():
        a = np.asarray(val, dtype=np.float64) * den
        r = np.rint(a)
        if not np.array_equal(a, r):
            return None
        out[key] = r.astype(np.int64)
    return out


def dict_eq(a: dict, b: dict) -> bool:
    """equality by key (insertion order is left free by the property)"""
    return set(a.keys()) == set(b.keys()) and all(
        np.asarray(a[k]).shape == np.asarray(b[k]).shape and np.array_equal(np.asarray(a[k]), np.asarray(b[k]))
        for k in a
    )


def jblocks(d: dict) -> list:
    return [
        {"key": [int(k[0]), int(k[1])], "shape": list(np.asarray(v).shape), "data": [int(t) for t in np.asarray(v).reshape(-1)]}
        for k, v in d.items()
    ]


def unblocks(j: list) -> dict:
    return {(b["key"][0], b["key"][1]): np.array(b["data"], dtype=np.int64).reshape(b["shape"]) for b in j}


def unblocks_frac(j: list) -> dict:
    out = {}
    for b in j:
        arr = np.empty(len(b["data"]), dtype=object)
        for i, (n, d) in enumerate(b["data"]):
            arr[i] = Fraction(n, d)
        out[(b["key"][0], b["key"][1])] = arr.reshape(b["shape"])
    return out


def show(d: dict) -> dict:
    return {str(k): np.asarray(v).tolist() for k, v in d.items()}


_SAMPLE_COUNT: dict = {}


def pick_sample(kind: str, sample: dict, limit: int):
    """a few written-out cases per kind of case, so the evidence shows all of them"""
    n = _SAMPLE_COUNT.get(kind, 0)
    _SAMPLE_COUNT[kind] = n + 1
    return sample if n < limit else None


def rand_block(rng, shape, lo=-3, hi=3):
    return rng.integers(lo, hi + 1, size=shape).astype(np.int64)


# ---------------------------------------------------------------------------------------------
# the inner-model family: nonlinear, channel-mixing, position-dependent integer maps


def make_int_model(rng, D, in_sig, out_sig, kind="module"):
    """returns a callable model(x, aux_data=None) -> (MultiImage, aux_data).

    All components of all input blocks are stacked as channels (C_in, spatial...);
    out[o, pos] = act_o( sum_c W[o, c] * in[c, pos] + b[o] ) * mask_o(pos) + in[c_o, pos]
    with integer W in -2..2, act in {abs, relu, identity}, mask_o(pos) = ((a_o . pos + s_o) mod 3) - 1;
    the output channels are cut into blocks following out_sig (fixed key order)."""
    import equinox as eqx
    import jax
    import jax.numpy as jnp

    import ginjax.geometric as geom

    c_in = sum(n * D**k for (k, _), n in in_sig)
    c_out = sum(n * D**k for (k, _), n in out_sig)
    W = rng.integers(-2, 3, size=(c_out, c_in)).astype(np.float32)
    b = rng.integers(-2, 3, size=(c_out,)).astype(np.float32)
    acts = rng.integers(0, 3, size=(c_out,))
    acts[0] = 0  # at least one abs
    A = rng.integers(0, 3, size=(c_out, D)).astype(np.int64)
    A[:, 0] = np.maximum(A[:, 0], 1)  # every mask really depends on the position
    s = rng.integers(0, 3, size=(c_out,)).astype(np.int64)
    skip = rng.integers(0, c_in, size=(c_out,))
    in_sig_t = tuple(in_sig)
    out_sig_t = tuple(out_sig)

    def forward(W, b, x):
        comps = []
        spatial = None
        # kind "positional": the weights are attached to the POSITION of a block in the order the blocks arrive
        # (values() order), as in a model that flattens its input blocks without looking at the keys
        # (ModelWrapper / to_scalar_multi_image); otherwise they are attached to the key
        arriving = [((k, p), int(blk.shape[0])) for (k, p), blk in x.items()] if kind == "positional" else in_sig_t
        for (k, p), n in arriving:
            blk = x[(k, p)]
            spatial = blk.shape[1 : 1 + D]
            # (n, spatial, tensor) -> (n, tensor, spatial) -> (n * D^k, spatial)
            perm = (0,) + tuple(range(1 + D, 1 + D + k)) + tuple(range(1, 1 + D))
            comps.append(jnp.transpose(blk, perm).reshape((n * D**k,) + spatial))
        arr = jnp.concatenate(comps, axis=0)
        mix = jnp.tensordot(W, arr, axes=([1], [0])) + b.reshape((-1,) + (1,) * D)
        pos = np.stack(np.meshgrid(*[np.arange(m) for m in spatial], indexing="ij"), axis=0)  # (D, spatial)
        mask = (np.tensordot(A, pos, axes=([1], [0])) + s.reshape((-1,) + (1,) * D)) % 3 - 1
        sel = acts.reshape((-1,) + (1,) * D)
        act = jnp.where(sel == 0, jnp.abs(mix), jnp.where(sel == 1, jnp.maximum(mix, 0.0), mix))
        out = act * jnp.asarray(mask, dtype=jnp.float32) + arr[skip]
        res = {}
        idx = 0
        for (k, p), n in out_sig_t:
            m = n * D**k
            blk = out[idx : idx + m].reshape((n,) + (D,) * k + spatial)
            perm = (0,) + tuple(range(1 + k, 1 + k + D)) + tuple(range(1, 1 + k))
            res[(k, p)] = jnp.transpose(blk, perm)
            idx += m
        return geom.MultiImage(res, D, x.is_torus)

    if kind in ("callable", "positional"):

        def model(x, aux_data=None):
            return forward(jnp.asarray(W), jnp.asarray(b), x), aux_data

        return model

    class IntModel(eqx.Module):
        W: jax.Array
        b: jax.Array

        def __call__(self, x, aux_data=None):
            return forward(self.W, self.b, x), aux_data

    return IntModel(jnp.asarray(W), jnp.asarray(b))


def make_int_model_1d(rng, in_sig, out_sig):
    """inner 1-D model for Climate1D: same family at D = 1 on (rows, lon) blocks of order 0"""
    return make_int_model(rng, 1, in_sig, out_sig, kind="module" if rng.integers(2) else "callable")


class Recorder:
    """wraps an inner model and records (input, output) of every call"""

    def __init__(self, model):
        self.model = model
        self.calls = []

    def __call__(self, x, aux_data=None):
        import jax

        out, aux = self.model(x, aux_data)
        traced = any(isinstance(v, jax.core.Tracer) for mi in (x, out) for _, v in mi.items())
        if traced:
            # the wrapper evaluates the inner model under a JAX transform: the values are only known when the
            # traced computation runs, so they are handed over by a callback (plain {key: array} dicts)
            jax.debug.callback(lambda xi, oi: self.calls.append((xi, oi)), dict(x.items()), dict(out.items()))
        else:
            self.calls.append((x, out))
        return out, aux

    def settled(self):
        """the recorded calls, after every pending callback has run"""
        import jax

        jax.effects_barrier()
        return list(self.calls)


# ---------------------------------------------------------------------------------------------
# groups


def group_closure(gens, d):
    elems = {tuple(np.eye(d, dtype=np.int64).reshape(-1))}
    frontier = [np.eye(d, dtype=np.int64)]
    while frontier:
        nxt = []
        for a in frontier:
            for g in gens:
                p = a @ g
                t = tuple(p.reshape(-1))
                if t not in elems:
                    elems.add(t)
                    nxt.append(p)
        frontier = nxt
    return [np.array(t, dtype=np.int64).reshape(d, d) for t in sorted(elems)]


def is_closed(ops) -> bool:
    s = {tuple(np.asarray(g).reshape(-1)) for g in ops}
    return len(ops) > 0 and all(tuple((a @ b).reshape(-1)) in s for a in ops for b in ops)


def swaps_axes(ops) -> bool:
    return any(np.any(np.abs(g) != np.eye(g.shape[0], dtype=np.int64)) for g in ops)


def groups_for(d: int, tier: str):
    all_ops = refs.signed_perms(d)
    out = {}
    if d == 2:
        out["B_2"] = all_ops
        out["C4"] = [g for g in all_ops if refs.det(g) == 1]
        out["C2^2"] = [g for g in all_ops if not swaps_axes([g])]
        out["<rot180>"] = [np.eye(2, dtype=np.int64), -np.eye(2, dtype=np.int64)]
        out["trivial"] = [np.eye(2, dtype=np.int64)]
    else:
        out["B_3"] = all_ops
        out["C2^3"] = [g for g in all_ops if not swaps_axes([g])]
        out["SO-part of B_3"] = [g for g in all_ops if refs.det(g) == 1]
    for name, ops in out.items():
        assert is_closed(ops), name
    return out


# ---------------------------------------------------------------------------------------------
# GroupAverage

SIGS_2D = [
    # (input signature, output signature): pseudo-types and k = 2 included
    ((((0, 0), 2), ((1, 0), 1)), (((0, 0), 1), ((1, 0), 1))),
    ((((0, 1), 1), ((1, 1), 1), ((0, 0), 1)), (((1, 1), 1), ((0, 1), 1))),
    ((((2, 0), 1), ((0, 0), 1)), (((2, 0), 1), ((1, 0), 1), ((0, 1), 1))),
    ((((1, 0), 1), ((2, 1), 1)), (((0, 0), 1), ((2, 1), 1), ((1, 1), 1))),
    ((((0, 0), 1),), (((1, 0), 2),)),
]
SIGS_3D = [
    ((((0, 0), 1), ((1, 0), 1)), (((0, 0), 1), ((1, 0), 1))),
    ((((0, 1), 1), ((1, 1), 1)), (((1, 1), 1), ((0, 1), 1), ((2, 0), 1))),
    ((((2, 1), 1), ((0, 0), 1)), (((1, 0), 1), ((0, 1), 1))),
]


def rand_input(rng, D, sig, dims):
    return {(k, p): rand_block(rng, (n,) + tuple(dims) + (D,) * k) for (k, p), n in sig}


def ga_model_result(ctx, flags, rec_calls, plain, ops, D):
    """Lean `groupAverageCode` on the recorded inner outputs, action = reference action"""
    keys = list(plain.keys())

    def flat(d):
        return [int(v) for k in keys for v in np.asarray(d[k]).reshape(-1)]

    inner, back = [], []
    for g, (_, out) in zip(ops, rec_calls):
        o = as_int_dict(out)
        inner.append(flat(o))
        back.append(flat(refs.act_dict(o, D, np.asarray(g).T)))
    res = ctx.driver.call("c10.average", always_average=flags[0], inference=flags[1], plain=flat(plain),
                          inner=inner, back=back)
    vals = [Fraction(n, d) for n, d in res]
    out, i = {}, 0
    for k in keys:
        shp = np.asarray(plain[k]).shape
        m = int(np.prod(shp))
        arr = np.empty(m, dtype=object)
        arr[:] = vals[i : i + m]
        out[k] = arr.reshape(shp)
        i += m
    return out


def frac_of_mi(mi) -> dict:
    out = {}
    for key, val in mi.items():
        a = np.asarray(val)
        arr = np.empty(a.size, dtype=object)
        arr[:] = [Fraction(float(v)) for v in a.reshape(-1)]
        out[key] = arr.reshape(a.shape)
    return out


def group_average_case(ctx: Ctx, name, ops, D, in_sig, out_sig, dims, kind, flags=(True, False), negative=False,
                       gs=None):
    """one (inner model, operator list, input); returns number of g for which equivariance failed"""
    import ginjax.models as models

    rng = ctx.rng
    inner = make_int_model(rng, D, in_sig, out_sig, kind)
    order = rng.permutation(len(ops))
    ops_l = [np.asarray(ops[i]) for i in order]  # the list order is arbitrary
    xd = rand_input(rng, D, in_sig, dims)
    x = to_mi(xd, D)
    rec = Recorder(inner)
    wrapper = models.GroupAverage(rec, ops_l, always_average=flags[0], inference=flags[1])
    wx_mi = wrapper(x)[0]
    calls_x = list(rec.calls)
    n = len(ops_l)
    exact = n > 0 and (n & (n - 1)) == 0  # division by a power of two is exact
    plain = as_int_dict(inner(x)[0])
    case = {"wrapper": "GroupAverage", "group": name, "operators": [g.tolist() for g in ops_l], "D": D,
            "in_signature": in_sig, "out_signature": out_sig, "dims": list(dims), "flags": list(flags),
            "inner_kind": kind, "x": show(xd)}
    # -- correspondence with the Lean definition (on x itself)
    if not negative:
        mod = ga_model_result(ctx, flags, calls_x, plain, ops_l, D)
        got = frac_of_mi(wx_mi)
        if exact:
            same = dict_eq(mod, got)
        else:
            # 1/n is rounded: compare the un-normalised sums, which are integers
            same = set(mod) == set(got) and all(
                np.array_equal(np.rint(np.asarray(got[k], dtype=np.float64) * n), np.asarray(mod[k] * n, dtype=np.float64))
                for k in mod)
        if not same:
            ctx.violation("correspondence", "GroupAverage.__call__ differs from Lean groupAverageCode "
                          "(sum over operators of g^T.f(g.x), divided by len(operators))",
                          dict(case, impl=show({k: np.asarray(v, dtype=np.float64) for k, v in got.items()}),
                               model=show({k: np.asarray(v, dtype=np.float64) for k, v in mod.items()})))
    # -- oracle: equivariance for every g of the group
    active = (flags[0] or flags[1]) and n > 0
    group = gs if gs is not None else ops_l
    den = n if active else 1
    wx = frac_of_mi(wx_mi)
    fails, inner_defect = 0, 0
    for g in group:
        gx = refs.act_dict(xd, D, g)
        rec.calls.clear()
        lhs = frac_of_mi(wrapper(to_mi(gx, D))[0])
        rhs = {k: refs.act_block(v, D, k[0], k[1], g) for k, v in wx.items()}
        ginner = as_int_dict(inner(to_mi(gx, D))[0])
        gplain = refs.act_dict(plain, D, g)
        inner_defect = max([inner_defect] + [int(np.max(np.abs(ginner[k] - gplain[k]))) if ginner[k].shape == gplain[k].shape
                                             else 10**6 for k in plain])
        if not dict_eq(lhs, rhs):
            fails += 1
            if active and not negative:
                ctx.violation("oracle", f"GroupAverage over {name} is not equivariant: wrapper(g.x) != g.wrapper(x)",
                              dict(case, g=np.asarray(g).tolist(),
                                   lhs=show({k: np.asarray(v, dtype=np.float64) for k, v in lhs.items()}),
                                   rhs=show({k: np.asarray(v, dtype=np.float64) for k, v in rhs.items()})))
                break
    # -- averaging off: equals the inner model
    if not active:
        if not dict_eq(wx, {k: np.vectorize(Fraction, otypes=[object])(v) for k, v in plain.items()}):
            ctx.violation("oracle", "GroupAverage with averaging off differs from the inner model", case)
    ctx.hist("ga_group", name + (" (negative control)" if negative else ""))
    ctx.hist("ga_D", D)
    ctx.hist("ga_dims", "square" if len(set(dims)) == 1 else "non-square")
    ctx.hist("ga_flags", str(flags))
    for (k, p), _ in in_sig:
        ctx.hist("ga_in_type", f"({k},{p})")
    for (k, p), _ in out_sig:
        ctx.hist("ga_out_type", f"({k},{p})")
    ctx.hist("ga_inner_defect>0", inner_defect > 0)
    if not negative:
        ctx.case(("GA", name, [g.tolist() for g in ops_l], in_sig, out_sig, list(dims), list(flags), show(xd)),
                 nontrivial=active and inner_defect > 0 and n > 1,
                 sample=pick_sample("GA", {"wrapper": "GroupAverage", "group": name, "n_ops": n, "in": in_sig, "out": out_sig,
                                           "dims": list(dims), "flags": list(flags), "x": show(xd),
                                           "inner_equivariance_defect": inner_defect,
                                           "wrapper_defect": 0 if fails == 0 else "nonzero"}, 3))
    return fails, inner_defect


def group_average_stateful(ctx: Ctx, name, ops, D, in_sig, out_sig, dims):
    """an inner model that READS and UPDATES the auxiliary state it is handed (plain pytree state): every group
    element has to be evaluated with the state the wrapper was called with, so that the sum over the group stays
    symmetric and the wrapper equivariant for that state"""
    import jax.numpy as jnp

    import ginjax.models as models

    rng = ctx.rng
    base = make_int_model(rng, D, in_sig, out_sig, "callable")

    def inner(x, aux_data=None):
        out, _ = base(x, None)
        s = aux_data
        return type(out)({k: v * s + s for k, v in out.items()}, out.D, out.is_torus), s + 1.0

    ops_l = [np.asarray(ops[i]) for i in rng.permutation(len(ops))]
    wrapper = models.GroupAverage(inner, ops_l, always_average=True)
    xd = rand_input(rng, D, in_sig, dims)
    s0 = jnp.float32(2.0)
    case = {"wrapper": "GroupAverage", "inner": "stateful (reads and updates aux_data)", "group": name,
            "operators": [g.tolist() for g in ops_l], "D": D, "in_signature": in_sig, "out_signature": out_sig,
            "dims": list(dims), "x": show(xd), "aux_data": 2.0}
    ctx.case(("GA-stateful", name, [g.tolist() for g in ops_l], in_sig, out_sig, list(dims), show(xd)), len(ops_l) > 1)
    ctx.hist("ga_group", name + " (stateful inner model)")
    try:
        wx = frac_of_mi(wrapper(to_mi(xd, D), s0)[0])
        for g in ops_l:
            lhs = frac_of_mi(wrapper(to_mi(refs.act_dict(xd, D, g), D), s0)[0])
            rhs = {k: refs.act_block(v, D, k[0], k[1], g) for k, v in wx.items()}
            if not dict_eq(lhs, rhs):
                ctx.violation("oracle", f"GroupAverage over {name} around a stateful inner model is not equivariant for the "
                                        "state it was called with: wrapper(g.x, s) != g.wrapper(x, s)",
                              dict(case, g=np.asarray(g).tolist()))
                return
    except Exception as e:  # noqa: BLE001
        ctx.violation("oracle", "GroupAverage raised on a stateful inner model with plain-pytree state",
                      dict(case, raised=f"{type(e).__name__}: {str(e)[:200]}"))


def group_average_checks(ctx: Ctx):
    rng = ctx.rng
    quick = ctx.tier == "quick"
    g2 = groups_for(2, ctx.tier)
    for gname, dims in (("B_2", (3, 3)), ("C4", (2, 2)), ("C2^2", (2, 3))):
        if gname in g2:
            group_average_stateful(ctx, gname, g2[gname], 2, SIGS_2D[0][0], SIGS_2D[0][1], dims)
    plan = []  # (name, ops, D, sigs, dims)
    reps = 2 if quick else 4
    for name, ops in g2.items():
        sq = swaps_axes(ops)
        for r in range(reps):
            for si, (in_sig, out_sig) in enumerate(SIGS_2D):
                if quick and name in ("<rot180>", "trivial") and si not in (0, 1):
                    continue
                if sq and not NONSQUARE:
                    dims_list = [(int(rng.integers(2, 5)),) * 2]
                elif sq:
                    dims_list = [(int(rng.integers(2, 5)),) * 2, (2, 3) if (si + r) % 2 else (4, 3)]
                else:
                    m = int(rng.integers(2, 5))
                    dims_list = [(m, m + 1 + int(rng.integers(0, 2)))] if (si + r) % 2 else [(m + 1, m)]
                    if si == 0:
                        dims_list.append((3, 3))
                for dims in dims_list:
                    plan.append((name, ops, 2, in_sig, out_sig, dims))
    if not quick:
        g3 = groups_for(3, ctx.tier)
        for name, ops in g3.items():
            sq = swaps_axes(ops)
            for si, (in_sig, out_sig) in enumerate(SIGS_3D):
                if sq and not NONSQUARE:
                    dims_list = [(2, 2, 2) if si else (3, 3, 3)]
                elif sq:
                    dims_list = [(2, 2, 2), (2, 3, 2)]
                else:
                    dims_list = [(2, 3, 4) if si % 2 else (3, 2, 2)]
                for dims in dims_list:
                    plan.append((name, ops, 3, in_sig, out_sig, dims))
    for i, (name, ops, D, in_sig, out_sig, dims) in enumerate(plan):
        kind = "module" if i % 3 else "callable"
        flags = (True, False) if i % 2 == 0 else (False, True)
        group_average_case(ctx, name, ops, D, in_sig, out_sig, dims, kind, flags)
    # averaging off (flags false, or no operators): equals the inner model
    in_sig, out_sig = SIGS_2D[0]
    group_average_case(ctx, "B_2", g2["B_2"], 2, in_sig, out_sig, (3, 3), "module", flags=(False, False))
    group_average_case(ctx, "C4", g2["C4"], 2, SIGS_2D[1][0], SIGS_2D[1][1], (2, 2), "callable", flags=(False, False))
    group_average_case(ctx, "empty list", [], 2, in_sig, out_sig, (3, 3), "module", flags=(True, True), gs=g2["B_2"][:1])
    # negative control: operator lists that are NOT closed under the product
    rot90 = np.array([[0, -1], [1, 0]], dtype=np.int64)
    flipx = np.array([[-1, 0], [0, 1]], dtype=np.int64)
    eye = np.eye(2, dtype=np.int64)
    controls = [("{1, rot90}", [eye, rot90]), ("{1, rot90, flipx}", [eye, rot90, flipx]), ("{rot90, flipx}", [rot90, flipx])]
    detected = 0
    for cname, cops in controls:
        assert not is_closed(cops)
        in_sig, out_sig = SIGS_2D[int(rng.integers(0, 2))]
        fails, defect = group_average_case(ctx, cname, cops, 2, in_sig, out_sig, (3, 3), "module", (True, False),
                                           negative=True, gs=g2["B_2"])
        detected += 1 if fails > 0 else 0
    ctx.notes["negative_controls"] = {"run": len(controls), "oracle_saw_failure": detected,
                                      "what": "GroupAverage over operator subsets not closed under the product"}
    if detected < len(controls):
        raise InfraError("negative control: the equivariance oracle did not see a non-closed operator subset fail")


# ---------------------------------------------------------------------------------------------
# Climate1D

TYPES3 = [(0, 0), (0, 1), (1, 0)]
LONFLIP = np.array([[-1, 0], [0, 1]], dtype=np.int64)
EQFLIP = np.array([[1, 0], [0, -1]], dtype=np.int64)
FLIP1 = np.array([[-1]], dtype=np.int64)


# input layouts for which to1d emits the pseudoscalar bands before the scalar ones (no true scalar block first) ...
UNSORTED_1D_ORDERS = [((1, 0),), ((0, 1), (1, 0)), ((1, 0), (0, 1)), ((1, 0), (0, 1), (0, 0)), ((0, 1), (0, 0))]
# ... and two for which the 1-D key order is the sorted one
SORTED_1D_ORDERS = [((0, 0), (1, 0)), ((0, 0), (0, 1), (1, 0))]


def all_orders():
    """every insertion order of every non-empty subset of the three supported types (15);
    the D5 witness (vector before scalar) first"""
    out = []
    for r in (1, 2, 3):
        for sub in itertools.permutations(TYPES3, r):
            out.append(sub)
    first = ((1, 0), (0, 0))
    out.remove(first)
    return [first] + out


def cfg_json(nx, ny, past, future, const, out_keys):
    return {"nx": nx, "ny": ny, "past": past, "future": future,
            "const": [[k, p, n] for (k, p), n in const.items()],
            "out_keys": [[k, p, n] for (k, p), n in out_keys]}


def climate_model(inner, out_keys, past, future, dims, const):
    import ginjax.geometric as geom
    import ginjax.models as models

    return models.Climate1D(inner, geom.Signature(tuple(out_keys)), past, future, tuple(dims), dict(const))


def climate_relayout_case(ctx: Ctx, order, nx, ny, past, future, chans, const):
    """to1d / from1d / signature / lon-flip on one input layout.  chans: {key: dynamic channel count / lcm}"""
    import ginjax.models as models

    rng = ctx.rng
    unit = past * future // math.gcd(past, future)
    xd = {}
    for key in order:
        n = chans[key] * unit + const.get(key, 0)
        xd[key] = rand_block(rng, (n, nx, ny) + (2,) * key[0], -9, 9)
    x = to_mi(xd, 2, (True, False))
    sig_x = [(k, int(v.shape[0])) for k, v in xd.items()]
    dyn_sig = [(k, chans[k] * unit) for k in order if chans[k] > 0]
    m = climate_model(None, dyn_sig, past, future, (nx, ny), const)
    case = {"wrapper": "Climate1D", "insertion_order": [list(k) for k in order], "lon": nx, "lat": ny,
            "past_steps": past, "future_steps": future, "constant_fields_2d": {str(k): v for k, v in const.items()},
            "x": show(xd)}
    ctx.hist("cl_order", str(list(order)))
    ctx.hist("cl_dims", f"{nx}x{ny}")
    ctx.hist("cl_past_future", f"{past}/{future}")
    ctx.hist("cl_const", "none" if not const else str(sorted(const.items())))
    z_mi = m.to1d(x)
    z = as_int_dict(z_mi)
    # oracle 1: signature of to1d(x) = get_1d_signature(signature(x)) (as dicts)
    sig1d = dict(models.Climate1D.get_1d_signature(tuple(sig_x), ny))
    sig_z = {k: int(v.shape[0]) for k, v in z.items()}
    if sig1d != sig_z:
        ctx.violation("oracle", "signature of to1d(x) differs from get_1d_signature(signature(x))",
                      dict(case, to1d_signature=str(sig_z), get_1d_signature=str(sig1d)))
    # oracle 2: round trip on the dynamic rows
    zdyn = {}
    for k, v in z.items():
        nconst = ny * const.get(k, 0)
        if v.shape[0] - nconst > 0:
            zdyn[k] = v[: v.shape[0] - nconst]
    xdyn = {k: v[: v.shape[0] - const.get(k, 0)] for k, v in xd.items() if v.shape[0] - const.get(k, 0) > 0}
    rt_ok = True
    try:
        back = as_int_dict(m.from1d(to_mi(zdyn, 1, (True,))))
        rt_ok = dict_eq(back, xdyn)
    except (AssertionError, KeyError, TypeError, ValueError) as e:
        back, rt_ok = {"raised": repr(e)[:200]}, False
    if not rt_ok:
        ctx.violation("oracle", "Climate1D.from1d(to1d(x)) != x" + (" (dynamic rows; constant fields present)" if const else ""),
                      dict(case, to1d=show(z), from1d_of_to1d=show(back) if "raised" not in back else back))
    # oracle 3: to1d turns the longitude reflection into the 1-D reflection
    zl = as_int_dict(m.to1d(to_mi(refs.act_dict(xd, 2, LONFLIP), 2, (True, False))))
    zr = refs.act_dict(z, 1, FLIP1)
    lon_ok = dict_eq(zl, zr)
    if not lon_ok:
        ctx.violation("oracle", "to1d(lonflip.x) != [-1].to1d(x)", dict(case, lhs=show(zl), rhs=show(zr)))
    # correspondence: Lean model of to1d / from1d / get_1d_signature, by key
    cfgj = cfg_json(nx, ny, past, future, const, dyn_sig)
    try:
        zm = unblocks(ctx.driver.call("c10.to1d", cfg=cfgj, legacy=False, x=jblocks(xd)))
    except DriverReject as e:
        zm = {"rejected": str(e)}
    if "rejected" in zm or not dict_eq(zm, z):
        if rt_ok and lon_ok:
            ctx.violation("correspondence", "Climate1D.to1d differs from Lean climateTo1d",
                          dict(case, impl=show(z), model=show(zm) if "rejected" not in zm else zm))
    else:
        ctx.hist("cl_to1d_key_order_matches_model", list(zm.keys()) == list(z.keys()))
    # the model's reflections are the reference action (ties climate_lonflip to the oracle's notion of `g.`)
    fl2 = unblocks(ctx.driver.call("c10.flip", which="lon2", nx=nx, ny=ny, x=jblocks(xd)))
    fl1 = unblocks(ctx.driver.call("c10.flip", which="lon1", nx=nx, ny=ny, x=jblocks(z)))
    fe2 = unblocks(ctx.driver.call("c10.flip", which="eq2", nx=nx, ny=ny, x=jblocks(xd)))
    if not (dict_eq(fl2, refs.act_dict(xd, 2, LONFLIP)) and dict_eq(fl1, zr) and dict_eq(fe2, refs.act_dict(xd, 2, EQFLIP))):
        ctx.violation("correspondence", "Lean flipLon2 / flip1 / flipEq2 differ from the reference action", case)
    sm = ctx.driver.call("c10.sig1d", sig=[[k[0], k[1], n] for k, n in sig_x], ny=ny)
    if {(a, b): n for a, b, n in sm} != sig1d:
        ctx.violation("correspondence", "get_1d_signature differs from Lean get1dSignature",
                      dict(case, impl=str(sig1d), model=str(sm)))
    ctx.hist("cl_sig_order_to1d_vs_get_1d_signature", list(sig1d.keys()) == list(z.keys()))
    if rt_ok and zdyn:
        try:
            bm = unblocks(ctx.driver.call("c10.from1d", cfg=cfgj, z=jblocks(zdyn)))
        except DriverReject as e:
            bm = {"rejected": str(e)}
        if "rejected" in bm or not dict_eq(bm, back):
            ctx.violation("correspondence", "Climate1D.from1d differs from Lean climateFrom1d",
                          dict(case, impl=show(back), model=show(bm) if "rejected" not in bm else bm))
    vec_before_scalar = (1, 0) in order and any(order.index((1, 0)) < order.index(k) for k in order if k[0] == 0)
    ctx.case(("CL-layout", list(order), nx, ny, past, future, sorted(const.items()), show(xd)),
             nontrivial=len(order) >= 2 or order == ((1, 0),),
             sample=pick_sample("CL-layout", {"wrapper": "Climate1D", "order": [list(k) for k in order], "lon": nx, "lat": ny,
                                              "past": past, "future": future, "const": str(const), "x": show(xd),
                                              "vector_before_scalar": vec_before_scalar}, 2))


def climate_call_case(ctx: Ctx, order, nx, ny, past, future, chans, const, out_order, out_ch, inner_kind=None):
    """Climate1D.__call__ around an integer inner 1-D model: equator equivariance + correspondence.
    inner_kind "positional": the inner model attaches its weights to the position of a block in the order the
    blocks reach it, not to the key (it is still ONE function of the 1-D image the wrapper hands it)"""
    import ginjax.models as models

    rng = ctx.rng
    xd = {}
    for key in order:
        n = chans[key] * past + const.get(key, 0)
        xd[key] = rand_block(rng, (n, nx, ny) + (2,) * key[0])
    out_keys = [(k, out_ch[k] * future) for k in out_order]
    sig_x = [(k, int(v.shape[0])) for k, v in xd.items()]
    x = to_mi(xd, 2, (True, False))
    probe = climate_model(None, out_keys, past, future, (nx, ny), const)
    in_sig_1d = [(k, int(v.shape[0])) for k, v in probe.to1d(x).items()]
    out_sig_1d = list(models.Climate1D.get_1d_signature(tuple(out_keys), ny))
    if inner_kind == "positional":
        inner = make_int_model(rng, 1, in_sig_1d, out_sig_1d, kind="positional")
    else:
        inner = make_int_model_1d(rng, in_sig_1d, out_sig_1d)
    rec = Recorder(inner)
    m = climate_model(rec, out_keys, past, future, (nx, ny), const)
    case = {"wrapper": "Climate1D.__call__", "insertion_order": [list(k) for k in order], "lon": nx, "lat": ny,
            "past_steps": past, "future_steps": future, "constant_fields_2d": {str(k): v for k, v in const.items()},
            "output_keys": out_keys, "x": show(xd)}
    keys_1d = [k for k, _ in in_sig_1d]
    ctx.hist("cl_call_inner_kind", inner_kind or "keyed")
    ctx.hist("cl_call_1d_key_order", str([list(k) for k in keys_1d]) + (" (sorted)" if keys_1d == sorted(keys_1d) else " (NOT sorted)"))
    if inner_kind == "positional":
        case["inner"] = ("weights attached to the position of a block in values() order of the 1-D image it receives; "
                         f"1-D key order handed over by to1d: {keys_1d}")
    wx_mi = m(x)[0]
    calls = rec.settled()
    wx2 = as_frac_dict(wx_mi, 2)
    if wx2 is None:
        raise InfraError("Climate1D output is not a half-integer: integer family broken")
    # oracle: commutes with the equator reflection (reference action)
    fx = refs.act_dict(xd, 2, EQFLIP)
    lhs2 = as_frac_dict(m(to_mi(fx, 2, (True, False)))[0], 2)
    rhs2 = refs.act_dict(wx2, 2, EQFLIP)
    if lhs2 is None or not dict_eq(lhs2, rhs2):
        ctx.violation("oracle", "Climate1D wrapper does not commute with the equator reflection",
                      dict(case, twice_lhs=show(lhs2) if lhs2 else None, twice_rhs=show(rhs2)))
        eq_ok = False
    else:
        eq_ok = True
    # the same wrapper declared for another boundary structure of its output (doubly periodic / regional domain):
    # the equator reflection is the same reflection
    import ginjax.geometric as geom_
    tor = [(True, True), (False, False)][(nx + ny + past + len(order)) % 2]
    m_t = models.Climate1D(inner, geom_.Signature(tuple(out_keys)), past, future, (nx, ny), dict(const), output_is_torus=tor)
    try:
        a2 = as_frac_dict(m_t(x)[0], 2)
        b2 = as_frac_dict(m_t(to_mi(fx, 2, (True, False)))[0], 2)
        ctx.hist("cl_call_output_is_torus", str(tor))
        if a2 is None or b2 is None or not dict_eq(b2, refs.act_dict(a2, 2, EQFLIP)):
            ctx.violation("oracle", f"Climate1D wrapper with output_is_torus={tor} does not commute with the equator reflection",
                          dict(case, output_is_torus=list(tor)))
    except Exception as e:  # noqa: BLE001
        ctx.violation("oracle", f"Climate1D wrapper with output_is_torus={tor} raised",
                      dict(case, output_is_torus=list(tor), raised=f"{type(e).__name__}: {str(e)[:200]}"))
    # how non-equivariant is F = from1d . inner . to1d on its own?
    f_x = as_int_dict(m.from1d(inner(m.to1d(x))[0]))
    f_fx = as_int_dict(m.from1d(inner(m.to1d(to_mi(fx, 2, (True, False))))[0]))
    g_f_x = refs.act_dict(f_x, 2, EQFLIP)
    defect = max(int(np.max(np.abs(f_fx[k] - g_f_x[k]))) for k in f_x)
    ctx.hist("cl_call_inner_defect>0", defect > 0)
    ctx.hist("cl_call_out_keys", str([list(k) for k in out_order]))
    # correspondence: the recorded inner inputs are to1d(x), to1d(eqflip.x) of the model; the result is
    # climateCombine of the recorded inner outputs
    cfgj = cfg_json(nx, ny, past, future, const, out_keys)
    try:
        z1 = unblocks(ctx.driver.call("c10.to1d", cfg=cfgj, legacy=False, x=jblocks(xd)))
        fxm = unblocks(ctx.driver.call("c10.flip", which="eq2", nx=nx, ny=ny, x=jblocks(xd)))
        z2 = unblocks(ctx.driver.call("c10.to1d", cfg=cfgj, legacy=False, x=jblocks(fxm)))
        comb = unblocks_frac(ctx.driver.call("c10.climate_combine", cfg=cfgj, a=jblocks(as_int_dict(calls[0][1])),
                                             b=jblocks(as_int_dict(calls[1][1]))))
        comb2 = {k: np.vectorize(lambda q: int(q * 2), otypes=[np.int64])(v) for k, v in comb.items()}
        ok = (len(calls) == 2 and dict_eq(z1, as_int_dict(calls[0][0])) and dict_eq(z2, as_int_dict(calls[1][0]))
              and dict_eq(fxm, fx) and dict_eq(comb2, wx2))
        detail = {"model_to1d_x": show(z1), "impl_inner_input_1": show(as_int_dict(calls[0][0])),
                  "model_twice_result": show(comb2), "impl_twice_result": show(wx2)}
    except DriverReject as e:
        ok, detail = False, {"rejected": str(e)}
    if not ok and eq_ok:
        ctx.violation("correspondence", "Climate1D.__call__ differs from Lean climateCall "
                      "(inner inputs to1d(x), to1d(flip.x); result (from1d(a) + flip.from1d(b)) / 2)", dict(case, **detail))
    ctx.case(("CL-call", inner_kind or "keyed", list(order), nx, ny, past, future, sorted(const.items()), out_keys, show(xd)),
             nontrivial=defect > 0,
             sample=pick_sample("CL-call", {"wrapper": "Climate1D.__call__", "order": [list(k) for k in order], "lon": nx,
                                            "lat": ny, "past": past, "future": future, "const": str(const),
                                            "output_keys": str(out_keys), "x": show(xd), "inner_equator_defect": defect}, 2))


def const_layouts(order, rng):
    """constant-field layouts compatible with the input types (constants are of order 0)"""
    zero_types = [k for k in order if k[0] == 0]
    outs = [{}]
    if zero_types:
        outs.append({zero_types[0]: 1})
        if len(zero_types) == 2:
            outs.append({zero_types[1]: 2, zero_types[0]: 1})
    return outs


def climate_checks(ctx: Ctx):
    rng = ctx.rng
    quick = ctx.tier == "quick"
    orders = all_orders()
    dims = [(a, b) for a in range(2, 6) for b in range(2, 6)]
    # the D5 witness, smallest form, first
    climate_relayout_case(ctx, ((1, 0), (0, 0)), 2, 2, 1, 1, {(1, 0): 1, (0, 0): 1}, {})
    off = int(rng.integers(0, 9))
    for di, (nx, ny) in enumerate(dims):
        for oi, order in enumerate(orders):
            # quick tier: (past, future) is tied to the extents so that block shapes repeat (XLA compiles every
            # new shape); across the 16 extents every order still meets all nine (past, future) pairs
            q = (di + off) % 9
            pfs = [(1 + q % 3, 1 + q // 3)] if quick else [(p, f) for p in (1, 2, 3) for f in (1, 2, 3)]
            for past, future in pfs:
                layouts = const_layouts(order, rng)
                if quick:
                    layouts = [layouts[(oi + di) % len(layouts)]]
                for const in layouts:
                    chans = {k: 1 if quick else int(rng.integers(1, 3)) for k in order}
                    # a type may also be entirely constant
                    if const and len(order) >= 2 and rng.integers(4) == 0:
                        k0 = next(iter(const))
                        chans[k0] = 0
                    climate_relayout_case(ctx, order, nx, ny, past, future, chans, const)
    # __call__: equator equivariance for arbitrary inner 1-D models
    n_call = 24 if quick else 400
    out_orders = [o for o in all_orders()]
    for j in range(n_call):
        # (few distinct shapes in the quick tier: XLA compiles every new shape)
        nx, ny = [(2, 3), (4, 2), (3, 3), (5, 4)][j % 4] if quick else dims[j % len(dims)]
        order = orders[j % len(orders)]
        past, future = 1 + (j % 3), 1 + ((j // 3) % 3)
        layouts = const_layouts(order, rng)
        const = layouts[j % len(layouts)]
        chans = {k: 1 if quick else int(rng.integers(1, 3)) for k in order}
        out_order = out_orders[int(rng.integers(len(out_orders)))]
        out_ch = {k: 1 if quick else int(rng.integers(1, 3)) for k in out_order}
        climate_call_case(ctx, order, nx, ny, past, future, chans, const, out_order, out_ch)
    # __call__ around inner models that depend on the ORDER of the blocks they receive, on input layouts whose 1-D image
    # does not come out in sorted key order (no true scalar block first: to1d emits (0,1) before (0,0)) as well as on
    # layouts where it does: both evaluations of the inner model have to be the same function of the 1-D image
    n_pos = 2 if quick else 3
    for r in range(n_pos):
        for oi, order in enumerate(UNSORTED_1D_ORDERS + SORTED_1D_ORDERS):
            j = r * 7 + oi
            nx, ny = [(2, 3), (4, 2), (3, 3), (5, 4)][j % 4] if quick else dims[int(rng.integers(len(dims)))]
            past, future = 1 + (j % 3), 1 + ((j // 3) % 3)
            layouts = const_layouts(order, rng)
            const = layouts[(r + oi) % len(layouts)]
            chans = {k: 1 if quick else int(rng.integers(1, 3)) for k in order}
            out_order = out_orders[int(rng.integers(len(out_orders)))]
            out_ch = {k: 1 if quick else int(rng.integers(1, 3)) for k in out_order}
            climate_call_case(ctx, order, nx, ny, past, future, chans, const, out_order, out_ch, inner_kind="positional")


# ---------------------------------------------------------------------------------------------
# ModelWrapper


def model_wrapper_checks(ctx: Ctx):
    import equinox as eqx

    import ginjax.geometric as geom
    import ginjax.models as models

    rng = ctx.rng
    n = 12 if ctx.tier == "quick" else 80
    all_types = [(k, p) for k in (0, 1, 2) for p in (0, 1)]
    for i in range(n):
        D = 1 + (i % 3)
        types = [t for t in all_types if (D > 1 or t[0] == 0)]
        m = int(rng.integers(1, min(4, len(types)) + 1))
        order = [types[j] for j in rng.permutation(len(types))[:m]]
        dims = tuple(int(rng.integers(2, 4)) for _ in range(D))
        sig = [(key, int(rng.integers(1, 3))) for key in order]
        xd = rand_input(rng, D, sig, dims)
        x = to_mi(xd, D)
        case = {"wrapper": "ModelWrapper", "D": D, "signature": sig, "dims": list(dims), "x": show(xd)}
        S = int(np.prod(dims))
        # oracle: identity inner model, output_keys = signature(x): x comes back
        w = models.ModelWrapper(D, eqx.nn.Identity(), geom.Signature(tuple(sig)), True)
        back = as_int_dict(w(x)[0])
        ok = dict_eq(back, xd) and list(back.keys()) == list(xd.keys())
        if not ok:
            ctx.violation("oracle", "ModelWrapper around the identity does not return its input", dict(case, impl=show(back)))
        # correspondence of the two re-layouts
        arr = np.asarray(x.to_scalar_multi_image()[(0, 0)]).astype(np.int64)
        xs = [{"key": [k[0], k[1]], "shape": [v.shape[0], S, D ** k[0]], "data": [int(t) for t in v.reshape(-1)]}
              for k, v in xd.items()]
        am = ctx.driver.call("c10.to_scalar", D=D, x=xs)
        if am["shape"] != [arr.shape[0], S, 1] or am["data"] != [int(t) for t in arr.reshape(-1)]:
            if ok:
                ctx.violation("correspondence", "to_scalar_multi_image differs from Lean toScalar",
                              dict(case, impl=arr.tolist(), model=am))
        # a different output layout over the same channels
        total = arr.shape[0]
        layout, left = [], total
        for key in [types[j] for j in rng.permutation(len(types))]:
            if left >= D ** key[0] and len(layout) < 3:
                c = int(rng.integers(1, left // (D ** key[0]) + 1)) if len(layout) < 2 else left // (D ** key[0])
                layout.append((key, c))
                left -= c * D ** key[0]
        perm = rng.permutation(total)
        src = arr[perm]
        real = geom.MultiImage({(0, 0): to_mi({(0, 0): src}, D)[(0, 0)]}, D).from_scalar_multi_image(
            geom.Signature(tuple(layout)))
        real = as_int_dict(real)
        fm = ctx.driver.call("c10.from_scalar", D=D, layout=[[k[0], k[1], c] for k, c in layout],
                             arr={"key": [0, 0], "shape": [total, S, 1], "data": [int(t) for t in src.reshape(-1)]})
        fmd = {(b["key"][0], b["key"][1]): np.array(b["data"], dtype=np.int64).reshape(
            (b["shape"][0],) + dims + (D,) * b["key"][0]) for b in fm}
        if not dict_eq(fmd, real) or list(fmd.keys()) != list(real.keys()):
            ctx.violation("correspondence", "from_scalar_multi_image differs from Lean fromScalar",
                          dict(case, layout=layout, impl=show(real), model=show(fmd)))
        ctx.hist("mw_D", D)
        ctx.case(("MW", D, sig, list(dims), show(xd)), nontrivial=len(sig) >= 2 and any(k[0] >= 1 for k, _ in sig),
                 sample=pick_sample("MW", {"wrapper": "ModelWrapper", "D": D, "signature": str(sig), "dims": list(dims),
                                           "x": show(xd)}, 1))


# ---------------------------------------------------------------------------------------------


def run(ctx: Ctx):
    import ginjax.ml  # noqa: F401  (models imports ml; import order matters in ginjax)

    ctx.rule = (
        "GroupAverage: (inner integer model, operator list, input, flags) with every g of the group; non-trivial iff "
        "averaging is active over more than one operator AND the inner model's own equivariance defect max_g |f(g.x) - g.f(x)| "
        "is non-zero. Climate1D layout cases: (insertion order, lon, lat, past, future, constant layout, input); non-trivial "
        "iff at least two types or a vector type is present. Climate1D call cases: non-trivial iff from1d.inner.to1d alone "
        "does not commute with the equator reflection on that input. ModelWrapper: non-trivial iff >= 2 types and some order >= 1."
    )
    ctx.assumptions = [
        "values are small integers, so every float32 operation of the wrappers is exact (division by len(operators) is by a "
        "power of two, or the un-normalised integer sums are compared)",
        "the group action used by the oracle is the reference action harness/refs.py (validated against the Lean spec by C02)",
        "GroupAverage on the real code: square extents for groups with axis-swapping elements unless C10_NONSQUARE=1 "
        "(D2/D3 open), inner models emit blocks in a fixed key order (D7 open)",
        "Climate1D.from1d does not handle constant fields: the round trip is checked on the dynamic rows",
    ]
    ctx.trusted_extra = [
        "C02 supplies `transpose = inverse on signed permutation matrices` and `the multi-image action is a linear group "
        "action` (act_mul, act_one, act_transpose_cancel, act_add, act_smul): hypotheses of groupAverage_equivariant_of_laws",
    ]
    ctx.notes["nonsquare_swapping_groups_enabled"] = NONSQUARE
    ctx.max_samples = 8
    _SAMPLE_COUNT.clear()
    climate_checks(ctx)
    model_wrapper_checks(ctx)
    group_average_checks(ctx)
