"""C02 - the group action on images is a genuine, type-correct group action.

correspondence: geom.times_group_element, GeometricImage.times_group_element and
  MultiImage.times_group_element (0-2 leading axes) against the Lean model `tge` of the code
  (driver op c02.tge; extents/flags via c02.meta), exact on integer images; the numpy reference
  action of harness/refs.py against the Lean spec `actSpec` (c02.act_spec).
oracle (on the implementation): equality with the defining formula (Lean `actSpec`), identity,
  composition (g h).A = g.(h.A) for pairs, g^T undoes g, linearity, pixel bijection, pixel-norm
  preservation, transport of extents and boundary flags, D/k/parity unchanged.
"""
from __future__ import annotations

import itertools

import numpy as np

import refs
from common import Ctx, DriverReject, jarr, unarr

SHAPES = {
    1: [(1,), (3,), (4,)],
    2: [(1, 1), (2, 2), (3, 3), (2, 3), (3, 2), (1, 4), (4, 1), (2, 5), (4, 3), (5, 5)],
    3: [(2, 3, 4), (1, 2, 5), (3, 3, 2), (2, 2, 2), (1, 1, 3), (3, 1, 2), (4, 2, 3)],
}


def mat_list(g):
    return [[int(v) for v in row] for row in np.asarray(g)]


def is_three_cycle(g):
    a = np.abs(np.asarray(g))
    perm = [int(np.argmax(a[i])) for i in range(a.shape[0])]
    return a.shape[0] == 3 and all(perm[i] != i for i in range(3))


def group_elements(ctx: Ctx, d: int):
    ops = refs.signed_perms(d)
    if d < 3 or ctx.tier == "thorough":
        return ops
    cyc = [g for g in ops if is_three_cycle(g)]
    rest = [g for g in ops if not is_three_cycle(g)]
    pick_c = [cyc[i] for i in ctx.rng.choice(len(cyc), size=5, replace=False)]
    pick_r = [rest[i] for i in ctx.rng.choice(len(rest), size=7, replace=False)]
    return pick_c + pick_r


def rand_img(ctx: Ctx, dims, d, k, encode=False):
    shape = tuple(dims) + (d,) * k
    if encode:
        return (np.arange(int(np.prod(shape)), dtype=np.int64) + 1).reshape(shape)
    return ctx.rng.integers(-3, 4, size=shape).astype(np.int64)


def model_tge(ctx: Ctx, d, g, p, img, op="c02.tge"):
    return unarr(ctx.driver.call(op, d=d, M=mat_list(g), p=int(p), image=jarr(img)))


def to_int(a):
    a = np.asarray(a)
    r = np.rint(a).astype(np.int64)
    if not np.array_equal(r.astype(a.dtype), a):
        return None
    return r


def check_functional(ctx: Ctx, geom, jnp, d, dims, k, p, g, img, tag):
    """array-level entry point vs model, spec and reference"""
    case = {"entry": "geom.times_group_element", "D": d, "dims": list(dims), "k": k, "parity": p,
            "g": mat_list(g), "image": jarr(img), "tag": tag}
    det = refs.det(g)
    nontriv = not np.array_equal(np.asarray(g), np.eye(d, dtype=np.int64)) and len(np.unique(img)) > 1
    ctx.case(("fn", d, list(dims), k, p, mat_list(g), tag, img.tobytes().hex()[:64]), nontriv,
             sample={k2: case[k2] for k2 in ("entry", "D", "dims", "k", "parity", "g")})
    ctx.hist("d", d); ctx.hist("k", k); ctx.hist("parity", p); ctx.hist("det", det)
    ctx.hist("square", len(set(dims)) == 1)
    ctx.hist("three_cycle_distinct_extents", bool(is_three_cycle(g) and len(set(dims)) == 3))
    try:
        out = geom.times_group_element(d, jnp.array(img, dtype=jnp.float32), p, np.asarray(g))
        impl = to_int(out)
    except Exception as e:  # the property says the action is defined for all of these
        case["raised"] = repr(e)[:300]
        ctx.violation("oracle", "times_group_element raised on a valid input", case)
        return None
    spec = model_tge(ctx, d, g, p, img, "c02.act_spec")
    model = model_tge(ctx, d, g, p, img, "c02.tge")
    ref = refs.act(img, d, p, g)
    if ref.shape != spec.shape or not np.array_equal(ref, spec):
        ctx.violation("correspondence", "harness reference action differs from Lean actSpec", case)
    if impl is None or impl.shape != spec.shape or not np.array_equal(impl, spec):
        case["impl"] = None if impl is None else jarr(impl)
        case["expected"] = jarr(spec)
        ctx.violation("oracle", "times_group_element differs from det^p g^{(x)k} A(g^-1 x)", case)
    elif model.shape != impl.shape or not np.array_equal(model, impl):
        case["model"] = jarr(model)
        ctx.violation("correspondence", "times_group_element differs from Lean model tge", case)
    return impl


def run_single(ctx: Ctx):
    import jax.numpy as jnp
    import ginjax.geometric as geom

    for d in (1, 2, 3):
        gs = group_elements(ctx, d)
        shapes = SHAPES[d]
        if ctx.tier == "quick" and d == 3:
            shapes = shapes[:4] + [shapes[int(ctx.rng.integers(4, len(shapes)))]]
        for dims in shapes:
            ks = [0] if d == 1 else ([0, 1, 2, 3] if np.prod(dims) * d ** 3 <= 400 else [0, 1, 2])
            for k in ks:
                for p in (0, 1):
                    # position encoded image for all g (bijection + formula), random for a few
                    enc = rand_img(ctx, dims, d, k, encode=True)
                    for gi, g in enumerate(gs):
                        if ctx.tier == "quick" and k >= 2 and gi % 3 != (k + p) % 3:
                            continue
                        impl = check_functional(ctx, geom, jnp, d, dims, k, p, g, enc, "encoded")
                        if impl is not None and k == 0:
                            # pixels move by a bijection: every source value exactly once
                            if sorted(np.abs(impl).reshape(-1).tolist()) != sorted(enc.reshape(-1).tolist()):
                                ctx.violation("oracle", "pixels are not moved by a bijection",
                                              {"D": d, "dims": list(dims), "g": mat_list(g), "impl": jarr(impl)})
                        if impl is not None and k >= 1:
                            # pixel Frobenius norm preserved along the pixel bijection
                            nrm = lambda a: (a.astype(np.int64) ** 2).reshape(a.shape[:d] + (-1,)).sum(-1)
                            want = refs.act(nrm(enc), d, 0, g)
                            if not np.array_equal(nrm(impl), want):
                                ctx.violation("oracle", "pixel norms are not preserved",
                                              {"D": d, "dims": list(dims), "k": k, "g": mat_list(g)})
                    for _ in range(2 if ctx.tier == "quick" else 4):
                        g = gs[int(ctx.rng.integers(len(gs)))]
                        check_functional(ctx, geom, jnp, d, dims, k, p, g, rand_img(ctx, dims, d, k), "random")


def run_laws(ctx: Ctx):
    """identity, composition, inverse, linearity on the implementation"""
    import jax.numpy as jnp
    import ginjax.geometric as geom

    def tge(d, img, p, g):
        return to_int(geom.times_group_element(d, jnp.array(img, dtype=jnp.float32), p, np.asarray(g)))

    for d in (1, 2, 3):
        ops = refs.signed_perms(d)
        shapes = SHAPES[d][: (3 if ctx.tier == "quick" else 6)]
        if d == 3:
            shapes = [(2, 3, 4), (1, 2, 5), (3, 3, 2)] + (SHAPES[3][3:6] if ctx.tier == "thorough" else [])
        pairs = list(itertools.product(range(len(ops)), repeat=2))
        if d == 3 and ctx.tier == "quick":
            idx = ctx.rng.choice(len(pairs), size=60, replace=False)
            pairs = [pairs[i] for i in idx]
        for dims in shapes:
            for k, p in ([(0, 0), (1, 1)] if d > 1 else [(0, 0), (0, 1)]):
                img = rand_img(ctx, dims, d, k)
                ident = tge(d, img, p, np.eye(d, dtype=np.int64))
                ctx.case(("id", d, list(dims), k, p), False)
                if ident is None or not np.array_equal(ident, img):
                    ctx.violation("oracle", "the identity does not act trivially",
                                  {"D": d, "dims": list(dims), "k": k, "parity": p, "image": jarr(img)})
                cache = {}
                for (a, b) in pairs:
                    g, h = ops[a], ops[b]
                    if b not in cache:
                        cache[b] = tge(d, img, p, h)
                    hA = cache[b]
                    lhs = tge(d, img, p, g @ h)
                    rhs = tge(d, hA, p, g) if hA is not None else None
                    nontriv = a != 0 and b != 0
                    ctx.case(("mul", d, list(dims), k, p, a, b), nontriv)
                    ctx.hist("law", "composition")
                    if lhs is None or rhs is None or lhs.shape != rhs.shape or not np.array_equal(lhs, rhs):
                        ctx.violation("oracle", "(g h).A != g.(h.A)",
                                      {"D": d, "dims": list(dims), "k": k, "parity": p, "g": mat_list(g),
                                       "h": mat_list(h), "image": jarr(img)})
                    # the product matrix of the model
                    if a % 7 == 0:
                        mm = ctx.driver.call("c02.mul", d=d, M=mat_list(g), N=mat_list(h))
                        if mm != mat_list(g @ h):
                            ctx.violation("correspondence", "Lean Mat.mul differs from numpy matmul",
                                          {"g": mat_list(g), "h": mat_list(h), "model": mm})
                for a, g in enumerate(ops):
                    gA = tge(d, img, p, g)
                    back = tge(d, gA, p, g.T) if gA is not None else None
                    ctx.case(("inv", d, list(dims), k, p, a), a != 0)
                    ctx.hist("law", "inverse")
                    if back is None or not np.array_equal(back, img):
                        ctx.violation("oracle", "g^T does not undo g",
                                      {"D": d, "dims": list(dims), "k": k, "parity": p, "g": mat_list(g),
                                       "image": jarr(img)})
                    # linearity
                    img2 = rand_img(ctx, dims, d, k)
                    c1, c2 = int(ctx.rng.integers(-3, 4)), int(ctx.rng.integers(-3, 4))
                    lin = tge(d, c1 * img + c2 * img2, p, g)
                    g2 = tge(d, img2, p, g)
                    ctx.case(("lin", d, list(dims), k, p, a, c1, c2), True)
                    ctx.hist("law", "linearity")
                    if lin is None or gA is None or g2 is None or not np.array_equal(lin, c1 * gA + c2 * g2):
                        ctx.violation("oracle", "the action is not linear",
                                      {"D": d, "dims": list(dims), "k": k, "parity": p, "g": mat_list(g)})


def run_entry_points(ctx: Ctx):
    """GeometricImage and MultiImage entry points: same action, metadata transported"""
    import jax.numpy as jnp
    import ginjax.geometric as geom

    n_cases = 40 if ctx.tier == "quick" else 300
    lead_choices = [(), (2,), (3,), (2, 3), (3, 2), (1, 2)]
    for it in range(n_cases):
        d = int(ctx.rng.choice([1, 2, 2, 3, 3]))
        ops = refs.signed_perms(d)
        g = ops[int(ctx.rng.integers(len(ops)))]
        if d == 3 and it % 3 == 0:
            cyc = [o for o in ops if is_three_cycle(o)]
            g = cyc[int(ctx.rng.integers(len(cyc)))]
        dims = SHAPES[d][int(ctx.rng.integers(len(SHAPES[d])))]
        flags = tuple(bool(b) for b in ctx.rng.integers(0, 2, size=d))
        meta = ctx.driver.call("c02.meta", d=d, M=mat_list(g), dims=list(dims), flags=list(flags))
        want_flags = refs.transport(g, flags)
        want_dims = refs.rotated_dims(g, dims)
        if tuple(meta["dims"]) != want_dims or tuple(meta["flags"]) != want_flags or meta["det"] != refs.det(g):
            ctx.violation("correspondence", "reference transport differs from Lean rotDims/transport/det",
                          {"g": mat_list(g), "dims": list(dims), "flags": list(flags), "model": meta})
        # --- GeometricImage
        k = 0 if d == 1 else int(ctx.rng.integers(0, 3))
        p = int(ctx.rng.integers(0, 2))
        img = rand_img(ctx, dims, d, k)
        case = {"entry": "GeometricImage.times_group_element", "D": d, "dims": list(dims), "k": k, "parity": p,
                "is_torus": list(flags), "g": mat_list(g), "image": jarr(img)}
        gi = geom.GeometricImage(jnp.array(img, dtype=jnp.float32), p, d, flags)
        out = gi.times_group_element(np.asarray(g))
        spec = model_tge(ctx, d, g, p, img, "c02.act_spec")
        model = model_tge(ctx, d, g, p, img, "c02.tge")
        impl = to_int(out.data)
        nontriv = not np.array_equal(np.asarray(g), np.eye(d, dtype=np.int64))
        ctx.case(("gi", d, list(dims), k, p, mat_list(g), list(flags), it), nontriv, sample={k2: case[k2] for k2 in ("entry", "D", "dims", "k", "parity", "is_torus", "g")})
        ctx.hist("entry", "GeometricImage")
        bad = []
        if impl is None or impl.shape != spec.shape or not np.array_equal(impl, spec):
            bad.append("data")
        if tuple(out.spatial_dims) != want_dims:
            bad.append(f"spatial_dims {out.spatial_dims} != {want_dims}")
        if tuple(out.is_torus) != want_flags:
            bad.append(f"is_torus {out.is_torus} != {want_flags}")
        if out.D != d or out.k != k or out.parity != p:
            bad.append("D/k/parity changed")
        if bad:
            case["problems"] = bad
            ctx.violation("oracle", "GeometricImage.times_group_element: " + "; ".join(bad), case)
        elif not np.array_equal(model, impl):
            ctx.violation("correspondence", "GeometricImage.times_group_element differs from Lean model", case)
        # --- MultiImage with leading axes
        lead = lead_choices[int(ctx.rng.integers(len(lead_choices)))]
        types = [(0, 0), (0, 1)] if d == 1 else [(0, 0), (1, 0), (1, 1), (2, 0), (0, 1)]
        ntypes = int(ctx.rng.integers(1, min(3, len(types)) + 1))
        keys = [types[i] for i in ctx.rng.permutation(len(types))[:ntypes]]
        blocks = {}
        for (kk, pp) in keys:
            blocks[(kk, pp)] = ctx.rng.integers(-3, 4, size=lead + tuple(dims) + (d,) * kk).astype(np.int64)
        mi = geom.MultiImage({key: jnp.array(b, dtype=jnp.float32) for key, b in blocks.items()}, d, flags)
        case = {"entry": "MultiImage.times_group_element", "D": d, "dims": list(dims), "leading": list(lead),
                "keys": [list(kq) for kq in keys], "is_torus": list(flags), "g": mat_list(g),
                "blocks": {str(kq): jarr(b) for kq, b in blocks.items()}}
        ctx.case(("mi", d, list(dims), list(lead), [list(kq) for kq in keys], mat_list(g), list(flags), it),
                 nontriv and len(lead) > 0,
                 sample={k2: case[k2] for k2 in ("entry", "D", "dims", "leading", "keys", "is_torus", "g")})
        ctx.hist("entry", "MultiImage")
        ctx.hist("n_leading", len(lead))
        try:
            out = mi.times_group_element(np.asarray(g))
        except Exception as e:
            case["raised"] = repr(e)[:300]
            ctx.violation("oracle", "MultiImage.times_group_element raised on a valid input", case)
            continue
        bad = []
        if list(out.keys()) != keys:
            bad.append(f"keys {list(out.keys())} != {keys}")
        if tuple(out.is_torus) != want_flags:
            bad.append(f"is_torus {out.is_torus} != {want_flags}")
        if out.D != d:
            bad.append("D changed")
        corr_bad = False
        for (kk, pp), b in blocks.items():
            if (kk, pp) not in out:
                continue
            ob = to_int(out[(kk, pp)])
            if ob is None or ob.shape != lead + want_dims + (d,) * kk:
                bad.append(f"block {(kk, pp)} has shape {None if ob is None else ob.shape}, expected {lead + want_dims + (d,) * kk}")
                continue
            for li in itertools.product(*[range(n) for n in lead]):
                spec = model_tge(ctx, d, g, pp, b[li], "c02.act_spec")
                if not np.array_equal(ob[li], spec):
                    bad.append(f"block {(kk, pp)} leading index {li} is not the action on that image")
                    break
                if not np.array_equal(model_tge(ctx, d, g, pp, b[li], "c02.tge"), ob[li]):
                    corr_bad = True
        if bad:
            case["problems"] = bad
            ctx.violation("oracle", "MultiImage.times_group_element: " + "; ".join(bad[:3]), case)
        elif corr_bad:
            ctx.violation("correspondence", "MultiImage.times_group_element differs from Lean model", case)


def run_malformed(ctx: Ctx):
    """matrices outside B_d are rejected by the model; nothing is claimed about them"""
    for M in ([[1, 1], [0, 1]], [[2, 0], [0, 1]], [[0, 0], [0, 0]], [[1, 0], [1, 0]]):
        try:
            ctx.driver.call("c02.meta", d=2, M=M, dims=[2, 2], flags=[True, True])
            ctx.violation("correspondence", "model accepted a matrix outside B_d", {"M": M})
        except DriverReject:
            pass
        ctx.hist("malformed", "rejected")


def run_tensor(ctx: Ctx):
    """`tensor_times_gg` (the action on ONE tensor, exported next to `times_group_element`): must be the
    same action as the image-level entry points on a one-pixel image, det(g)^p g^{(x)k} T"""
    import jax
    import jax.numpy as jnp
    import ginjax.geometric as geom

    if not hasattr(geom, "tensor_times_gg"):
        return
    for d in (1, 2, 3):
        gs = group_elements(ctx, d)
        for k in (0, 1, 2, 3):
            for p in (0, 1):
                for gi, g in enumerate(gs):
                    if ctx.tier == "quick" and d == 3 and gi % 2 != (k + p) % 2:
                        continue
                    t = ctx.rng.integers(-4, 5, size=(d,) * k).astype(np.int64)
                    if k == 0 and int(t) == 0:
                        t = np.int64(3)
                    case = {"entry": "geom.tensor_times_gg", "D": d, "k": k, "parity": p, "g": mat_list(g),
                            "tensor": jarr(np.asarray(t))}
                    ctx.case(("tt", d, k, p, mat_list(g), np.asarray(t).tobytes().hex()[:64]),
                             not np.array_equal(np.asarray(g), np.eye(d, dtype=np.int64)),
                             sample={k2: case[k2] for k2 in ("entry", "D", "k", "parity", "g")})
                    ctx.hist("entry", "tensor_times_gg")
                    img = np.asarray(t).reshape((1,) * d + (d,) * k)
                    try:
                        out = geom.tensor_times_gg(jnp.array(t, dtype=jnp.float32), p, np.asarray(g),
                                                   jax.lax.Precision.HIGHEST)
                        impl = to_int(out)
                    except Exception as e:
                        case["raised"] = repr(e)[:300]
                        ctx.violation("oracle", "tensor_times_gg raised on a valid input", case)
                        continue
                    spec = model_tge(ctx, d, g, p, img, "c02.act_spec").reshape((d,) * k)
                    model = model_tge(ctx, d, g, p, img, "c02.tge").reshape((d,) * k)
                    if impl is None or impl.shape != spec.shape or not np.array_equal(impl, spec):
                        case["impl"] = None if impl is None else jarr(impl)
                        case["expected"] = jarr(spec)
                        ctx.violation("oracle", "tensor_times_gg differs from det^p g^{(x)k} T", case)
                    elif not np.array_equal(model, impl):
                        ctx.violation("correspondence", "tensor_times_gg differs from Lean model tge on a one-pixel image", case)


def run_reused_operator(ctx: Ctx):
    """the transform depends on the VALUE of g at the time of the call: a caller walks g, h, g h, g^T, ...
    through ONE preallocated d x d work matrix (overwritten in place between the calls) and transforms images
    of the same size; every result is judged by the same formula (Lean actSpec / reference action)"""
    import jax.numpy as jnp
    import ginjax.geometric as geom

    plan = {1: [((4,), 0)], 2: [((2, 3), 1), ((3, 3), 0)], 3: [((2, 3, 4), 1), ((2, 2, 2), 0)]}
    n_walk = 3 if ctx.tier == "quick" else 8
    for d in (1, 2, 3):
        ops = refs.signed_perms(d)
        ident = np.eye(d, dtype=np.int64)
        for dims, k in plan[d]:
            for p in (0, 1):
                for entry in ("fn", "gi", "mi"):
                    work = np.zeros((d, d), dtype=np.int64)  # the caller's operator storage, reused
                    walk = []
                    for _ in range(n_walk):
                        g = ops[int(ctx.rng.integers(1, len(ops)))]
                        h = ops[int(ctx.rng.integers(1, len(ops)))]
                        walk += [g, h, g @ h, g.T]
                    walk += [ident, ops[-1]]
                    flags = tuple(bool(b) for b in ctx.rng.integers(0, 2, size=d))
                    for step, gv in enumerate(walk):
                        gv = np.asarray(gv, dtype=np.int64)
                        np.copyto(work, gv)
                        ctx.hist("operator_storage", "reused work matrix")
                        if entry == "fn":
                            img = rand_img(ctx, dims, d, k, encode=(step % 2 == 0))
                            check_functional(ctx, geom, jnp, d, dims, k, p, work, img,
                                             f"operator passed in ONE reused work matrix (np.copyto between calls), "
                                             f"walk step {step}, same-size calls before this one used "
                                             f"{[mat_list(w) for w in walk[:step]][-2:]}")
                            continue
                        lead = () if entry == "gi" else (2,)
                        img = ctx.rng.integers(-3, 4, size=lead + tuple(dims) + (d,) * k).astype(np.int64)
                        name = "GeometricImage" if entry == "gi" else "MultiImage"
                        case = {"entry": name + ".times_group_element", "D": d, "dims": list(dims), "k": k,
                                "parity": p, "is_torus": list(flags), "leading": list(lead), "g": mat_list(gv),
                                "image": jarr(img), "operator_storage": "one work matrix reused for the whole walk",
                                "walk_so_far": [mat_list(w) for w in walk[: step + 1]]}
                        ctx.case((entry + "-reused", d, list(dims), k, p, mat_list(gv), list(flags), step,
                                  img.tobytes().hex()[:64]), not np.array_equal(gv, ident),
                                 sample={k2: case[k2] for k2 in ("entry", "D", "dims", "k", "parity", "g",
                                                                 "operator_storage")})
                        ctx.hist("entry", name)
                        try:
                            if entry == "gi":
                                out = geom.GeometricImage(jnp.array(img, dtype=jnp.float32), p, d, flags)
                                out = out.times_group_element(work)
                                impl, got_flags = to_int(out.data), tuple(out.is_torus)
                            else:
                                out = geom.MultiImage({(k, p): jnp.array(img, dtype=jnp.float32)}, d, flags)
                                out = out.times_group_element(work)
                                impl, got_flags = to_int(out[(k, p)]), tuple(out.is_torus)
                        except Exception as e:
                            case["raised"] = repr(e)[:300]
                            ctx.violation("oracle", name + ".times_group_element raised on a valid input", case)
                            continue
                        if not np.array_equal(work, gv):
                            ctx.violation("oracle", name + ".times_group_element modified the caller's operator", case)
                            continue
                        subs = [img] if entry == "gi" else list(img)
                        spec = [model_tge(ctx, d, gv, p, s, "c02.act_spec") for s in subs]
                        for s, sp in zip(subs, spec):
                            if not np.array_equal(refs.act(s, d, p, gv), sp):
                                ctx.violation("correspondence", "harness reference action differs from Lean actSpec", case)
                        want = spec[0] if entry == "gi" else np.stack(spec)
                        bad = []
                        if impl is None or impl.shape != want.shape or not np.array_equal(impl, want):
                            bad.append("data is not det^p g^{(x)k} A(g^-1 x)")
                        if got_flags != refs.transport(gv, flags):
                            bad.append(f"is_torus {got_flags} != {refs.transport(gv, flags)}")
                        if bad:
                            case["problems"] = bad
                            case["impl"] = None if impl is None else jarr(impl)
                            case["expected"] = jarr(want)
                            ctx.violation("oracle", name + ".times_group_element (operator in a reused work matrix): "
                                          + "; ".join(bad), case)


def run(ctx: Ctx):
    ctx.rule = (
        "d in {1,2,3}; spatial shapes incl. extent 1, non-square and pairwise distinct extents; k in 0..3; "
        "both parities; all of B_1, B_2 and (quick) 5 three-cycles + 7 other elements of B_3 / (thorough) all 48; "
        "position-encoded and random integer images; laws on all (g,h) pairs of B_1, B_2 and 60 (quick) / all 2304 "
        "(thorough) pairs of B_3; GeometricImage and MultiImage entry points with random flags and 0-2 leading axes; "
        "the single-tensor entry point tensor_times_gg for k in 0..3 (= the action on a one-pixel image); "
        "walks g, h, g h, g^T, ..., 1 through ONE reused d x d operator work matrix (overwritten in place between "
        "calls, same image size) for all three entry points. "
        "Non-trivial: g is not the identity and the image is not constant (for pairs: both non-identity; for the "
        "multi-image entry point: at least one leading axis). Distinct = distinct (entry, d, shape, k, p, g, image)."
    )
    ctx.assumptions = ["integer-valued float32 images (|v| small) make the implementation's arithmetic exact"]
    ctx.trusted_extra = ["np.rint, np.remainder, jnp.einsum, slogdet sign are modelled by rintHalf, Int.emod, tactL, det"]
    run_malformed(ctx)
    run_single(ctx)
    run_tensor(ctx)
    run_entry_points(ctx)
    run_reused_operator(ctx)
    run_laws(ctx)
