"""C05 - the image algebra is type-sound: the declared (k, parity) is how results transform.

correspondence: random well-typed expression trees over random small-integer leaf images are built
  twice - with the real GeometricImage operators/methods (+, -, *, scalar *, transpose, contract,
  multicontract, levi_civita_contract, norm, convolve_with) and with the Lean model (driver op
  c05.eval = tyOf + eval) - and compared: declared (k, parity), shape, values, exactly.  A `norm`
  node is compared through its square (node kind `normsq`; relative 1e-4), and the tree continues
  from the rounded square carrying the type that `norm()` declared.  Ill-typed trees must be rejected
  by both.  LeviCivitaSymbol / permutation_parity / geom.mul / geom.multicontract are compared
  directly as well.
oracle (on the implementation only): expr(g.leaves) == g.expr(leaves) for g in B_d, with g applied
  by harness/refs.py (numpy reference action, itself validated against the Lean spec by C02) using
  each image's DECLARED (k, parity); contract(i,j) == contract(j,i); multicontract is independent
  of the order of the pairs and inside the pairs; A*B == transpose(B*A, block swap).
get_contraction_indices (the enumeration of "all unique" multicontractions, which drops the
  reorderings because of that independence): compared with the model contractionIndices for all
  0 <= final_k <= initial_k <= 6 (thorough 7) of equal parity, with and without swappable pairs, and on
  rejected arguments; for swappable=() the oracle is the docstring: every element a sorted list of
  disjoint pairs x<y, no unordered pairing twice, k!/((k-2m)! m! 2^m) of them, and every ordering of
  a listed pairing contracts a random tensor image (k <= 4) to the same image.
extras (check_extras; Model/C05Extras.lean, Properties/C05Extras.lean): KroneckerDeltaSymbol.get,
  get_kronecker_delta_image, GeometricImage.fill / zeros / activation_function / __eq__ and tensor_name
  against the model (driver ops c05.kronecker_symbol, c05.kronecker_delta, c05.fill, c05.zeros,
  c05.activation, c05.img_eq, c05.tensor_name), exactly on integer data; oracle on the real code for
  g in B_2 / sampled B_3: the even-order delta image is fixed by g, g.fill(c) == fill(g.c) and
  g.zeros == zeros on the transported extents, f(g.A) == g.f(A) for any f on scalar images and odd f
  on pseudo-scalar images, (A == B) == (g.A == g.B), normalize(g.A) == g.normalize(A) (1e-5).  The
  odd-order delta and a non-odd f on a pseudo-scalar image are NOT invariant / equivariant (Lean
  counterexample theorems); they are outside the operations of property C05 and only counted in the
  notes.
"""
from __future__ import annotations

import json

import numpy as np

import refs
from common import Ctx, DriverReject, jarr, unarr

LIMIT = 2 ** 20          # bound on |values| that keeps float32 arithmetic exact (2^24) with margin
MAXK = 4                 # cap on the tensor order of any node
SHAPES = {
    2: [(2, 2), (3, 3), (2, 3), (3, 2), (1, 4), (4, 2)],
    3: [(2, 2, 2), (2, 3, 2), (1, 2, 3), (3, 2, 2)],
}
FILTER_SHAPES = {2: [(3, 3), (1, 3), (3, 1), (1, 1)], 3: [(3, 3, 3), (1, 3, 1), (3, 1, 3)]}
REJECT = (AssertionError, ValueError, IndexError, TypeError, KeyError)


def mat_list(g):
    return [[int(v) for v in row] for row in np.asarray(g)]


def to_int(a):
    a = np.asarray(a)
    r = np.rint(a).astype(np.int64)
    if not np.array_equal(r.astype(a.dtype), a):
        return None
    return r


# ------------------------------------------------------------------------------------------------
# generation


class Ent:
    """a pool entry: expression tree + the type the generator expects (a guide only)"""

    __slots__ = ("tree", "k", "p", "depth", "bound", "nlc", "npp", "nconv", "is_filter", "size")

    def __init__(self, tree, k, p, depth, bound, nlc=0, npp=0, nconv=0, is_filter=False, size=1):
        self.tree, self.k, self.p, self.depth, self.bound = tree, k, p, depth, bound
        self.nlc, self.npp, self.nconv, self.is_filter, self.size = nlc, npp, nconv, is_filter, size


def leaf(i):
    return {"op": "leaf", "i": int(i)}


def make_case(ctx: Ctx, d: int, with_filter: bool):
    rng = ctx.rng
    dims = SHAPES[d][int(rng.integers(len(SHAPES[d])))]
    tkind = int(rng.integers(3))
    torus = (True,) * d if tkind == 0 else (False,) * d if tkind == 1 else tuple(
        bool(b) for b in rng.integers(0, 2, size=d))
    n = int(rng.integers(3, 6))
    types = []
    for _ in range(n):
        types.append((int(rng.choice([0, 1, 1, 2, 2, 3])), int(rng.integers(0, 2))))
    # make sure the interesting nodes are possible: a pseudo-tensor, a true one, enough order
    types[0] = (int(rng.integers(1, 3)), 1)
    types[1] = (max(d - 1, int(rng.integers(1, 4))), 0)
    types[2] = (int(rng.integers(0, 3)), int(rng.integers(0, 2)))
    leaves = []
    for (k, p) in types:
        data = rng.integers(-2, 3, size=tuple(dims) + (d,) * k).astype(np.int64)
        leaves.append({"data": data, "parity": p, "torus": torus, "filter": False})
    if with_filter:
        fs = FILTER_SHAPES[d][int(rng.integers(len(FILTER_SHAPES[d])))]
        k = int(rng.integers(0, 3))
        p = int(rng.integers(0, 2))
        data = rng.integers(-2, 3, size=tuple(fs) + (d,) * k).astype(np.int64)
        leaves.append({"data": data, "parity": p, "torus": torus, "filter": True})
    return dims, torus, leaves


def grow(ctx: Ctx, d: int, leaves, max_depth: int, steps: int):
    """pool-based generation of well-typed expressions"""
    rng = ctx.rng
    pool = []
    for i, lf in enumerate(leaves):
        k = lf["data"].ndim - d
        pool.append(Ent(leaf(i), k, lf["parity"], 0, 2, is_filter=lf["filter"]))
    filt = [e for e in pool if e.is_filter]
    ops = ["add", "sub", "smul", "mul", "mul", "transpose", "contract", "multicontract", "levi_civita",
           "levi_civita", "normsq", "conv"]

    def pick(pred):
        c = [e for e in pool if not e.is_filter and pred(e)]
        if not c:
            return None
        # prefer deeper entries so that trees actually compose
        w = np.array([1.0 + e.depth for e in c])
        return c[int(rng.choice(len(c), p=w / w.sum()))]

    for _ in range(steps):
        op = ops[int(rng.integers(len(ops)))]
        new = None
        if op in ("add", "sub"):
            a = pick(lambda e: e.depth < max_depth)
            if a is None:
                continue
            b = pick(lambda e: e.k == a.k and e.p == a.p and e.depth < max_depth and e is not a)
            if b is None:
                continue
            new = Ent({"op": op, "a": a.tree, "b": b.tree}, a.k, a.p, 1 + max(a.depth, b.depth),
                      a.bound + b.bound, a.nlc + b.nlc, a.npp + b.npp, a.nconv + b.nconv,
                      size=a.size + b.size + 1)
        elif op == "smul":
            a = pick(lambda e: e.depth < max_depth)
            if a is None:
                continue
            c = int(rng.choice([-2, -1, 2, 3]))
            new = Ent({"op": "smul", "c": c, "a": a.tree, "style": int(rng.integers(3))}, a.k, a.p,
                      1 + a.depth, abs(c) * a.bound, a.nlc, a.npp, a.nconv, size=a.size + 1)
        elif op == "mul":
            a = pick(lambda e: e.depth < max_depth and e.k <= MAXK)
            if a is None:
                continue
            b = pick(lambda e: e.depth < max_depth and e.k + a.k <= MAXK)
            if b is None:
                continue
            new = Ent({"op": "mul", "a": a.tree, "b": b.tree}, a.k + b.k, (a.p + b.p) % 2,
                      1 + max(a.depth, b.depth), a.bound * b.bound, a.nlc + b.nlc,
                      a.npp + b.npp + (1 if (a.p or b.p) else 0), a.nconv + b.nconv,
                      size=a.size + b.size + 1)
        elif op == "transpose":
            a = pick(lambda e: e.depth < max_depth and e.k >= 2)
            if a is None:
                continue
            perm = [int(v) for v in rng.permutation(a.k)]
            new = Ent({"op": "transpose", "perm": perm, "a": a.tree}, a.k, a.p, 1 + a.depth, a.bound,
                      a.nlc, a.npp, a.nconv, size=a.size + 1)
        elif op == "contract":
            a = pick(lambda e: e.depth < max_depth and e.k >= 2)
            if a is None:
                continue
            i, j = [int(v) for v in rng.choice(a.k, size=2, replace=False)]
            new = Ent({"op": "contract", "i": i, "j": j, "a": a.tree}, a.k - 2, a.p, 1 + a.depth,
                      d * a.bound, a.nlc, a.npp, a.nconv, size=a.size + 1)
        elif op == "multicontract":
            a = pick(lambda e: e.depth < max_depth and e.k >= 2)
            if a is None:
                continue
            npairs = int(rng.integers(1, a.k // 2 + 1))
            pos = [int(v) for v in rng.permutation(a.k)[: 2 * npairs]]
            pairs = [[pos[2 * q], pos[2 * q + 1]] for q in range(npairs)]
            new = Ent({"op": "multicontract", "pairs": pairs, "a": a.tree}, a.k - 2 * npairs, a.p,
                      1 + a.depth, d ** npairs * a.bound, a.nlc, a.npp, a.nconv, size=a.size + 1)
        elif op == "levi_civita":
            a = pick(lambda e: e.depth < max_depth and e.k >= d - 1 and e.k - d + 2 <= MAXK)
            if a is None:
                continue
            idxs = [int(v) for v in rng.permutation(a.k)[: d - 1]]
            new = Ent({"op": "levi_civita", "idxs": idxs, "a": a.tree, "as_int": bool(rng.integers(2))},
                      a.k - d + 2, (a.p + 1) % 2, 1 + a.depth, d ** (d - 1) * a.bound, a.nlc + 1,
                      a.npp, a.nconv, size=a.size + 1)
        elif op == "normsq":
            a = pick(lambda e: e.depth < max_depth)
            if a is None:
                continue
            new = Ent({"op": "normsq", "a": a.tree}, 0, 0, 1 + a.depth, d ** a.k * a.bound ** 2, a.nlc,
                      a.npp, a.nconv, size=a.size + 1)
        elif op == "conv":
            if not filt:
                continue
            f = filt[0]
            a = pick(lambda e: e.depth < max_depth and e.k + f.k <= MAXK and e.nconv == 0)
            if a is None:
                continue
            fi = f.tree["i"]
            taps = int(np.prod(leaves[fi]["data"].shape[:d]))
            new = Ent({"op": "conv", "a": a.tree, "f": fi}, a.k + f.k, (a.p + f.p) % 2, 1 + a.depth,
                      taps * a.bound * 2, a.nlc, a.npp + (1 if (a.p or f.p) else 0), a.nconv + 1,
                      size=a.size + 2)
        if new is None or new.bound > LIMIT or new.size > 60:
            continue
        pool.append(new)
    return pool


def choose_root(ctx: Ctx, pool, want: str, min_depth: int):
    rng = ctx.rng
    cands = [e for e in pool if not e.is_filter and e.depth >= min_depth]
    if want == "oddlc":
        c2 = [e for e in cands if e.nlc % 2 == 1]
    elif want == "pseudoprod":
        c2 = [e for e in cands if e.npp >= 1]
    elif want == "conv":
        c2 = [e for e in cands if e.nconv >= 1]
    else:
        c2 = cands
    if not c2:
        c2 = cands
    if not c2:
        return None
    w = np.array([1.0 + 2 * e.depth for e in c2])
    return c2[int(rng.choice(len(c2), p=w / w.sum()))]


# ------------------------------------------------------------------------------------------------
# the real code


class NormNoise(Exception):
    pass


def impl_eval(geom, jnp, d, tree, gleaves, notes=None):
    """build the tree with the real operators / methods"""
    op = tree["op"]
    if op == "leaf":
        return gleaves[tree["i"]]
    if op in ("add", "sub", "mul"):
        a = impl_eval(geom, jnp, d, tree["a"], gleaves, notes)
        b = impl_eval(geom, jnp, d, tree["b"], gleaves, notes)
        return a + b if op == "add" else a - b if op == "sub" else a * b
    a = impl_eval(geom, jnp, d, tree["a"], gleaves, notes)
    if op == "smul":
        c = tree["c"]
        st = tree.get("style", 0)
        return a * c if st == 0 else c * a if st == 1 else a.times_scalar(c)
    if op == "transpose":
        return a.transpose(tuple(tree["perm"]))
    if op == "contract":
        return a.contract(tree["i"], tree["j"])
    if op == "multicontract":
        return a.multicontract(tuple(tuple(p) for p in tree["pairs"]))
    if op == "levi_civita":
        idxs = tuple(tree["idxs"])
        if len(idxs) == 1 and tree.get("as_int"):
            return a.levi_civita_contract(idxs[0])
        return a.levi_civita_contract(idxs)
    if op == "normsq":
        nn = a.norm()
        sq = np.asarray((nn * nn).data, dtype=np.float64)
        r = np.rint(sq)
        if np.any(np.abs(sq - r) > 1e-4 * (1.0 + np.abs(r))):
            raise NormNoise("norm()**2 is not within 1e-4 of an integer on integer input")
        # continue from the exact square, carrying the type that norm() declared
        return geom.GeometricImage(jnp.array(r, dtype=jnp.float32), nn.parity, d, nn.is_torus)
    if op == "conv":
        return a.convolve_with(gleaves[tree["f"]])
    raise KeyError(op)


def make_gleaves(geom, jnp, d, leaves, g=None):
    out = []
    for lf in leaves:
        data, p, torus = lf["data"], lf["parity"], lf["torus"]
        if g is not None:
            data = refs.act(data, d, p, g)
            torus = refs.transport(g, torus)
        out.append(geom.GeometricImage(jnp.array(data, dtype=jnp.float32), p, d, tuple(torus)))
    return out


def leaves_json(leaves):
    return [{"image": jarr(lf["data"]), "parity": int(lf["parity"]), "torus": [bool(b) for b in lf["torus"]]}
            for lf in leaves]


def strip(tree):
    """the tree as sent to the driver (without the python-only call-style hints)"""
    return {k: (strip(v) if isinstance(v, dict) else v) for k, v in tree.items() if k not in ("style", "as_int")}


def oracle_equivariance(ctx, geom, jnp, d, tree, leaves, gs, base):
    """expr(g.leaves) == g.expr(leaves) with the declared type of the implementation's result;
    returns None if it holds for all g, else a description"""
    base_int = to_int(base.data)
    if base_int is None:
        return {"problem": "result is not integer valued on integer leaves"}
    for g in gs:
        try:
            og = impl_eval(geom, jnp, d, tree, make_gleaves(geom, jnp, d, leaves, g))
        except REJECT + (NormNoise,) as e:
            return {"g": mat_list(g), "problem": "raised on transformed leaves: " + repr(e)[:200]}
        want = refs.act(base_int, d, int(base.parity), g)
        got = to_int(og.data)
        if og.k != base.k or og.parity != base.parity:
            return {"g": mat_list(g), "problem": f"declared type changed under g: {(og.k, og.parity)} vs {(base.k, base.parity)}"}
        if got is None or got.shape != want.shape or not np.array_equal(got, want):
            return {"g": mat_list(g), "det": refs.det(g),
                    "problem": "expr(g.leaves) != g.expr(leaves) with the declared (k, parity)",
                    "declared": [int(base.k), int(base.parity)],
                    "got": None if got is None else jarr(got), "want": jarr(want)}
    return None


def group_subset(ctx: Ctx, d: int):
    ops = refs.signed_perms(d)
    if d == 2 or ctx.tier == "thorough":
        return ops
    refl = [g for g in ops if refs.det(g) == -1]
    rot = [g for g in ops if refs.det(g) == 1 and not np.array_equal(g, np.eye(d, dtype=np.int64))]
    cyc = [g for g in ops if all(abs(g[i, i]) == 0 for i in range(d))]
    pick = [refl[i] for i in ctx.rng.choice(len(refl), size=3, replace=False)]
    pick += [rot[i] for i in ctx.rng.choice(len(rot), size=2, replace=False)]
    pick += [cyc[int(ctx.rng.integers(len(cyc)))]]
    return pick


def describe(tree):
    return json.dumps(strip(tree), separators=(",", ":"))


def tree_ops(tree, acc):
    acc.append(tree["op"])
    for key in ("a", "b"):
        if key in tree:
            tree_ops(tree[key], acc)
    return acc


# ------------------------------------------------------------------------------------------------
# checks


def check_tree(ctx: Ctx, geom, jnp, d, dims, leaves, ent: Ent, gs, tag):
    tree = ent.tree
    case = {"D": d, "dims": list(dims), "torus": [bool(b) for b in leaves[0]["torus"]],
            "leaves": leaves_json(leaves), "expr": strip(tree), "tag": tag}
    ops_in = tree_ops(tree, [])
    for o in set(ops_in):
        ctx.hist("node", o)
    ctx.hist("d", d)
    ctx.hist("depth", ent.depth)
    ctx.hist("square", len(set(dims)) == 1)
    ctx.hist("odd_levi_civita", ent.nlc % 2 == 1)
    ctx.hist("pseudo_product", ent.npp >= 1)
    # --- model
    try:
        m = ctx.driver.call("c05.eval", d=d, leaves=case["leaves"], expr=case["expr"])
    except DriverReject as e:
        m = None
        case["model_reject"] = str(e)
    # --- implementation
    try:
        out = impl_eval(geom, jnp, d, tree, make_gleaves(geom, jnp, d, leaves))
        err = None
    except REJECT as e:
        out, err = None, repr(e)[:200]
    except NormNoise as e:
        out, err = None, "norm: " + str(e)
    if m is None:
        # the generator only emits trees it believes well typed: both must agree anyway
        ctx.case(("tree", d, list(dims), describe(tree), tag), False)
        if out is not None:
            bad = oracle_equivariance(ctx, geom, jnp, d, tree, leaves, gs, out)
            if bad:
                case["oracle"] = bad
                ctx.violation("oracle", "an expression the type rules reject is accepted and does not transform with its declared type", case)
            else:
                ctx.violation("correspondence", "the implementation accepts a tree the model rejects", case)
        return
    if out is None:
        case["raised"] = err
        ctx.case(("tree", d, list(dims), describe(tree), tag), False)
        if err.startswith("norm:"):
            ctx.violation("correspondence", "norm()^2 is not the integer sum of squares (model) within 1e-4", case)
        else:
            ctx.violation("oracle", "a well-typed expression raises in the implementation", case)
        return
    mimg = unarr(m["image"])
    got = to_int(out.data)
    nontrivial = ent.depth >= 2 and bool(np.any(mimg != 0))
    ctx.case(("tree", d, list(dims), describe(tree), tag, mimg.tobytes().hex()[:48]), nontrivial,
             sample={"D": d, "dims": list(dims), "expr": strip(tree), "declared": [m["k"], m["parity"]]})
    ctx.hist("result_type", f"k={m['k']},p={m['parity']}")
    problems = []
    if int(out.k) != m["k"] or int(out.parity) != m["parity"]:
        problems.append(f"declared (k, parity) {(int(out.k), int(out.parity))} != model tyOf {(m['k'], m['parity'])}")
    if got is None or got.shape != mimg.shape or not np.array_equal(got, mimg):
        problems.append("values differ from the model's eval")
    # --- oracle on the implementation
    bad = oracle_equivariance(ctx, geom, jnp, d, tree, leaves, gs, out)
    if bad:
        case["oracle"] = bad
        case["impl_declared"] = [int(out.k), int(out.parity)]
        case["model_declared"] = [m["k"], m["parity"]]
        ctx.violation("oracle", "the result does not transform with its declared (k, parity): " + bad["problem"], case)
    elif problems:
        case["problems"] = problems
        case["impl_declared"] = [int(out.k), int(out.parity)]
        case["model_declared"] = [m["k"], m["parity"]]
        if got is not None:
            case["impl"] = jarr(got)
        case["model"] = m["image"]
        ctx.violation("correspondence", "implementation and Lean model disagree: " + "; ".join(problems), case)


def ill_typed_trees(ctx: Ctx, d, dims, leaves, pool):
    """(kind, tree, extra leaves) - each breaks exactly one of the code's assertions"""
    rng = ctx.rng
    norm = [e for e in pool if not e.is_filter]
    out = []

    def some(pred):
        c = [e for e in norm if pred(e)]
        return c[int(rng.integers(len(c)))] if c else None

    a = some(lambda e: True)
    b = some(lambda e: e.k == a.k and e.p != a.p)
    if b is not None:
        out.append(("add_parity_mismatch", {"op": "add", "a": a.tree, "b": b.tree}))
        out.append(("sub_parity_mismatch", {"op": "sub", "a": b.tree, "b": a.tree}))
    b = some(lambda e: e.k != a.k and e.p == a.p)
    if b is not None:
        out.append(("add_order_mismatch", {"op": "add", "a": a.tree, "b": b.tree}))
    a = some(lambda e: e.k < 2)
    if a is not None:
        out.append(("contract_order_lt_2", {"op": "contract", "i": 0, "j": 1, "a": a.tree}))
        out.append(("multicontract_order_lt_2", {"op": "multicontract", "pairs": [[0, 1]], "a": a.tree}))
    a = some(lambda e: e.k >= 2)
    if a is not None:
        out.append(("contract_index_out_of_range", {"op": "contract", "i": 0, "j": a.k, "a": a.tree}))
        out.append(("transpose_not_a_permutation", {"op": "transpose", "perm": [0] * a.k, "a": a.tree}))
        out.append(("transpose_wrong_length", {"op": "transpose", "perm": list(range(a.k + 1)), "a": a.tree}))
    a = some(lambda e: e.k >= d)
    if a is not None:
        out.append(("levi_civita_too_many_indices", {"op": "levi_civita", "idxs": list(range(d)), "a": a.tree}))
    a = some(lambda e: e.k < d - 1)
    if a is not None:
        out.append(("levi_civita_order_too_small", {"op": "levi_civita", "idxs": list(range(d - 1)), "a": a.tree}))
    # extra leaves: other spatial dims / other boundary flags
    other_dims = tuple(n + 1 for n in dims)
    a = some(lambda e: e.k <= 2)
    if a is not None:
        n0 = len(leaves)
        extra = [{"data": rng.integers(-2, 3, size=other_dims + (d,) * 1).astype(np.int64), "parity": 0,
                  "torus": leaves[0]["torus"], "filter": False},
                 {"data": rng.integers(-2, 3, size=tuple(dims) + (d,) * a.k).astype(np.int64), "parity": a.p,
                  "torus": tuple(not t for t in leaves[0]["torus"]), "filter": False}]
        out.append(("mul_spatial_dims_mismatch", {"op": "mul", "a": a.tree, "b": leaf(n0)}, extra))
        out.append(("add_is_torus_mismatch", {"op": "add", "a": a.tree, "b": leaf(n0 + 1)}, extra))
        out.append(("mul_is_torus_mismatch", {"op": "mul", "a": leaf(n0 + 1), "b": a.tree}, extra))
    res = []
    for item in out:
        kind, tree = item[0], item[1]
        extra = item[2] if len(item) > 2 else []
        if rng.integers(2):  # bury the failing node under a well-typed one
            tree = {"op": "normsq", "a": tree} if rng.integers(2) else {"op": "smul", "c": 2, "a": tree}
        res.append((kind, tree, extra))
    return res


def check_ill_typed(ctx: Ctx, geom, jnp, d, dims, leaves, pool, gs):
    for kind, tree, extra in ill_typed_trees(ctx, d, dims, leaves, pool):
        lv = leaves + extra
        case = {"D": d, "dims": list(dims), "leaves": leaves_json(lv), "expr": strip(tree), "ill_typed": kind}
        ctx.case(("ill", d, list(dims), kind, describe(tree)), False)
        ctx.hist("ill_typed", kind)
        try:
            ctx.driver.call("c05.ty", d=d, leaves=case["leaves"], expr=case["expr"])
            model_ok = True
        except DriverReject:
            model_ok = False
        try:
            out = impl_eval(geom, jnp, d, tree, make_gleaves(geom, jnp, d, lv))
        except REJECT:
            out = None
        if model_ok:
            ctx.violation("correspondence", f"the model accepts an ill-typed tree ({kind})", case)
        if out is not None and "is_torus" in kind:
            # boundary flags are not part of the (k, parity) type the property speaks about: an
            # implementation that tolerates mixed flags is recorded, not flagged
            ctx.hist("is_torus_mismatch_accepted_by_implementation", kind)
            continue
        if out is not None:
            try:
                bad = oracle_equivariance(ctx, geom, jnp, d, tree, lv, gs, out)
            except Exception as e:  # noqa: BLE001 - anything goes wrong on nonsense input
                bad = {"problem": "evaluation on transformed leaves failed: " + repr(e)[:200]}
            if bad:
                case["oracle"] = bad
                ctx.violation("oracle", f"ill-typed expression ({kind}) is accepted and its result does not transform with its declared type", case)
            else:
                ctx.violation("correspondence", f"the implementation accepts an ill-typed tree ({kind}) that the model rejects", case)


def check_tables(ctx: Ctx, geom):
    """Levi-Civita symbol, permutation_parity, block swap: code vs model"""
    from ginjax.geometric.constants import LETTERS, permutation_parity

    for D in (2, 3, 4):
        mine = unarr(ctx.driver.call("c05.lc", d=D))
        theirs = np.asarray(geom.LeviCivitaSymbol.get(D))
        ctx.case(("lc", D), True)
        if mine.shape != theirs.shape or not np.array_equal(mine, theirs.astype(np.int64)):
            ctx.violation("correspondence", "LeviCivitaSymbol.get(D) differs from the model's symbol", {"D": D})
    for _ in range(60 if ctx.tier == "quick" else 400):
        n = int(ctx.rng.integers(1, 7))
        pi = [int(v) for v in (ctx.rng.permutation(n) if ctx.rng.integers(3) else ctx.rng.integers(0, n, size=n))]
        ctx.case(("parity", pi), len(set(pi)) == n)
        if int(permutation_parity(pi)) != ctx.driver.call("c05.parity", pi=pi):
            ctx.violation("correspondence", "permutation_parity differs from the model", {"pi": pi})
    # the typo in LETTERS ('x' twice, no 'z'): first axis count at which an einsum string of
    # multicontract would carry a repeated lowercase letter
    first_dup = next((n for n in range(1, len(LETTERS) + 1) if len(set(LETTERS[:n])) < n), None)
    ctx.notes["letters_first_duplicate_at_axis_count"] = first_dup
    ctx.notes["letters_max_axis_count_in_scope"] = 3 + MAXK + 3
    ctx.notes["letters_typo_reachable_in_scope"] = bool(first_dup is not None and first_dup <= 3 + MAXK + 3)
    if len(set(LETTERS[-26:])) != 26:
        ctx.violation("correspondence", "summed letters of multicontract are not distinct", {"LETTERS": LETTERS})


def check_laws(ctx: Ctx, geom, jnp, n_cases: int):
    """the property's last sentence, on the implementation; array-level entry points vs the model"""
    rng = ctx.rng
    for it in range(n_cases):
        d = 2 if it % 3 else 3
        dims = SHAPES[d][int(rng.integers(len(SHAPES[d])))]
        ka, kb = int(rng.integers(0, 4)), int(rng.integers(0, 4))
        if ka + kb > MAXK:
            kb = MAXK - ka
        pa, pb = int(rng.integers(2)), int(rng.integers(2))
        A = rng.integers(-2, 3, size=tuple(dims) + (d,) * ka).astype(np.int64)
        B = rng.integers(-2, 3, size=tuple(dims) + (d,) * kb).astype(np.int64)
        gA = geom.GeometricImage(jnp.array(A, dtype=jnp.float32), pa, d, True)
        gB = geom.GeometricImage(jnp.array(B, dtype=jnp.float32), pb, d, True)
        leaves = [{"data": A, "parity": pa, "torus": (True,) * d, "filter": False},
                  {"data": B, "parity": pb, "torus": (True,) * d, "filter": False}]
        case = {"D": d, "dims": list(dims), "leaves": leaves_json(leaves)}
        # --- tensor product commutes up to the block swap
        swap = [int(v) for v in ctx.driver.call("c05.block_swap", ka=ka, kb=kb)]
        ab = gA * gB
        ba_t = (gB * gA).transpose(tuple(swap))
        ctx.case(("commute", d, list(dims), ka, kb, A.tobytes().hex()[:32]), ka != kb and ka > 0 and kb > 0)
        ctx.hist("law", "mul_comm_transpose")
        if ab.k != ba_t.k or ab.parity != ba_t.parity or not np.array_equal(np.asarray(ab.data), np.asarray(ba_t.data)):
            ctx.violation("oracle", "A*B != transpose(B*A, block swap)",
                          dict(case, expr={"op": "mul", "a": leaf(0), "b": leaf(1)}, perm=swap))
        # --- geom.mul (array level) vs the model
        m = ctx.driver.call("c05.eval", d=d, leaves=case["leaves"], expr={"op": "mul", "a": leaf(0), "b": leaf(1)})
        fm = to_int(geom.mul(d, jnp.array(A, dtype=jnp.float32), jnp.array(B, dtype=jnp.float32)))
        if fm is None or not np.array_equal(fm, unarr(m["image"])):
            ctx.violation("correspondence", "geom.mul differs from the model's tensor product", case)
        # --- contractions of the product
        P = ab
        k = P.k
        if k >= 2:
            i, j = [int(v) for v in rng.choice(k, size=2, replace=False)]
            c1, c2 = P.contract(i, j), P.contract(j, i)
            ctx.case(("contract_symm", d, list(dims), k, i, j, A.tobytes().hex()[:32]), True)
            ctx.hist("law", "contract_symm")
            if not np.array_equal(np.asarray(c1.data), np.asarray(c2.data)) or (c1.k, c1.parity) != (c2.k, c2.parity):
                ctx.violation("oracle", "contract(i, j) != contract(j, i)", dict(case, i=i, j=j))
            npairs = k // 2
            pos = [int(v) for v in rng.permutation(k)[: 2 * npairs]]
            pairs = [(pos[2 * q], pos[2 * q + 1]) for q in range(npairs)]
            order = [int(v) for v in rng.permutation(npairs)]
            pairs2 = [pairs[q] if rng.integers(2) else (pairs[q][1], pairs[q][0]) for q in order]
            m1, m2 = P.multicontract(tuple(pairs)), P.multicontract(tuple(pairs2))
            ctx.case(("mc_perm", d, list(dims), k, pairs, pairs2, A.tobytes().hex()[:32]), npairs >= 2)
            ctx.hist("law", "multicontract_perm")
            if not np.array_equal(np.asarray(m1.data), np.asarray(m2.data)) or (m1.k, m1.parity) != (m2.k, m2.parity):
                ctx.violation("oracle", "multicontract depends on the order of the pairs / inside a pair",
                              dict(case, pairs=[list(p) for p in pairs], pairs2=[list(p) for p in pairs2]))
            # single contraction == multicontract with one pair; array-level geom.multicontract vs model
            s1 = P.multicontract((pairs[0],))
            s2 = P.contract(*pairs[0])
            if not np.array_equal(np.asarray(s1.data), np.asarray(s2.data)):
                ctx.violation("oracle", "contract(i, j) != multicontract(((i, j),))", dict(case, pair=list(pairs[0])))
            fm = to_int(geom.multicontract(P.data, tuple(pairs), d))
            mm = ctx.driver.call("c05.eval", d=d, leaves=case["leaves"],
                                 expr={"op": "multicontract", "pairs": [list(p) for p in pairs],
                                       "a": {"op": "mul", "a": leaf(0), "b": leaf(1)}})
            if fm is None or not np.array_equal(fm, unarr(mm["image"])):
                ctx.violation("correspondence", "geom.multicontract differs from the model's einsum",
                              dict(case, pairs=[list(p) for p in pairs]))


def _pairings_count(k: int, m: int) -> int:
    """number of sets of m disjoint unordered pairs out of k indices: k! / ((k-2m)! m! 2^m)"""
    from math import factorial
    return factorial(k) // (factorial(k - 2 * m) * factorial(m) * 2 ** m)


def _orderings(idx):
    """every ordering of the same pairs: all orders of the pairs x all swaps inside the pairs"""
    import itertools as it
    out = []
    for perm in it.permutations(range(len(idx))):
        for flips in it.product((False, True), repeat=len(idx)):
            out.append(tuple((idx[q][1], idx[q][0]) if flips[n] else (idx[q][0], idx[q][1])
                             for n, q in enumerate(perm)))
    return out


def check_contraction_indices(ctx: Ctx, geom):
    """get_contraction_indices: code vs the model contractionIndices (driver op
    c05.contraction_indices); for swappable=() the docstring's claim on the implementation: the
    list consists of normal-form pairings, no pairing twice, none missing (count), and - what the
    enumeration relies on - all orderings of one listed pairing contract to the same image."""
    import jax.numpy as jnp

    rng = ctx.rng
    kmax = 6 if ctx.tier == "quick" else 7

    def real(ik, fk, sw):
        res = geom.get_contraction_indices(ik, fk, tuple(tuple(p) for p in sw))
        return [[(int(x), int(y)) for x, y in idx] for idx in res]

    def model(ik, fk, sw):
        res = ctx.driver.call("c05.contraction_indices", initial_k=ik, final_k=fk, swappable=[list(p) for p in sw])
        return [[(int(x), int(y)) for x, y in idx] for idx in res]

    for ik in range(0, kmax + 1):
        for fk in range(ik % 2, ik + 1, 2):
            m = (ik - fk) // 2
            sws = [(), ((0, 1),), ((2, 3),), ((0, 1), (2, 3)), ((1, 0),), ((0, 1), (1, 2)), ((3, 0), (1, 2))]
            sws = [sw for sw in sws if all(max(p) < ik for p in sw)]
            for _ in range(2 if ctx.tier == "quick" else 6):
                if ik >= 2:
                    n = int(rng.integers(1, 4))
                    sws.append(tuple(tuple(int(v) for v in rng.choice(ik, size=2, replace=False)) for _ in range(n)))
            for sw in sws:
                case = {"initial_k": ik, "final_k": fk, "swappable": [list(p) for p in sw]}
                ctx.case(("contraction_indices", ik, fk, [list(p) for p in sw]), m >= 1)
                ctx.hist("contraction_indices_m", m)
                try:
                    theirs = real(ik, fk, sw)
                except Exception as e:  # valid arguments: the enumeration must exist
                    ctx.violation("oracle", f"get_contraction_indices raises on valid arguments: {type(e).__name__}: {e}", case)
                    continue
                if sw == ():
                    # (a) normal form, (b) no pairing twice, (c) none missing
                    bad = None
                    for idx in theirs:
                        flat = [v for p in idx for v in p]
                        if (len(idx) != m or any(not (0 <= x < y < ik) for x, y in idx)
                                or len(set(flat)) != 2 * m or list(idx) != sorted(idx)):
                            bad = f"element {idx} is not a sorted list of {m} disjoint pairs x<y<{ik}"
                            break
                    if bad is None:
                        keys = [frozenset(frozenset(p) for p in idx) for idx in theirs]
                        if len(set(keys)) != len(keys):
                            bad = "the same unordered pairing is listed twice"
                        elif len(theirs) != _pairings_count(ik, m):
                            bad = f"{len(theirs)} pairings listed, there are {_pairings_count(ik, m)}"
                    if bad is not None:
                        ctx.violation("oracle", "get_contraction_indices does not list every contraction exactly once: " + bad,
                                      dict(case, result=[[list(p) for p in idx] for idx in theirs]))
                        continue
                try:
                    mine = model(ik, fk, sw)
                except DriverReject as e:
                    ctx.violation("correspondence", f"the model rejects arguments the implementation accepts ({e})", case)
                    continue
                if mine != theirs:
                    ctx.violation("correspondence", "get_contraction_indices differs from the model contractionIndices",
                                  dict(case, impl=[[list(p) for p in idx] for idx in theirs],
                                       model=[[list(p) for p in idx] for idx in mine]))
    # rejected arguments: the asserts
    for ik, fk in [(3, 2), (2, 3), (4, 1), (0, 1), (2, 4), (1, 3), (0, 2), (4, -2), (3, -1), (-2, -4), (5, 6)]:
        case = {"initial_k": ik, "final_k": fk, "swappable": []}
        ctx.case(("contraction_indices_reject", ik, fk), False)
        try:
            real(ik, fk, ())
            impl_rejects = False
        except AssertionError:
            impl_rejects = True
        try:
            model(ik, fk, ())
            model_rejects = False
        except DriverReject:
            model_rejects = True
        if impl_rejects != model_rejects:
            ctx.violation("correspondence", "asserts of get_contraction_indices: implementation %s, model %s"
                          % ("rejects" if impl_rejects else "accepts", "rejects" if model_rejects else "accepts"), case)
    # (d) what the enumeration relies on: one listed pairing, in every ordering, is one contraction
    d = 2
    for ik in range(0, MAXK + 1):
        dims = SHAPES[d][int(rng.integers(len(SHAPES[d])))]
        A = rng.integers(-2, 3, size=tuple(dims) + (d,) * ik).astype(np.int64)
        gA = geom.GeometricImage(jnp.array(A, dtype=jnp.float32), 0, d, True)
        leaves = [{"data": A, "parity": 0, "torus": (True,) * d, "filter": False}]
        for fk in range(ik % 2, ik - 1, 2):   # at least one pair (the image method asserts k >= 2)
            try:
                listed = geom.get_contraction_indices(ik, fk)
            except Exception:
                continue  # already reported above
            for idx in listed:
                base = gA.multicontract(idx)   # the value as the library hands it out (numpy integers)
                plain = tuple((int(x), int(y)) for x, y in idx)
                ctx.case(("contraction_indices_semantic", list(dims), ik, [list(p) for p in plain], A.tobytes().hex()[:32]),
                         len(plain) >= 1)
                ctx.hist("law", "contraction_indices_orderings")
                for other in _orderings(plain):
                    r = gA.multicontract(other)
                    if (r.k, r.parity) != (base.k, base.parity) or base.k != fk or \
                            not np.array_equal(np.asarray(r.data), np.asarray(base.data)):
                        ctx.violation("oracle", "an ordering of a pairing listed by get_contraction_indices contracts differently",
                                      {"D": d, "dims": list(dims), "leaves": leaves_json(leaves),
                                       "listed": [list(p) for p in plain], "other": [list(p) for p in other]})
                        break


def check_dtypes(ctx: Ctx, geom, jnp):
    """the value of norm / Levi-Civita contraction / product does not depend on the dtype of the leaf
    (uint8, bool, int32 incl. large values vs float32 with the same values), and not on which dtype was
    seen FIRST in the process (called before anything else touches the Levi-Civita symbol)"""
    rng = ctx.rng
    for D in (2, 3):
        dims = (2, 3) if D == 2 else (2, 2, 2)
        for k in ((1, 2) if D == 2 else (2, 3)):
            base = rng.integers(16, 41, size=dims + (D,) * k)
            idx = 0 if D == 2 else (0, 1)
            for name, dt, vals in (("uint8", jnp.uint8, base), ("bool", jnp.bool_, base % 2),
                                   ("int32", jnp.int32, base * 1500)):
                p = int(rng.integers(0, 2))
                case = {"family": "dtype", "D": D, "dims": list(dims), "k": k, "parity": p, "dtype": name,
                        "image": jarr(np.asarray(vals))}
                ctx.case(("dtype", D, k, name, np.asarray(vals).tobytes().hex()[:48]), True,
                         sample={q: case[q] for q in ("family", "D", "k", "dtype")} if (D, name) == (2, "uint8") and k == 1 else None)
                ctx.hist("leaf_dtype", name)
                try:
                    Ai = geom.GeometricImage(jnp.array(vals, dtype=dt), p, D)
                    lc_i = Ai.levi_civita_contract(idx)          # integer dtype FIRST
                    Af = geom.GeometricImage(jnp.array(vals, dtype=jnp.float32), p, D)
                    lc_f = Af.levi_civita_contract(idx)
                    n_i, n_f = Ai.norm(), Af.norm()
                    m_i, m_f = (Ai * Ai).norm(), (Af * Af).norm()
                except Exception as e:  # noqa: BLE001
                    ctx.violation("oracle", f"the algebra raised on a {name} leaf", dict(case, raised=repr(e)[:300]))
                    continue
                bad = []
                if (lc_i.k, lc_i.parity) != (lc_f.k, lc_f.parity) or not np.array_equal(
                        np.asarray(lc_i.data).astype(np.float64), np.asarray(lc_f.data).astype(np.float64)):
                    bad.append("levi_civita_contract")
                for what, a, b in (("norm", n_i, n_f), ("norm of the product", m_i, m_f)):
                    x, y = np.asarray(a.data, dtype=np.float64), np.asarray(b.data, dtype=np.float64)
                    if x.shape != y.shape or not np.all(np.isfinite(x)) or np.max(np.abs(x - y)) > 1e-5 * (1 + np.max(np.abs(y))):
                        bad.append(what)
                if bad:
                    ctx.violation("oracle", f"{', '.join(bad)}: the result on a {name} leaf differs from the result on the "
                                            "float32 leaf with the same values", case)


# ------------------------------------------------------------------------------------------------
# constructors and pixel-wise helpers outside the expression language (Model/C05Extras.lean)

EXTRA_SHAPES = {2: [(2, 3), (3, 2), (1, 4), (3, 3)], 3: [(2, 3, 2), (1, 2, 3), (2, 2, 2)]}
ACT_FNS = {  # name -> (python function on jnp arrays, is odd)
    "identity": (lambda x: x, True),
    "negate": (lambda x: -x, True),
    "cube": (lambda x: x * x * x, True),
    "square": (lambda x: x * x, False),
    "relu": (lambda x: x * (x > 0), False),
    "abs": (lambda x: abs(x), False),
}


def _gimg_view(G):
    """(dims, k, parity, is_torus, integer data or None) of a real GeometricImage"""
    return (tuple(int(v) for v in G.spatial_dims), int(G.k), int(G.parity), tuple(bool(b) for b in G.is_torus),
            to_int(np.asarray(G.data)))


def _model_view(r):
    img = unarr(r["image"])
    return (tuple(int(v) for v in r["dims"]), int(r["k"]), int(r["parity"]), tuple(bool(b) for b in r["torus"]), img)


def _same(a, b):
    return a[:4] == b[:4] and a[4] is not None and b[4] is not None and a[4].shape == b[4].shape \
        and np.array_equal(a[4], b[4])


def _act_tensor(c, d, parity, g):
    """g . c for a bare tensor c (a one-pixel image)"""
    c = np.asarray(c)
    return refs.act(c.reshape((1,) * d + c.shape), d, parity, g).reshape(c.shape)


def check_extras(ctx: Ctx, geom, jnp):
    """KroneckerDeltaSymbol / get_kronecker_delta_image, GeometricImage.fill / zeros / activation_function / __eq__ /
    normalize, tensor_name: code vs model (exact, integer data) and invariance / equivariance on the real code"""
    from ginjax.geometric.constants import KroneckerDeltaSymbol
    from ginjax.geometric.geometric_image import get_kronecker_delta_image

    rng = ctx.rng
    quick = ctx.tier == "quick"
    odd_delta = []
    # --- Kronecker delta ------------------------------------------------------------------------
    for D in (2, 3):
        gs = group_subset(ctx, D)
        for k in (2, 3, 4):
            case = {"family": "kronecker_delta", "D": D, "k": k}
            ctx.case(("kron", D, k), True, sample=case if (D, k) == (2, 2) else None)
            ctx.hist("extras", "kronecker_delta")
            sym = np.asarray(KroneckerDeltaSymbol.get(D, k)).astype(np.int64)
            mine = unarr(ctx.driver.call("c05.kronecker_symbol", d=D, k=k))
            if mine.shape != sym.shape or not np.array_equal(mine, sym):
                ctx.violation("correspondence", "KroneckerDeltaSymbol.get(D, k) differs from the model", case)
            for N in (((1, 3) if D == 2 else (2,)) if quick else (1, 2, 3)):
                img = get_kronecker_delta_image(N, D, k)
                rv = _gimg_view(img)
                mv = _model_view(ctx.driver.call("c05.kronecker_delta", d=D, k=k, N=N))
                if not _same(rv, mv):
                    ctx.violation("correspondence", "get_kronecker_delta_image differs from the model", dict(case, N=N))
                # oracle: for even k it is an invariant (declared parity 0) tensor image under all of B_d
                for g in gs:
                    out = _gimg_view(img.times_group_element(np.asarray(g)))
                    fixed = _same(out, rv)
                    if k % 2 == 0 and not fixed:
                        ctx.violation("oracle", "the Kronecker delta image of even order is not fixed by g",
                                      dict(case, N=N, g=mat_list(g)))
                    if k % 2 == 1 and not fixed:
                        odd_delta.append([D, k, N, mat_list(g)])
                    # the real action agrees with the reference action either way
                    if out[4] is None or not np.array_equal(out[4], refs.act(rv[4], D, 0, g)):
                        ctx.violation("oracle", "times_group_element of the Kronecker delta image differs from the "
                                                "reference action", dict(case, N=N, g=mat_list(g)))
        for bad in ((D, 1), (D, 0)):
            raised = False
            try:
                KroneckerDeltaSymbol.get(*bad)
            except AssertionError:
                raised = True
            try:
                ctx.driver.call("c05.kronecker_symbol", d=bad[0], k=bad[1])
                mraised = False
            except DriverReject:
                mraised = True
            ctx.case(("kron-reject",) + bad, False)
            if raised != mraised:
                ctx.violation("correspondence", "KroneckerDeltaSymbol.get: code and model disagree on rejection",
                              {"D": bad[0], "k": bad[1], "code_raised": raised, "model_rejected": mraised})
    # documented, not a violation: Lean theorem kroneckerDelta_odd_not_invariant (the code's own TODO)
    ctx.notes["kronecker_delta_odd_order_not_invariant_examples"] = odd_delta[:3]
    ctx.notes["kronecker_delta_odd_order_not_invariant_count"] = len(odd_delta)

    # --- fill / zeros ---------------------------------------------------------------------------
    for rep in range(4 if quick else 40):
        D = 2 if rep % 2 == 0 else 3
        gs = group_subset(ctx, D)
        dims = EXTRA_SHAPES[D][int(rng.integers(len(EXTRA_SHAPES[D])))]
        k = int(rng.integers(0, 4 if D == 2 else 3))
        parity = int(rng.integers(0, 4))
        torus = tuple(bool(b) for b in rng.integers(0, 2, size=D))
        c = rng.integers(-4, 5, size=(D,) * k)
        fill_arg = float(c) if (k == 0 and rep % 4 < 2) else jnp.array(c, dtype=jnp.float32)
        case = {"family": "fill", "D": D, "dims": list(dims), "k": k, "parity": parity, "torus": list(torus),
                "fill": jarr(c), "fill_is_python_float": isinstance(fill_arg, float)}
        ctx.case(("fill", D, dims, k, parity, torus, c.tobytes().hex()), bool(np.any(c != 0)) and len(set(dims)) > 1,
                 sample=case if rep == 0 else None)
        ctx.hist("extras", "fill")
        F = geom.GeometricImage.fill(dims, parity, D, fill_arg, torus)
        rv = _gimg_view(F)
        mv = _model_view(ctx.driver.call("c05.fill", d=D, dims=list(dims), parity=parity, torus=list(torus), fill=jarr(c)))
        if not _same(rv, mv):
            ctx.violation("correspondence", "GeometricImage.fill differs from the model", case)
        Z = geom.GeometricImage.zeros(dims, k, parity, D, torus)
        zv = _gimg_view(Z)
        mz = _model_view(ctx.driver.call("c05.zeros", d=D, dims=list(dims), k=k, parity=parity, torus=list(torus)))
        if not _same(zv, mz):
            ctx.violation("correspondence", "GeometricImage.zeros differs from the model", case)
        for g in gs:
            gnp = np.asarray(g)
            ndims = refs.rotated_dims(g, dims)
            ntor = tuple(refs.transport(g, torus))
            gc = _act_tensor(c, D, parity % 2, g)
            want = _gimg_view(geom.GeometricImage.fill(ndims, parity, D, jnp.array(gc, dtype=jnp.float32), ntor))
            got = _gimg_view(F.times_group_element(gnp))
            if not _same(got, want):
                ctx.violation("oracle", "g . fill(c) != fill(g . c) on the transported extents",
                              dict(case, g=mat_list(g), got=None if got[4] is None else jarr(got[4]), want=jarr(want[4])))
            if quick and g is not gs[0] and g is not gs[-1]:
                continue
            wantz = _gimg_view(geom.GeometricImage.zeros(ndims, k, parity, D, ntor))
            gotz = _gimg_view(Z.times_group_element(gnp))
            if not _same(gotz, wantz):
                ctx.violation("oracle", "g . zeros != zeros on the transported extents", dict(case, g=mat_list(g)))

    # --- activation_function --------------------------------------------------------------------
    nonodd_pseudo = []
    for rep in range(6 if quick else 40):
        D = 2 if rep % 2 == 0 else 3
        gs = group_subset(ctx, D)
        dims = EXTRA_SHAPES[D][int(rng.integers(len(EXTRA_SHAPES[D])))]
        parity = rep % 3 % 2 if rep < 4 else int(rng.integers(0, 2))
        torus = tuple(bool(b) for b in rng.integers(0, 2, size=D))
        data = rng.integers(-5, 6, size=dims)
        lf = {"data": data, "parity": parity, "torus": torus}
        A = geom.GeometricImage(jnp.array(data, dtype=jnp.float32), parity, D, torus)
        for name, (fn, is_odd) in ACT_FNS.items():
            case = {"family": "activation", "D": D, "dims": list(dims), "parity": parity, "torus": list(torus),
                    "fn": name, "image": jarr(data)}
            ctx.case(("act", D, dims, parity, name, data.tobytes().hex()[:64]), bool(np.any(data < 0) and np.any(data > 0)),
                     sample=case if (rep == 0 and name == "relu") else None)
            ctx.hist("extras", f"activation:{name}:p{parity}")
            out = A.activation_function(fn)
            rv = _gimg_view(out)
            mv = _model_view(ctx.driver.call("c05.activation", d=D, leaf=leaves_json([lf])[0], fn=name))
            if not _same(rv, mv):
                ctx.violation("correspondence", "activation_function differs from the model", case)
            for g in gs:
                gA = make_gleaves(geom, jnp, D, [lf], g)[0]
                got = _gimg_view(gA.activation_function(fn))
                want = (refs.rotated_dims(g, dims), 0, rv[2], tuple(refs.transport(g, torus)),
                        refs.act(rv[4], D, rv[2], g))
                if _same(got, want):
                    continue
                if parity == 0 or is_odd:
                    # theorems activation_scalar_equivariant / activation_pseudoscalar_equivariant_of_odd
                    ctx.violation("oracle", "f(g . A) != g . f(A) for a pixel-wise function on a scalar image "
                                            "(or an odd function on a pseudo-scalar image)", dict(case, g=mat_list(g)))
                else:
                    nonodd_pseudo.append([name, D, mat_list(g)])
    # not an operation of property C05 and documented by activation_pseudoscalar_not_equivariant_relu
    ctx.notes["activation_nonodd_on_pseudoscalar_not_equivariant_count"] = len(nonodd_pseudo)
    ctx.notes["activation_nonodd_on_pseudoscalar_not_equivariant_example"] = nonodd_pseudo[:2]
    # the assertion k == 0
    for D in (2, 3):
        data = rng.integers(-3, 4, size=(2,) * D + (D,))
        lf = {"data": data, "parity": 0, "torus": (True,) * D}
        V = geom.GeometricImage(jnp.array(data, dtype=jnp.float32), 0, D)
        ctx.case(("act-reject", D), False)
        try:
            V.activation_function(lambda x: x)
            raised = False
        except AssertionError:
            raised = True
        try:
            ctx.driver.call("c05.activation", d=D, leaf=leaves_json([lf])[0], fn="identity")
            mraised = False
        except DriverReject:
            mraised = True
        if raised != mraised:
            ctx.violation("correspondence", "activation_function on a vector image: code and model disagree on rejection",
                          {"D": D, "code_raised": raised, "model_rejected": mraised})

    # --- __eq__ ---------------------------------------------------------------------------------
    for rep in range(4 if quick else 40):
        D = 2 if rep % 2 == 0 else 3
        gs = group_subset(ctx, D)
        if quick:
            gs = [gs[i] for i in rng.choice(len(gs), size=3, replace=False)]
        dims = EXTRA_SHAPES[D][int(rng.integers(len(EXTRA_SHAPES[D])))]
        k = int(rng.integers(0, 3))
        parity = int(rng.integers(0, 2))
        torus = tuple(bool(b) for b in rng.integers(0, 2, size=D))
        data = rng.integers(-3, 4, size=dims + (D,) * k)
        a = {"data": data, "parity": parity, "torus": torus}
        variants = {"same": dict(a)}
        d2 = data.copy()
        d2[tuple(int(rng.integers(n)) for n in d2.shape)] += 1
        variants["one entry differs"] = dict(a, data=d2)
        variants["parity differs"] = dict(a, parity=1 - parity)
        variants["flags differ"] = dict(a, torus=tuple(not b for b in torus[:1]) + torus[1:])
        variants["extents differ"] = dict(a, data=np.swapaxes(data, 0, 1) if dims[0] != dims[1] else np.concatenate([data, data], axis=0))
        if k >= 1:
            variants["order differs"] = dict(a, data=data[..., 0])
        for what, b in variants.items():
            case = {"family": "eq", "D": D, "variant": what, "a": leaves_json([a])[0], "b": leaves_json([b])[0]}
            ctx.case(("eq", D, what, data.tobytes().hex()[:48], parity, torus), what != "same",
                     sample=case if (rep == 0 and what == "one entry differs") else None)
            ctx.hist("extras", "eq:" + what)
            A, B = make_gleaves(geom, jnp, D, [a, b])
            real = bool(A == B)
            model = bool(ctx.driver.call("c05.img_eq", d=D, a=case["a"], b=case["b"]))
            if real != model:
                ctx.violation("correspondence", "__eq__ differs from the model's exact equality", dict(case, code=real, model=model))
            if real != (what == "same"):
                ctx.violation("oracle", "__eq__ does not separate images that differ in " + what, case)
            for g in (gs if (not quick or what in ("same", "one entry differs")) else ()):
                gA, gB = (x.times_group_element(np.asarray(g)) for x in (A, B))
                if bool(gA == gB) != real:
                    ctx.violation("oracle", "(A == B) != (g.A == g.B)", dict(case, g=mat_list(g)))
        ctx.case(("eq-other", D), False)
        if (make_gleaves(geom, jnp, D, [a])[0] == 3) is not False:
            ctx.violation("oracle", "__eq__ with a non-image is not False", {"D": D})

    # --- normalize (float: 1e-5) ----------------------------------------------------------------
    for rep in range(4 if quick else 30):
        D = 2 if rep % 2 == 0 else 3
        gs = group_subset(ctx, D)
        dims = EXTRA_SHAPES[D][int(rng.integers(len(EXTRA_SHAPES[D])))]
        k = int(rng.integers(0, 3))
        parity = int(rng.integers(0, 2))
        data = rng.integers(-4, 5, size=dims + (D,) * k) * (0 if rep == 1 else 1)
        a = {"data": data, "parity": parity, "torus": (True,) * D}
        case = {"family": "normalize", "D": D, "k": k, "parity": parity, "image": jarr(data)}
        ctx.case(("normalize", D, k, parity, data.tobytes().hex()[:48]), bool(np.any(data != 0)))
        ctx.hist("extras", "normalize")
        A = make_gleaves(geom, jnp, D, [a])[0]
        if quick:
            gs = [gs[i] for i in rng.choice(len(gs), size=3, replace=False)]
        nA = A.normalize()
        mx = float(np.sqrt(np.max(np.sum(data.reshape(int(np.prod(dims)), -1).astype(np.float64) ** 2, axis=1))))
        want = data / mx if mx > 1e-5 else data.astype(np.float64)
        if (nA.k, nA.parity) != (k, parity) or np.max(np.abs(np.asarray(nA.data, dtype=np.float64) - want)) > 1e-5:
            ctx.violation("oracle", "normalize is not the division by the largest pixel norm", case)
        for g in gs:
            lhs = A.times_group_element(np.asarray(g)).normalize()
            rhs = refs.act(want, D, parity, g)
            if (lhs.k, lhs.parity) != (k, parity) or lhs.data.shape != rhs.shape or \
                    np.max(np.abs(np.asarray(lhs.data, dtype=np.float64) - rhs)) > 1e-5:
                ctx.violation("oracle", "normalize(g . A) != g . normalize(A)", dict(case, g=mat_list(g)))

    # --- tensor_name ----------------------------------------------------------------------------
    for k in range(0, 5):
        for parity in range(0, 4):
            ctx.case(("tensor_name", k, parity), True)
            real = geom.tensor_name(k, parity)
            model = ctx.driver.call("c05.tensor_name", k=k, parity=parity)
            if real != model:
                ctx.violation("correspondence", "tensor_name differs from the model", {"k": k, "parity": parity, "code": real, "model": model})


def run(ctx: Ctx):
    import jax.numpy as jnp
    import ginjax.geometric as geom

    quick = ctx.tier == "quick"
    n_trees = 300 if quick else 5000
    max_depth = 4 if quick else 6
    ctx.rule = (
        "first of all a dtype family (norm, Levi-Civita contraction and product of uint8 / bool / int32 leaves incl. "
        "values whose squares overflow the integer type, against float32 leaves with the same values, the integer "
        "dtype being the first the process evaluates); then "
        "random expression trees (pool-based generation, depth <= %d) over 3-5 random leaf images with values in "
        "[-2,2], d in {2,3}, square and non-square spatial shapes (extent 1 included), leaf orders 0..3, node orders "
        "<= 4, both parities, boundary flags all-torus / none / mixed, optional filter leaf (odd extents) for one "
        "default-option convolution; every third tree is forced to contain an odd number of Levi-Civita nodes, "
        "every third a product involving a pseudo-tensor; |values| are bounded by 2^20 so float32 is exact. "
        "Group elements: all of B_2; 3 reflections + 2 rotations + 1 fixed-point-free element of B_3 (quick) / all 48 "
        "(thorough). Non-trivial tree: depth >= 2 and a result that is not identically zero; distinct = distinct "
        "(d, shape, tree, result). get_contraction_indices: all (initial_k, final_k) of equal parity with "
        "0 <= final_k <= initial_k <= 6 (thorough 7), swappable in {(), ((0,1),), ((2,3),), ((0,1),(2,3)), ((1,0),), "
        "((0,1),(1,2)), ((3,0),(1,2))} (when the indices exist) + random sets of 1-3 pairs; non-trivial = at least "
        "one pair is contracted. Constructors and helpers outside the expression language (check_extras): "
        "KroneckerDeltaSymbol.get / get_kronecker_delta_image for d in {2,3}, k in 2..4, N in {1,3} (d=2) / {2} (d=3) "
        "(thorough 1..3); GeometricImage.fill / zeros on non-square extents with integer fill tensors of order 0..3 "
        "(number and array form), parities 0..3, mixed flags; activation_function over identity / negate / cube / "
        "square / relu / abs on integer scalar and pseudo-scalar images; __eq__ on equal images and images differing "
        "in one entry / parity / flags / extents / order; normalize; tensor_name for k in 0..4, parity in 0..3." % max_depth
    )
    ctx.assumptions = [
        "integer-valued float32 leaves with bounded products make the implementation's arithmetic exact",
        "norm nodes are compared through their square (1e-4 relative) and the tree continues from the rounded "
        "square carrying the type norm() declared",
        "contraction index pairs are pairwise distinct positions (the code comments require it, does not assert it)",
    ]
    ctx.trusted_extra = [
        "jnp.einsum with repeated letters, jnp.tensordot(axes=0), jnp.transpose, jnp.linalg.norm, "
        "conv_general_dilated + jnp.pad(wrap) are modelled by mcGo/fill, mulI/outerLC, unperm, normSq, convI",
        "harness/refs.py reference action (validated against the Lean spec actSpec by check C02)",
        "get_contraction_indices: itertools.combinations, np.unique(axis=0), np.isin/np.where and in-place row "
        "assignment are modelled by combinations, uniqueRows, locsOf/restoreRow (GinjaxVerif/Model/C05Contr.lean)",
        "jnp.stack(...).reshape of fill / get_kronecker_delta_image, jnp.zeros, function(self.data) and jnp.allclose "
        "(exact part) are modelled by fillImg / kroneckerDelta / zerosImg / activationI / GImg.eqB "
        "(GinjaxVerif/Model/C05Extras.lean); normalize is compared on the implementation only (float, 1e-5)",
        "convolution nodes: the Lean theorem takes the equivariance of convolution as hypothesis ConvHyp.hConv "
        "(property C01); on the implementation they are covered by the oracle like every other node",
    ]
    check_dtypes(ctx, geom, jnp)  # first: before anything else in this process touches the Levi-Civita symbol
    check_tables(ctx, geom)
    check_laws(ctx, geom, jnp, 40 if quick else 400)
    check_contraction_indices(ctx, geom)
    check_extras(ctx, geom, jnp)
    wants = ["oddlc", "pseudoprod", "any", "oddlc", "conv", "any"]
    done = 0
    it = 0
    while done < n_trees and it < 4 * n_trees:
        it += 1
        d = 2 if it % 5 < 3 else 3
        with_filter = it % 3 == 0
        dims, torus, leaves = make_case(ctx, d, with_filter)
        gs = group_subset(ctx, d)
        pool = grow(ctx, d, leaves, max_depth, steps=int(ctx.rng.integers(10, 22)))
        # several roots per pool (shared leaves, different expressions)
        n_roots = 3 if quick else 4
        seen = set()
        for r in range(n_roots):
            want = wants[(it + r) % len(wants)]
            if want == "conv" and not with_filter:
                want = "any"
            ent = choose_root(ctx, pool, want, 1 if r == n_roots - 1 else 2)
            if ent is None or id(ent) in seen:
                continue
            seen.add(id(ent))
            check_tree(ctx, geom, jnp, d, dims, leaves, ent, gs, want)
            done += 1
        if it % 4 == 0:
            check_ill_typed(ctx, geom, jnp, d, dims, leaves, pool, gs[:3])
    ctx.notes["trees"] = done
