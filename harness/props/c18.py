"""C18 - losses compute their definition, pair blocks by type and are symmetry-invariant.

Operands are described like in C12 (constructor items + history), executed on the real
`ginjax.geometric.MultiImage` and sent to the Lean model (driver ops c18.smse / c18.timestep /
c18.normalized, exact rationals).

oracle (independent of the model):
  * definition: an exact `Fraction` reference written from the property's sentence (squared
    difference summed over channels, components and types, averaged over pixels; per time step
    `ch % n_steps`; target-norm normalisation), blocks looked up **by type**;
  * pairing: the loss must not change when either argument is stored in another order / has gone
    through jit (same values);
  * zero / non-negativity: loss(x, x) == 0, loss >= 0, loss > 0 when the arguments differ;
  * invariance: the same element g of B_d applied to prediction and target (numpy reference action
    of harness/refs.py) leaves every loss unchanged; the sum over steps equals the total.
correspondence: real loss vs Lean model, exactly (integer blocks, power-of-two batch and spatial
  sizes make the float32 results exact dyadic rationals) for smse / timestep, within 1e-4 relative
  for the eps-regularised normalised loss; python reference vs the Lean spec functions.
"""
from __future__ import annotations

import itertools
from fractions import Fraction

import numpy as np

import refs
from common import Ctx, DriverReject
from props.c12 import TYPES, build_real, plan, wblock

EPS = Fraction(1, 100000)
_JIT = {}


# ---------------------------------------------------------------------------------------------
# exact reference, from the sentence of the property


def ref_per_batch(X, Y, D):
    """[i] -> sum over types, channels, components of (x-y)^2, averaged over pixels"""
    first = next(iter(X.values()))
    L = first.shape[0]
    out = [Fraction(0)] * L
    for t, xa in X.items():
        P = int(np.prod(xa.shape[2:2 + D]))
        d2 = (xa.astype(np.int64) - Y[t].astype(np.int64)) ** 2
        for i in range(L):
            out[i] += Fraction(int(d2[i].sum()), P)
    return out


def ref_timestep(X, Y, D, steps):
    """[i][s]: the same quantity restricted to the channels of time step s (channel ch belongs to
    step ch % n_steps)"""
    first = next(iter(X.values()))
    L = first.shape[0]
    out = [[Fraction(0)] * steps for _ in range(L)]
    for t, xa in X.items():
        P = int(np.prod(xa.shape[2:2 + D]))
        d2 = (xa.astype(np.int64) - Y[t].astype(np.int64)) ** 2
        for i in range(L):
            for ch in range(xa.shape[1]):
                out[i][ch % steps] += Fraction(int(d2[i, ch].sum()), P)
    return out


def ref_normalized(X, Y, D, eps):
    first = next(iter(X.values()))
    L = first.shape[0]
    out = [Fraction(0)] * L
    for t, yb in Y.items():
        xa = X[t].astype(np.int64)
        yb = yb.astype(np.int64)
        P = int(np.prod(yb.shape[2:2 + D]))
        lead = yb.shape[:2 + D]
        d2 = ((xa - yb) ** 2).reshape(lead + (-1,)).sum(-1)
        n2 = (yb ** 2).reshape(lead + (-1,)).sum(-1)
        for i in range(L):
            acc = Fraction(0)
            for e, n in zip(d2[i].reshape(-1), n2[i].reshape(-1)):
                acc += Fraction(int(e)) / (Fraction(int(n)) + eps)
            out[i] += acc / P
    return out


def fmean(l):
    return sum(l, Fraction(0)) / len(l)


def reduce_ts(m, red):
    L, steps = len(m), len(m[0])
    if red == "mean":
        return [sum((m[i][s] for i in range(L)), Fraction(0)) / L for s in range(steps)]
    if red == "max":
        sums = [sum(r, Fraction(0)) for r in m]
        return m[sums.index(max(sums))]
    return [v for r in m for v in r]


# ---------------------------------------------------------------------------------------------
# running one loss on implementation / model


def impl_loss(ml, kind, x, y, steps, red, jit=False):
    import jax

    r = None if red == "none" else red
    if kind == "smse":
        if jit:
            f = _JIT.setdefault(("smse", r), jax.jit(lambda a, b: ml.smse_loss(a, b, reduce=r)))
            out = f(x, y)
        else:
            out = ml.smse_loss(x, y, reduce=r)
    elif kind == "timestep":
        if jit:
            f = _JIT.setdefault(("ts", steps, r), jax.jit(lambda a, b: ml.timestep_smse_loss(a, b, steps, reduce=r)))
            out = f(x, y)
        else:
            out = ml.timestep_smse_loss(x, y, steps, reduce=r)
    else:
        out = ml.normalized_smse_loss(x, y)
    return np.asarray(out).astype(np.float64)


def model_loss(drv, kind, xs, ys, steps, red, legacy=False):
    if kind == "smse":
        r = drv.call("c18.smse", x=xs, y=ys, reduce=red, legacy=legacy)
    elif kind == "timestep":
        r = drv.call("c18.timestep", x=xs, y=ys, steps=steps, reduce=red, legacy=legacy)
    else:
        r = drv.call("c18.normalized", x=xs, y=ys, eps=[EPS.numerator, EPS.denominator])
    return [Fraction(v[0], v[1]) for v in r["data"]], r["shape"]


def want_loss(kind, X, Y, D, steps, red):
    if kind == "smse":
        pb = ref_per_batch(X, Y, D)
        return ([fmean(pb)], []) if red == "mean" else (pb, [len(pb)])
    if kind == "timestep":
        m = ref_timestep(X, Y, D, steps)
        return reduce_ts(m, red), ([len(m), steps] if red == "none" else [steps])
    return [fmean(ref_normalized(X, Y, D, EPS))], []


def same(kind, got, want):
    """got: float64 array (flattened), want: list of Fractions"""
    got = np.asarray(got, dtype=np.float64).reshape(-1)
    if len(got) != len(want):
        return False
    if kind == "normalized":
        return all(abs(g - float(w)) <= 1e-4 * (1 + abs(float(w))) for g, w in zip(got, want))
    return all(Fraction(float(g)) == w for g, w in zip(got, want))


def ints(D, key, L, C, spatial, rng, lo=-3, hi=3):
    return rng.integers(lo, hi + 1, size=(L, C) + tuple(spatial) + (D,) * key[0]).astype(np.int64)


def mk_spec(D, torus, order, blocks, kind, rng):
    return plan(kind, D, torus, [(t, blocks[t]) for t in order], 2, rng)


def np_blocks(mi):
    return {k: np.asarray(v).astype(np.int64) for k, v in mi.items()}


def run_case(ctx: Ctx, geom, ml, case, sample=False):
    """case: {"kind","reduce","steps","x":spec,"y":spec,"jit":bool}"""
    drv = ctx.driver
    kind, red, steps = case["kind"], case["reduce"], case["steps"]
    D = case["x"]["D"]
    x = build_real(geom, case["x"])
    y = build_real(geom, case["y"])
    X, Y = np_blocks(x), np_blocks(y)
    kx, ky = list(X), list(Y)
    differ = kx != ky
    ctx.hist("loss", kind)
    ctx.hist("reduce", f"{kind}:{red}")
    ctx.hist("key orders", "different" if differ else "same")
    ctx.hist("n_types", len(kx))
    ctx.hist("D", D)
    ctx.hist("spatial", str(next(iter(X.values())).shape[2:2 + D]))
    ctx.hist("batch", next(iter(X.values())).shape[0])
    unequal = any(not np.array_equal(X[t], Y[t]) for t in kx)
    nontrivial = len(kx) >= 2 and differ and unequal
    smp = None
    if sample:
        smp = {"loss": kind, "reduce": red, "n_steps": steps, "x_keys": [list(t) for t in kx],
               "y_keys": [list(t) for t in ky], "shapes": {str(t): list(X[t].shape) for t in kx},
               "x_history": [s["s"] for s in case["x"]["steps"]] or ["ctor"],
               "y_history": [s["s"] for s in case["y"]["steps"]] or ["ctor"]}
    ctx.case(case, nontrivial, sample=smp)

    want, wshape = want_loss(kind, X, Y, D, steps, red)
    try:
        got = impl_loss(ml, kind, x, y, steps, red, jit=case.get("jit", False))
    except Exception as e:  # noqa: BLE001
        ctx.violation("oracle", f"{kind} loss raised on valid arguments", dict(case, error=repr(e)[:300]))
        return None
    ok = True
    if list(got.shape) != wshape or not same(kind, got, want):
        ok = False
        ctx.violation("oracle", f"{kind} loss (reduce={red}) differs from its definition with blocks paired by type",
                      dict(case, x_keys=[list(t) for t in kx], y_keys=[list(t) for t in ky],
                           expected=[str(w) for w in want][:8], observed=got.reshape(-1)[:8].tolist()))
    if min(got.reshape(-1), default=0.0) < 0:
        ok = False
        ctx.violation("oracle", f"{kind} loss is negative", dict(case, observed=got.reshape(-1)[:8].tolist()))
    if not unequal and np.any(got != 0):
        ok = False
        ctx.violation("oracle", f"{kind} loss of equal arguments is not zero", dict(case, observed=got.reshape(-1)[:8].tolist()))
    if unequal and red in ("mean",) and kind != "timestep" and not np.all(got > 0):
        ok = False
        ctx.violation("oracle", f"{kind} loss of different arguments is zero", dict(case))
    # ---- model
    try:
        mod, mshape = model_loss(drv, kind, case["x"], case["y"], steps, red)
    except DriverReject as e:
        if ok:
            ctx.violation("correspondence", f"Lean model rejects valid arguments: {e}", case)
        return got
    if ok:
        if mshape != list(got.shape) or not same(kind, got, mod):
            ctx.violation("correspondence", f"{kind} loss (reduce={red}) differs from the Lean model",
                          dict(case, model=[str(v) for v in mod][:8], observed=got.reshape(-1)[:8].tolist()))
    # python reference vs Lean spec (per batch entry)
    if case.get("check_spec"):
        kw = {"steps": steps} if kind == "timestep" else ({"eps": [EPS.numerator, EPS.denominator]} if kind == "normalized" else {})
        sp = drv.call("c18.spec", kind=kind, x=case["x"], y=case["y"], **kw)
        if kind == "timestep":
            lean = [[Fraction(v[0], v[1]) for v in row] for row in sp]
            py = ref_timestep(X, Y, D, steps)
        else:
            lean = [Fraction(v[0], v[1]) for v in sp]
            py = ref_per_batch(X, Y, D) if kind == "smse" else ref_normalized(X, Y, D, EPS)
        if lean != py:
            ctx.violation("correspondence", f"python reference of {kind} differs from the Lean spec", case)
    return got


# ---------------------------------------------------------------------------------------------
# streams


def witness_d8(ctx, geom, ml):
    """D8 witness: same types, target stored in the other order, equal shapes"""
    D, tor = 2, [True, True]
    z = np.zeros((1, 1, 2, 2), dtype=np.int64)
    xb = {(0, 0): z + 1, (0, 1): z + 2}
    yb = {(0, 0): z + 1, (0, 1): z + 2}
    xs = plan("ctor", D, tor, [((0, 0), xb[(0, 0)]), ((0, 1), xb[(0, 1)])], 2, ctx.rng)
    ys = plan("ctor", D, tor, [((0, 1), yb[(0, 1)]), ((0, 0), yb[(0, 0)])], 2, ctx.rng)
    for kind, red, steps in (("smse", "mean", 1), ("smse", "none", 1), ("timestep", "mean", 1), ("timestep", "none", 1),
                             ("timestep", "max", 1), ("normalized", "mean", 1)):
        run_case(ctx, geom, ml, {"kind": kind, "reduce": red, "steps": steps, "x": xs, "y": ys,
                                 "label": "D8 witness: equal arguments, target in another order", "check_spec": True},
                 sample=(kind == "smse" and red == "mean"))


LOSSES = [("smse", "mean"), ("smse", "none"), ("timestep", "mean"), ("timestep", "max"), ("timestep", "none"),
          ("normalized", "mean")]
HIST = ["ctor", "append", "flatten", "tree_map", "copy", "from_vector", "setitem", "mixed"]


def order_stream(ctx, geom, ml, D, max_types, spatial, L, steps):
    """every insertion order of prediction and target; blocks of equal shape on purpose"""
    rng = ctx.rng
    tor = [True] * D
    count = 0
    for n in range(1, max_types + 1):
        types = TYPES[:n]
        C = {t: steps * (1 + (i % 2)) for i, t in enumerate(types)}
        xb = {t: ints(D, t, L, C[t], spatial, rng) for t in types}
        yb = {t: ints(D, t, L, C[t], spatial, rng) for t in types}
        base = {}
        for pa in itertools.permutations(types):
            for pb in itertools.permutations(types):
                count += 1
                hx = HIST[count % len(HIST)] if count % 4 == 0 else "ctor"
                hy = HIST[(count // 4) % len(HIST)] if count % 3 == 0 else "ctor"
                xs = mk_spec(D, tor, pa, xb, hx, rng)
                ys = mk_spec(D, tor, pb, yb, hy, rng)
                for kind, red in LOSSES:
                    got = run_case(ctx, geom, ml, {"kind": kind, "reduce": red, "steps": steps, "x": xs, "y": ys,
                                                   "check_spec": count % 7 == 0},
                                   sample=(count in (6, 30) and kind in ("smse", "timestep") and red == "mean"))
                    # pairing oracle, directly on the implementation: all orders give one value
                    if got is None:
                        continue
                    k = (kind, red)
                    if k not in base:
                        base[k] = (got, pa, pb)
                    else:
                        b0 = base[k][0]
                        agree = b0.shape == got.shape and (
                            np.allclose(b0, got, rtol=1e-4, atol=1e-6) if kind == "normalized" else np.array_equal(b0, got))
                        if not agree:
                            ctx.violation("oracle", f"{kind} loss (reduce={red}) depends on the storage order of its arguments",
                                          {"kind": kind, "reduce": red, "steps": steps, "x": xs, "y": ys,
                                           "orders": [list(map(list, pa)), list(map(list, pb))],
                                           "reference_orders": [list(map(list, base[k][1])), list(map(list, base[k][2]))],
                                           "observed": got.reshape(-1)[:8].tolist(), "reference": b0.reshape(-1)[:8].tolist()})


def random_stream(ctx, geom, ml, n_cases, jit_budget):
    rng = ctx.rng
    used = 0
    for i in range(n_cases):
        D = 2 if rng.random() < 0.65 else 3
        spatial = tuple(int(2 ** rng.integers(0, 3)) for _ in range(D))
        L = int(2 ** rng.integers(0, 3))
        steps = int(rng.integers(1, 4))
        pool = [t for t in TYPES if t[0] <= (2 if D == 2 else 1)]
        n = int(rng.integers(1, 5))
        types = [pool[j] for j in rng.permutation(len(pool))[:n]]
        tor = [bool(rng.integers(0, 2)) for _ in range(D)]
        C = {t: steps * int(rng.integers(1, 3)) for t in types}
        xb = {t: ints(D, t, L, C[t], spatial, rng) for t in types}
        mode = rng.random()
        if mode < 0.15:
            yb = {t: v.copy() for t, v in xb.items()}  # equal arguments
        elif mode < 0.3:
            yb = {t: v.copy() for t, v in xb.items()}  # differ in a single element
            t = types[int(rng.integers(0, n))]
            yb[t].reshape(-1)[int(rng.integers(0, yb[t].size))] += 1
        else:
            yb = {t: ints(D, t, L, C[t], spatial, rng) for t in types}
        hx, hy = HIST[int(rng.integers(0, len(HIST)))], HIST[int(rng.integers(0, len(HIST)))]
        if rng.random() < 0.1 and used < jit_budget:
            hx, used = "jit", used + 1
        if rng.random() < 0.1 and used < jit_budget:
            hy, used = "jit", used + 1
        if rng.random() < 0.05 and used < jit_budget:
            hy, used = "vmap", used + 1
        xs = mk_spec(D, tor, [types[j] for j in rng.permutation(n)], xb, hx, rng)
        ys = mk_spec(D, tor, [types[j] for j in rng.permutation(n)], yb, hy, rng)
        kind, red = LOSSES[int(rng.integers(0, len(LOSSES)))]
        jit = rng.random() < 0.06 and used < jit_budget
        used += jit
        ctx.hist("history kind", hx)
        ctx.hist("history kind", hy)
        ctx.hist("n_steps", steps)
        run_case(ctx, geom, ml, {"kind": kind, "reduce": red, "steps": steps, "x": xs, "y": ys, "jit": bool(jit),
                                 "check_spec": i % 5 == 0}, sample=(i in (2, 9)))


def invariance_stream(ctx, geom, ml, n_cases, max_elems):
    """same g on prediction and target leaves every loss unchanged; sum over steps = total.
    Evaluated on the implementation only (reference action from harness/refs.py)."""
    import jax.numpy as jnp

    rng = ctx.rng
    for i in range(n_cases):
        D = 2 if i % 3 != 2 else 3
        spatial = tuple(int(2 ** rng.integers(0, 3)) for _ in range(D))
        if i % 2 == 0 and D == 2:
            spatial = (2, 4)
        L = int(2 ** rng.integers(0, 2))
        steps = int(rng.integers(1, 3))
        pool = [t for t in TYPES if t[0] <= (2 if D == 2 else 1)]
        n = int(rng.integers(1, 4))
        types = [pool[j] for j in rng.permutation(len(pool))[:n]]
        C = {t: steps * int(rng.integers(1, 3)) for t in types}
        xb = {t: ints(D, t, L, C[t], spatial, rng) for t in types}
        yb = {t: ints(D, t, L, C[t], spatial, rng) for t in types}
        order_y = [types[j] for j in rng.permutation(n)]

        def mi(blocks, order):
            return geom.MultiImage({t: jnp.asarray(blocks[t].astype(np.float32)) for t in order}, D, True)

        x0, y0 = mi(xb, types), mi(yb, order_y)
        try:
            base = {(k, r): impl_loss(ml, k, x0, y0, steps, r) for k, r in LOSSES}
        except Exception as e:  # noqa: BLE001
            ctx.case(("invariance-base", i), False)
            ctx.violation("oracle", "a loss raised on valid arguments (same types, other order)",
                          {"D": D, "spatial": list(spatial), "batch": L, "n_steps": steps,
                           "x_keys": [list(t) for t in types], "y_keys": [list(t) for t in order_y],
                           "x": {str(t): wblock(xb[t]) for t in types}, "y": {str(t): wblock(yb[t]) for t in types},
                           "error": repr(e)[:300]})
            continue
        # sum over the steps of the per-step loss = total, per batch entry and after the mean
        tot_none = base[("smse", "none")]
        ts_none = base[("timestep", "none")]
        case0 = {"D": D, "spatial": list(spatial), "batch": L, "n_steps": steps, "types": [list(t) for t in types],
                 "x": {str(t): wblock(xb[t]) for t in types}, "y": {str(t): wblock(yb[t]) for t in types}}
        ctx.case(("steps-sum", case0), True)
        if not np.array_equal(ts_none.sum(axis=1), tot_none) or not np.array_equal(
                base[("timestep", "mean")].sum(), base[("smse", "mean")]):
            ctx.violation("oracle", "sum over the time steps of timestep_smse_loss differs from smse_loss",
                          dict(case0, per_step=ts_none.tolist(), total=tot_none.tolist()))
        group = refs.signed_perms(D)
        idx = list(range(len(group))) if len(group) <= max_elems else sorted(
            int(j) for j in rng.permutation(len(group))[:max_elems])
        for gi in idx:
            g = group[gi]
            gx = refs.act_dict({t: xb[t] for t in types}, D, g)
            gy = refs.act_dict({t: yb[t] for t in order_y}, D, g)
            xg, yg = mi(gx, types), mi(gy, order_y)
            nontrivial = not np.array_equal(g, np.eye(D, dtype=np.int64))
            ctx.case(("invariance", case0, gi), nontrivial,
                     sample=dict(case0, g=g.tolist(), what="loss(g.x, g.y) == loss(x, y)") if (i == 0 and gi == idx[-1]) else None)
            ctx.hist("group element det", refs.det(g))
            for (k, r), b0 in base.items():
                try:
                    got = impl_loss(ml, k, xg, yg, steps, r)
                except Exception as e:  # noqa: BLE001
                    ctx.violation("oracle", f"{k} loss raised on transformed valid arguments", dict(case0, g=g.tolist(), error=repr(e)[:300]))
                    continue
                okk = (np.allclose(got, b0, rtol=1e-4, atol=1e-6) if k == "normalized" else np.array_equal(got, b0))
                if not okk:
                    ctx.violation("oracle", f"{k} loss (reduce={r}) changes when the same group element acts on both arguments",
                                  dict(case0, g=g.tolist(), before=b0.reshape(-1)[:8].tolist(), after=got.reshape(-1)[:8].tolist()))


def malformed(ctx, geom, ml):
    """arguments the losses cannot pair or reshape: recorded as a diagnostic (the property does
    not pin what happens), except that model and implementation are expected to agree"""
    rng = ctx.rng
    D, tor = 2, [True, True]
    L, spatial = 2, (2, 2)
    b00 = ints(D, (0, 0), L, 2, spatial, rng)
    b10 = ints(D, (1, 0), L, 2, spatial, rng)
    b01 = ints(D, (0, 1), L, 2, spatial, rng)
    cases = [
        ("x has a type that y lacks", [((0, 0), b00), ((1, 0), b10)], [((0, 0), b00)], 1),
        ("y has a type that x lacks", [((0, 0), b00)], [((0, 0), b00), ((0, 1), b01)], 1),
        ("n_steps does not divide the channels", [((0, 0), b00)], [((0, 0), b00)], 3),
    ]
    for what, xi, yi, steps in cases:
        xs, ys = plan("ctor", D, tor, xi, 2, rng), plan("ctor", D, tor, yi, 2, rng)
        x, y = build_real(geom, xs), build_real(geom, ys)
        for kind, red in (("smse", "mean"), ("timestep", "mean"), ("normalized", "mean")):
            try:
                impl_loss(ml, kind, x, y, steps, red)
                ir = "accepted"
            except Exception:  # noqa: BLE001
                ir = "rejected"
            try:
                model_loss(ctx.driver, kind, xs, ys, steps, red)
                mr = "accepted"
            except DriverReject:
                mr = "rejected"
            ctx.case(("malformed", what, kind), False)
            ctx.hist("malformed (diagnostic)", f"{what} / {kind}: impl {ir}, model {mr}")


def run(ctx: Ctx):
    import ginjax.geometric as geom
    import ginjax.ml as ml

    quick = ctx.tier == "quick"
    ctx.rule = (
        "Integer-valued blocks in [-3,3] of shape (batch, channels, spatial, tensor) with power-of-two batch and "
        "spatial sizes (results are exact dyadic rationals in float32). Order stream: every insertion order of "
        "prediction x every insertion order of target for 1..3 types (thorough: 4 types, also d=3), equal-shaped "
        "blocks, histories rotating over constructor/append/pytree/copy/from_vector/setitem, all six "
        "(loss, reduce) combinations. Random stream: d in {2,3}, non-square shapes, 1-4 types, n_steps 1-3, equal / "
        "one-element-different / random targets, jit and vmap round trips of either argument, losses under jit. "
        "Invariance stream: all of B_2 (quick: 8 sampled elements of B_3, thorough: all 48) applied to both arguments "
        "by the numpy reference action. A case is non-trivial when it holds >= 2 types, prediction and target are "
        "stored in different key orders and their values differ (invariance: g is not the identity); distinct = "
        "distinct full case description."
    )
    ctx.assumptions = [
        "both arguments hold the same set of types, with equal shapes per type, batch and channel axes present",
        "eps-regularised division of normalized_smse_loss compared within 1e-4 relative (float rounding, sqrt-then-square)",
        "channel ch of a block belongs to time step ch % n_steps (the library's (channel, step) layout)",
        "NaN/inf excluded; empty multi-images excluded (mean of an empty batch)",
    ]
    ctx.trusted_extra = [
        "harness/refs.py reference group action (numpy, exact; cross-checked against the Lean spec by the C02 check)",
        "jnp.sum over trailing axes = sum over a contiguous row-major chunk; reshape keeps the flat data",
    ]
    witness_d8(ctx, geom, ml)
    order_stream(ctx, geom, ml, 2, 3 if quick else 4, (2, 4), 2, 2)
    if not quick:
        order_stream(ctx, geom, ml, 3, 3, (2, 1, 2), 4, 1)
    random_stream(ctx, geom, ml, 120 if quick else 2500, 16 if quick else 120)
    invariance_stream(ctx, geom, ml, 6 if quick else 40, 8 if quick else 48)
    malformed(ctx, geom, ml)
    ctx.notes["exhaustive_scope"] = "all ordered pairs of insertion orders of <= 3 (thorough 4) types; all of B_2; values sampled"
    ctx.notes["float_tolerance"] = {"smse": 0, "timestep": 0, "normalized": "1e-4 relative"}


def replay(ctx: Ctx, rp):
    import ginjax.geometric as geom
    import ginjax.ml as ml

    case = rp["case"]
    if "kind" in case and isinstance(case.get("x"), dict) and "items" in case["x"]:
        keep = {k: case[k] for k in ("kind", "reduce", "steps", "x", "y", "jit", "label") if k in case}
        keep["check_spec"] = True
        run_case(ctx, geom, ml, keep, sample=True)
    else:
        run(ctx)
