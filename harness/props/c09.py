"""C09 - training cannot break equivariance.

Every history is a real `ml.train` run on a tiny equivariant model (ConvContract-only net,
ConvBlocks with LayerNorm + VectorNeuronNonlinear, small UNet / ResNet / DilResNet) with a real
optax optimiser, random data and a smse loss.

correspondence (model = lean/GinjaxVerif/Model/C09.lean through driver ops c09.*):
  * tree structure and every static field / non-array leaf of the returned model are those of the
    initial model (`plan (train m us) = plan m`);
  * the factor by which the filter bank was rescaled is the one the Lean model predicts from the
    optimiser's per-step factor (sgd, adam: 1, checked exactly through `c09.common_factor` on the
    exact rational values of the float32 leaves; decoupled / coupled-sgd weight decay:
    (1 - lr*wd)^steps from `c09.bank`, 1e-5 relative), for the number of steps of SOME epoch
    boundary of the history (`returned_is_in_history`: the code returns `best_model`);
  * parameter leaves moved (otherwise the history is trivial).
oracle (the property's own sentence on the real implementation):
  * every filter-bank leaf of the returned model is ONE common multiple of its initial value;
  * the RETURNED model satisfies model(g.x) = g.model(x) for every g of B_2 (a seeded subset of B_3
    for the d = 3 run) on fresh inputs, g. from the exact numpy reference action (harness/equiv.py);
  * the D4 witness: LayerNorm on a pseudo-scalar block with every parameter moved off its initial
    value (what one optimiser step does).
"""
from __future__ import annotations

import os
import time
from fractions import Fraction

import numpy as np

import equiv
import refs
from common import Ctx, jrat, unrat

TOL = equiv.TOL          # equivariance defect relative to the output scale
BANK_TOL = 1e-5          # bank leaves vs c * initial, relative to max |initial|

ALL_BIAS = os.environ.get("C09_ALL_BIAS", "") not in ("", "0")

# signatures (input, output) -- all k <= 1 so that LayerNorm applies; pseudo-types included
SIGS2 = {
    "s-v>s-v-ps": ([((0, 0), 1), ((1, 0), 1)], [((0, 0), 1), ((1, 0), 1), ((0, 1), 1)]),
    "v>pv-s": ([((1, 0), 1)], [((1, 1), 1), ((0, 0), 1)]),
    "s-ps>v": ([((0, 0), 1), ((0, 1), 1)], [((1, 0), 2)]),
    "pv-s>ps-v": ([((1, 1), 1), ((0, 0), 2)], [((0, 1), 1), ((1, 0), 1)]),
    "v-ps>v-ps": ([((1, 0), 1), ((0, 1), 1)], [((1, 0), 1), ((0, 1), 1)]),
    # only k=0 types, one of them a pseudo-scalar: any shortcut that treats "no tensor-valued channel" as
    # "ordinary scalar network" (e.g. a plain affine normalisation) breaks under reflections once trained
    "s-ps>s-ps": ([((0, 0), 1), ((0, 1), 1)], [((0, 0), 1), ((0, 1), 1)]),
    # no pseudo-type: every (input, target) pair has its filters, channel counts are equal on each side and the
    # hidden signature (signature_union) lists the vector before the scalar
    "s-v>v-s": ([((0, 0), 1), ((1, 0), 1)], [((1, 0), 1), ((0, 0), 1)]),
}
# for the ConvContract-only net also a rank-2 type
SIGS2_CONV = dict(SIGS2)
SIGS2_CONV["s-v>m-pv"] = ([((0, 0), 1), ((1, 0), 1)], [((2, 0), 1), ((1, 1), 1)])
SIGS3 = {
    "v>pv-s": ([((1, 0), 1)], [((1, 1), 1), ((0, 0), 1)]),
    "s-v>v-s": ([((0, 0), 1), ((1, 0), 1)], [((1, 0), 1), ((0, 0), 1)]),
}

# signatures for the histories on a bank of side length M = 1 (the pointwise filters: delta (0,0), Kronecker
# delta (2,0), Levi-Civita (2,1)): every output type is reached from some input type through one of them
SIGS2_M1 = {
    "s-v-pv>s-v-pv": ([((0, 0), 1), ((1, 0), 1), ((1, 1), 1)], [((0, 0), 1), ((1, 0), 1), ((1, 1), 1)]),
    "s-v>s-pv": ([((0, 0), 2), ((1, 0), 2)], [((0, 0), 1), ((1, 1), 2)]),
}

_CLASSES = {}


def seq_classes():
    """two tiny wrapper modules (defined once so that tree structures compare equal)"""
    if not _CLASSES:
        import equinox as eqx

        class ConvSeq(eqx.Module):
            layers: list

            def __call__(self, x, aux_data=None):
                for layer in self.layers:
                    x = layer(x)
                return x, aux_data

        class BlockSeq(eqx.Module):
            layers: list

            def __call__(self, x, aux_data=None):
                for layer in self.layers:
                    x, aux_data = layer(x, aux_data)
                return x, aux_data

        _CLASSES["ConvSeq"] = ConvSeq
        _CLASSES["BlockSeq"] = BlockSeq
    return _CLASSES


def map_and_loss(model, x, y, aux_data):
    """the shape used by the repository's scripts (scripts/gravity_field.py)"""
    import jax

    import ginjax.ml as ml

    pred, aux_data = jax.vmap(model, in_axes=(0, None), out_axes=(0, None))(x, aux_data)
    return ml.smse_loss(pred, y), aux_data


def make_pull_loss(model0, seed: int, weight: float):
    """smse loss plus a quadratic pull of every parameter leaf (never a filter-bank leaf) towards a
    generic target far from the initial values: `weight * smse + sum |p - target|^2`.  With
    optax.sgd(0.5) one step lands at `target - 0.5 * weight * grad smse`, so that ONE genuine
    training step moves every learnable leaf -- including those that start at 0 or 1 -- by O(0.5).
    These histories take exactly one step (further large steps from there would diverge).
    (The property is claimed for any loss; this one makes the history informative.)"""
    import equinox as eqx
    import jax
    import jax.numpy as jnp

    import ginjax.geometric as geom
    import ginjax.ml as ml

    is_mi = lambda v: isinstance(v, geom.MultiImage)  # noqa: E731
    target_model = equiv.perturb(model0, np.random.Generator(np.random.PCG64(seed)), 0.5)
    targets = [t for t in jax.tree_util.tree_leaves(target_model, is_leaf=is_mi)
               if not is_mi(t) and eqx.is_inexact_array(t)]

    def pull_loss(model, x, y, aux_data):
        pred, aux_data = jax.vmap(model, in_axes=(0, None), out_axes=(0, None))(x, aux_data)
        params = [p for p in jax.tree_util.tree_leaves(model, is_leaf=is_mi)
                  if not is_mi(p) and eqx.is_inexact_array(p)]
        pull = sum(jnp.sum((p - t) ** 2) for p, t in zip(params, targets))
        return weight * ml.smse_loss(pred, y) + pull, aux_data

    return pull_loss


# ---------------------------------------------------------------------------------------------
# building blocks of one history


def build_model(cfg):
    import jax.random as random

    import ginjax.geometric as geom
    import ginjax.ml as ml
    import ginjax.models as models

    D = cfg["D"]
    ks = (0, 1, 2)
    bank = equiv.filter_bank(D, Ms=(int(cfg.get("M", 3)),), ks=ks)  # side length of the conv filters (3, or 1: pointwise)
    sig_in = equiv.signature([(tuple(kp), c) for kp, c in cfg["sig_in"]])
    sig_out = equiv.signature([(tuple(kp), c) for kp, c in cfg["sig_out"]])
    key = random.PRNGKey(cfg["init_seed"])
    bias = cfg["use_bias"]
    act = cfg["activation"]
    depth = cfg["depth"]
    arch = cfg["arch"]
    cls = seq_classes()
    if arch == "conv":
        mid = geom.signature_union(sig_in, sig_out, depth)
        k1, k2 = random.split(key)
        dil = cfg.get("dilation", 1)
        return cls["ConvSeq"]([
            ml.ConvContract(sig_in, mid, bank, bias, key=k1),
            ml.ConvContract(mid, sig_out, bank, bias, rhs_dilation=(dil,) * D, key=k2),
        ])
    if arch == "groupavg":
        # symmetrisation wrapper in inference mode around a NON-equivariant trainable layer (filters off the
        # invariant subspace): equivariant exactly as long as the wrapper keeps averaging
        import jax.numpy as jnp

        nrng = np.random.Generator(np.random.PCG64(cfg["init_seed"]))
        noisy = geom.MultiImage({kp: v + jnp.asarray(0.5 * nrng.normal(size=v.shape), dtype=v.dtype)
                                 for kp, v in bank.items()}, bank.D, bank.is_torus)
        inner = cls["ConvSeq"]([ml.ConvContract(sig_in, sig_out, noisy, bias, key=key)])
        return models.GroupAverage(inner, geom.make_all_operators(D), always_average=False, inference=True)
    if arch == "block":
        mid = geom.signature_union(sig_in, sig_out, depth)
        k1, k2, k3 = random.split(key, 3)
        return cls["BlockSeq"]([
            models.ConvBlock(D, sig_in, mid, bias, act, True, bank, use_group_norm=True, key=k1),
            models.ConvBlock(D, mid, mid, bias, act, True, bank, use_group_norm=True,
                             preactivation_order=cfg["preact"], key=k2),
            models.ConvBlock(D, mid, sig_out, bias, None, True, bank, use_group_norm=cfg["group_norm"], key=k3),
        ])
    if arch == "unet":
        up = equiv.filter_bank(D, Ms=(2,), ks=ks)
        return models.UNet(D, sig_in, sig_out, depth=depth, num_downsamples=cfg["levels"], num_conv=1,
                           use_bias=bias, activation_f=act, conv_filters=bank, upsample_filters=up,
                           use_group_norm=cfg["group_norm"], key=key)
    if arch == "resnet":
        return models.ResNet(D, sig_in, sig_out, depth=depth, num_blocks=cfg["levels"], num_conv=1,
                             use_bias=bias, activation_f=act, conv_filters=bank,
                             use_group_norm=cfg["group_norm"], preactivation_order=cfg["preact"], key=key)
    if arch == "dilresnet":
        return models.DilResNet(D, sig_in, sig_out, depth=depth, num_blocks=1, use_bias=bias,
                                activation_f=act, conv_filters=bank, use_group_norm=cfg["group_norm"], key=key)
    raise ValueError(arch)


def build_optimizer(cfg):
    """returns (optax transformation, per-step factor of a zero-gradient leaf as a Fraction)"""
    import optax

    name, lr, wd = cfg["optimizer"], cfg["lr"], cfg["weight_decay"]
    if name == "sgd":
        return optax.sgd(lr), Fraction(1)
    if name == "sgd-momentum":
        return optax.sgd(lr, momentum=0.9), Fraction(1)
    if name == "adam":
        return optax.adam(lr), Fraction(1)
    if name == "adamw":
        return optax.adamw(lr, weight_decay=wd), 1 - Fraction(lr) * Fraction(wd)
    if name == "sgd-decay":  # coupled decay: g + wd*p, then -lr
        return optax.chain(optax.add_decayed_weights(wd), optax.sgd(lr)), 1 - Fraction(lr) * Fraction(wd)
    raise ValueError(name)


def exact_bank(leaves):
    """float32 leaves as exact rationals for the driver"""
    return [[jrat(Fraction(float(v))) for v in a.reshape(-1)] for _, a in leaves]


def execute(ctx: Ctx, cfg: dict) -> dict:
    """one history: build, train, observe.  Pure function of cfg (all seeds inside)."""
    import jax.random as random
    import optax  # noqa: F401

    import ginjax.ml as ml

    t0 = time.time()
    rng = np.random.Generator(np.random.PCG64(cfg["run_seed"]))
    D = cfg["D"]
    spatial = tuple(cfg["spatial"])
    torus = tuple(cfg["is_torus"])
    sig_in = equiv.signature([(tuple(kp), c) for kp, c in cfg["sig_in"]])
    sig_out = equiv.signature([(tuple(kp), c) for kp, c in cfg["sig_out"]])
    model0 = build_model(cfg)
    n = cfg["n_train"]
    X = equiv.to_multi_image(equiv.random_blocks(rng, sig_in, D, spatial, lead=(n,)), D, torus)
    Y = equiv.to_multi_image(equiv.random_blocks(rng, sig_out, D, spatial, lead=(n,)), D, torus)
    kw = {}
    if cfg["validation"]:
        nv = max(2, cfg["batch"])  # map_loss_in_batches needs at least one full batch
        kw["validation_X"] = equiv.to_multi_image(equiv.random_blocks(rng, sig_in, D, spatial, lead=(nv,)), D, torus)
        kw["validation_Y"] = equiv.to_multi_image(equiv.random_blocks(rng, sig_out, D, spatial, lead=(nv,)), D, torus)
    optimizer, step_factor = build_optimizer(cfg)
    batches = n // cfg["batch"]
    calls = {"n": 0}
    if cfg["stop"] == "epochs":
        cond = ml.EpochStop(epochs=cfg["epochs"], verbose=0)
    elif cfg["stop"] == "keep":
        # a user-defined condition that keeps the model of an EARLIER epoch as best_model
        class KeepEpoch(ml.EpochStop):
            def stop(self, model, current_epoch, train_loss, val_loss, epoch_time):
                if current_epoch == cfg["keep_epoch"]:
                    self.best_model = model
                return current_epoch >= self.epochs

        cond = KeepEpoch(epochs=cfg["epochs"], verbose=0)
    elif cfg["stop"] == "reused":
        # ONE TrainLoss object used for two consecutive ml.train calls: first a non-equivariant baseline (the
        # model with noise on every array leaf, filters included), then -- below -- the equivariant model with a
        # loss that never beats the baseline's.  What the second call returns must come from ITS OWN history.
        import equinox as eqx
        import jax
        import jax.numpy as jnp

        cond = ml.TrainLoss(patience=0, min_delta=0.0)
        orig = cond.stop

        def capped(*a, **k):
            calls["n"] += 1
            r = orig(*a, **k)
            return bool(r) or calls["n"] > cfg["epochs"]

        cond.stop = capped
        nrng = np.random.Generator(np.random.PCG64(cfg["run_seed"] + 17))
        baseline = jax.tree_util.tree_map(
            lambda a: a + jnp.asarray(0.3 * nrng.normal(size=a.shape), dtype=a.dtype) if eqx.is_inexact_array(a) else a,
            model0)
        ml.train(X, Y, map_and_loss, baseline, random.PRNGKey(cfg["train_seed"] + 1), cond, cfg["batch"], optimizer, **kw)
        calls["n"] = 0
    else:  # patience on the validation loss; hard cap so that the run is bounded whatever happens
        cond = ml.ValLoss(patience=cfg["patience"], min_delta=0.0)
        orig = cond.stop

        def capped(*a, **k):
            calls["n"] += 1
            r = orig(*a, **k)
            return bool(r) or calls["n"] > cfg["epochs"]

        cond.stop = capped
    loss_f = map_and_loss if cfg["loss"] == "smse" else make_pull_loss(model0, cfg["run_seed"] + 1, 0.05)
    if cfg["stop"] == "reused":
        def loss_f(model, x, y, aux_data):  # same gradients, a value the baseline's best loss always beats
            v, aux = map_and_loss(model, x, y, aux_data)
            return v + 1.0e6, aux
    trained, _, train_loss, val_loss = ml.train(
        X, Y, loss_f, model0, random.PRNGKey(cfg["train_seed"]), cond, cfg["batch"], optimizer, **kw
    )
    t_train = time.time() - t0
    obs = {"train_s": round(t_train, 1), "steps_per_epoch": batches,
           "train_loss": None if train_loss is None else float(train_loss),
           "val_loss": None if val_loss is None else float(val_loss)}

    # ---- static structure
    obs["static_diff"] = equiv.same_static(equiv.static_fingerprint(model0), equiv.static_fingerprint(trained))

    # ---- bank
    b0, b1 = equiv.bank_leaves(model0), equiv.bank_leaves(trained)
    obs["bank_leaves"] = len(b0)
    obs["bank_problem"] = None
    if [p for p, _ in b0] != [p for p, _ in b1] or any(a.shape != b.shape for (_, a), (_, b) in zip(b0, b1)):
        obs["bank_problem"] = "bank leaves of the returned model do not match the initial ones (paths/shapes)"
        c_est = None
    else:
        v0 = np.concatenate([a.reshape(-1) for _, a in b0]).astype(np.float64)
        v1 = np.concatenate([a.reshape(-1) for _, a in b1]).astype(np.float64)
        c_est = float(v1 @ v0 / (v0 @ v0)) if v0 @ v0 > 0 else 1.0
        top = float(np.max(np.abs(v0))) or 1.0
        dev = float(np.max(np.abs(v1 - c_est * v0))) / top
        obs["bank_factor"] = c_est
        obs["bank_dev"] = dev
        if not np.all(np.isfinite(v1)):
            obs["bank_problem"] = "non-finite filter-bank leaf"
        elif dev > BANK_TOL or abs(c_est) < 1e-6:
            per_leaf = []
            for (p, a), (_, b) in zip(b0, b1):
                a64, b64 = a.reshape(-1).astype(np.float64), b.reshape(-1).astype(np.float64)
                cl = float(b64 @ a64 / (a64 @ a64)) if a64 @ a64 > 0 else 1.0
                per_leaf.append((p, round(cl, 7), float(np.max(np.abs(b64 - cl * a64)))))
            per_leaf.sort(key=lambda t: -t[2])
            obs["bank_problem"] = (
                f"filter bank is not a common non-zero multiple of its initial value: best common factor "
                f"{c_est:.7f} leaves a deviation of {dev:.3e} (relative); worst leaves {per_leaf[:3]}"
            )
    # ---- the Lean model's prediction for the factor
    obs["model_factor_ok"] = None
    if c_est is not None and obs["bank_problem"] is None:
        epochs_run = max(calls["n"] - 1, 0) if cfg["stop"] == "val" else cfg["epochs"]
        if step_factor == 1:
            # exact: the driver decides "common rescaling" on the exact rational values
            r = ctx.driver.call("c09.common_factor", bank0=exact_bank(b0), bank1=exact_bank(b1))
            obs["model_factor"] = [str(unrat(r["factor"]))] if r["common"] else []
            obs["model_factor_ok"] = bool(r["common"]) and unrat(r["factor"]) == 1
        else:
            # the returned model is the model of SOME epoch boundary (best_model)
            cands = []
            first = [jrat(Fraction(float(v))) for v in b0[0][1].reshape(-1)]
            # EpochStop keeps the last model; a patience condition keeps the model of SOME epoch boundary
            for e in ([cfg["epochs"]] if cfg["stop"] == "epochs" else range(0, epochs_run + 1)):
                r = ctx.driver.call("c09.bank", bank=[first], factors=[jrat(step_factor)] * (e * batches))
                cands.append((e, unrat(r["factor"]), [unrat(v) for v in r["bank"][0]]))
            ok = False
            for e, f, pred in cands:
                predv = np.array([float(v) for v in pred])
                got = b1[0][1].reshape(-1).astype(np.float64)
                if abs(c_est - float(f)) <= BANK_TOL * abs(float(f)) and np.max(np.abs(predv - got)) <= BANK_TOL * top:
                    ok = True
                    obs["returned_epoch"] = e
            obs["model_factor"] = [f"{float(f):.7f}" for _, f, _ in cands]
            obs["model_factor_ok"] = ok
    # ---- parameters
    p0, p1 = equiv.param_leaves(model0), equiv.param_leaves(trained)
    moved = sum(1 for (_, a), (_, b) in zip(p0, p1) if a.shape == b.shape and not np.array_equal(a, b))
    obs["params"] = len(p0)
    obs["params_moved"] = moved
    obs["params_finite"] = bool(all(np.all(np.isfinite(b)) for _, b in p1))

    # ---- oracle: equivariance of the returned model on fresh inputs
    gs = equiv.group(D) if D == 2 else equiv.group_subset(D, rng, cfg["n_group"])
    gs = [g for g in gs if not np.array_equal(g, np.eye(D, dtype=np.int64))]
    # verdict per input: defect against the conditioning-aware tolerance of that input
    worst_rep, worst_margin = None, -1.0
    obs["inputs"] = []
    obs["premise_ok"], obs["ill_conditioned"] = True, False
    for kind in cfg["input_kinds"]:
        x = equiv.random_blocks(rng, sig_in, D, spatial, kind=kind)
        d0, _, _ = equiv.worst_defect(model0, x, D, torus, gs)
        tol0 = equiv.tolerance(equiv.noise_floor(model0, x, D, torus, rng))
        d1, rep, _ = equiv.worst_defect(trained, x, D, torus, gs)
        eta1 = equiv.noise_floor(trained, x, D, torus, rng)
        tol1 = equiv.tolerance(eta1)
        obs["inputs"].append({"kind": kind, "defect_initial": d0, "tol_initial": tol0, "defect_trained": d1,
                              "eta_trained": eta1, "tol_trained": tol1})
        if tol0 is None or d0 > tol0:
            obs["premise_ok"] = False
        if tol1 is None:
            continue
        if d1 / tol1 > worst_margin:
            worst_margin = d1 / tol1
            worst_rep = dict(rep, input_kind=kind, tol=tol1,
                             input={str(k): np.asarray(v).tolist() for k, v in x.items()})
    obs["premise_eager"] = None
    if not obs["premise_ok"]:
        # the compiled initial model is not equivariant.  Is the model AS CONSTRUCTED (called eagerly, before any
        # pytree round trip) equivariant?  Then the premise of the property holds for the object handed to ml.train
        # and what training returns is judged.
        try:
            x = equiv.random_blocks(rng, sig_in, D, spatial, kind="normal")
            d0e, _, _ = equiv.worst_defect(model0, x, D, torus, gs[:3], jit=False)
            obs["premise_eager"] = bool(d0e <= 1e-3)
            obs["defect_initial_eager"] = d0e
        except Exception as e:  # noqa: BLE001
            obs["premise_eager"] = False
            obs["defect_initial_eager"] = f"raised {type(e).__name__}"
    obs["group_elements"] = len(gs)
    obs["defect_initial"] = max(i["defect_initial"] for i in obs["inputs"])
    obs["defect_trained"] = max(i["defect_trained"] for i in obs["inputs"])
    obs["equivariant"] = worst_margin <= 1.0
    obs["ill_conditioned"] = worst_rep is None  # no input at which float32 carries a verdict
    if worst_rep is not None:
        obs["worst"] = {k: worst_rep[k] for k in ("g", "det", "per_key", "problem", "input_kind", "scale", "tol", "defect")}
        obs["worst_input"] = worst_rep["input"]
    else:
        obs["worst"], obs["worst_input"] = {"problem": "ill-conditioned"}, None
    obs["total_s"] = round(time.time() - t0, 1)
    return obs


def judge(ctx: Ctx, cfg: dict, obs: dict):
    key = ("history", cfg["arch"], cfg["sig"], cfg["optimizer"], cfg["batch"], cfg["epochs"], cfg["run_seed"])
    steps = obs["steps_per_epoch"] * cfg["epochs"]
    premise = obs["premise_ok"]
    diverged = (not obs["params_finite"]) or obs["ill_conditioned"] or "non-finite" in str(obs["worst"].get("problem"))
    nontrivial = (
        steps >= 1 and obs["params"] > 0 and obs["params_moved"] * 2 >= obs["params"]
        and not diverged and premise and obs["group_elements"] >= 3
    )
    summary = {k: obs[k] for k in obs if k not in ("worst_input",)}
    ctx.case(key, nontrivial, sample={"config": cfg, "observed": summary})
    for h in ("arch", "optimizer", "batch", "epochs", "sig", "use_bias", "validation", "stop", "D", "loss"):
        ctx.hist(h, cfg[h])
    ctx.hist("spatial", "x".join(str(s) for s in cfg["spatial"]))
    ctx.hist("steps", steps)
    ctx.hist("M", cfg.get("M", 3))
    case = {"config": cfg, "observed": summary, "replay_hint": "execute(ctx, config) in harness/props/c09.py"}
    if diverged:
        # training blew up (non-finite values, or a model so ill-conditioned that float32 carries no verdict)
        ctx.notes.setdefault("diverged_runs", []).append(cfg["name"])
        if obs["bank_problem"] and obs["params_finite"]:
            ctx.violation("oracle", "after training " + obs["bank_problem"], case)
        return
    if not premise and obs.get("premise_eager"):
        ctx.notes.setdefault("premise_only_eager", []).append(cfg["name"])
    elif not premise:
        # the initial model is not equivariant: C07's business, the premise of C09 is not met
        ctx.notes.setdefault("premise_failed", []).append({"config": cfg["name"], "defect_initial": obs["defect_initial"]})
        return
    flagged = False
    if obs["bank_problem"]:
        ctx.violation("oracle", "after training " + obs["bank_problem"], case)
        flagged = True
    if not obs["equivariant"]:
        case2 = dict(case, failing_input=obs["worst_input"])
        ctx.violation(
            "oracle",
            f"the model returned by ml.train is not equivariant: relative defect {obs['worst']['defect']:.3e} "
            f"(tolerance {obs['worst']['tol']:.1e}; initial model {obs['defect_initial']:.1e}) for g={obs['worst']['g']} det={obs['worst']['det']}, "
            f"per output type {obs['worst']['per_key']}",
            case2,
        )
        flagged = True
    if flagged:
        return
    if obs["static_diff"]:
        ctx.violation("correspondence", "static structure changed by training (model: plan is constant): "
                      + "; ".join(obs["static_diff"]), case)
    elif obs["model_factor_ok"] is False:
        ctx.violation("correspondence",
                      f"bank factor {obs.get('bank_factor')} is a common factor but not the one the Lean model "
                      f"predicts for this optimiser {obs.get('model_factor')}", case)


# ---------------------------------------------------------------------------------------------
# the D4 witness and other fixed witnesses


def d4_witness(ctx: Ctx):
    """LayerNorm / GroupNorm on pseudo-scalar blocks with every parameter off its initial value.
    On the unrepaired tree the additive bias of eqx.nn.GroupNorm breaks every det = -1 element."""
    import ginjax.ml as ml

    D = 2
    for name, pairs, groups in (
        ("LayerNorm (0,1)x2", [((0, 1), 2)], None),
        ("GroupNorm(2) (0,0)x2 (0,1)x4 (1,1)x2", [((0, 0), 2), ((0, 1), 4), ((1, 1), 2)], 2),
    ):
        sig = equiv.signature(pairs)
        rng = np.random.Generator(np.random.PCG64(904))
        layer = ml.LayerNorm(sig, D) if groups is None else ml.GroupNorm(sig, D, groups)
        moved = equiv.perturb(layer, rng, 0.5)
        x = equiv.random_blocks(rng, sig, D, (4, 4))
        gs = [g for g in equiv.group(D) if not np.array_equal(g, np.eye(D, dtype=np.int64))]
        d_init, _, _ = equiv.worst_defect(layer, x, D, True, gs)
        d_moved, rep, _ = equiv.worst_defect(moved, x, D, True, gs)
        case = {"witness": "D4", "layer": name, "perturbation": "every inexact leaf + N(0, 0.5^2), PCG64(904)",
                "defect_initial": d_init, "defect_moved": d_moved, "g": rep["g"], "det": rep["det"],
                "per_key": rep["per_key"], "input": {str(k): v.tolist() for k, v in x.items()}}
        ctx.case(("D4", name), True, sample=None)
        ctx.hist("witness", "D4")
        if d_moved > TOL:
            ctx.violation(
                "oracle",
                f"{name}: equivariant at initialisation (defect {d_init:.1e}) but not once its parameters have "
                f"moved, as after one optimiser step: defect {d_moved:.3f} for g={rep['g']} (det {rep['det']}), "
                f"per type {rep['per_key']} -- additive bias on a pseudo-scalar (D4)",
                case, key="D4-pseudoscalar-norm-bias")


def model_selfcheck(ctx: Ctx, n: int):
    """the formulas the harness uses to read the Lean model (common factor = product of the steps,
    bank = factor * initial, best-model selection = a prefix) against the driver, exactly"""
    rng = ctx.rng
    for i in range(n):
        leaves = [[Fraction(int(v), int(rng.integers(1, 4))) for v in rng.integers(-3, 4, size=int(rng.integers(1, 5)))]
                  for _ in range(int(rng.integers(1, 4)))]
        cs = [Fraction(int(a), int(b)) for a, b in zip(rng.integers(1, 6, size=4), rng.integers(1, 6, size=4))]
        cs = cs[: int(rng.integers(0, 5))]
        ups = [{"params": [int(j)], "c": jrat(c)} for j, c in enumerate(cs, 1)]
        choose = int(rng.integers(0, len(cs) + 2))
        r = ctx.driver.call("c09.train", plan="p", params=[0], bank=[[jrat(v) for v in l] for l in leaves],
                            updates=ups, choose=choose)
        prod = Fraction(1)
        for c in cs:
            prod *= c
        want = [[prod * v for v in l] for l in leaves]
        got = [[unrat(v) for v in l] for l in r["final"]["bank"]]
        k = min(choose, len(cs))
        pk = Fraction(1)
        for c in cs[:k]:
            pk *= c
        ret = [[unrat(v) for v in l] for l in r["returned"]["bank"]]
        ok = (got == want and unrat(r["factor"]) == prod and r["final"]["plan"] == "p"
              and ret == [[pk * v for v in l] for l in leaves]
              and [unrat(v) for v in r["returned"]["params"]] == [Fraction(k)]
              and r["history_len"] == len(cs) + 1)
        r2 = ctx.driver.call("c09.common_factor", bank0=[[jrat(v) for v in l] for l in leaves],
                             bank1=[[jrat(v) for v in l] for l in want])
        nz = any(v != 0 for l in leaves for v in l)
        ok = ok and r2["common"] and (unrat(r2["factor"]) == (prod if nz else 1))
        ctx.case(("selfcheck", i, str(leaves), str(cs)), False)
        ctx.hist("witness", "driver-selfcheck")
        if not ok:
            ctx.violation("correspondence", "harness reading of the Lean model (train/totalFactor/trainReturn) "
                          "disagrees with the driver", {"leaves": str(leaves), "factors": str(cs), "driver": r, "cf": r2})
    try:
        ctx.driver.call("c09.bank", bank=[[1]], factors=[0])
        ctx.violation("correspondence", "driver accepted a zero bank factor", {})
    except Exception as e:  # DriverReject expected
        if type(e).__name__ != "DriverReject":
            raise


# ---------------------------------------------------------------------------------------------
# the plan of histories


def base_cfg(rng, **over):
    cfg = {
        "D": 2, "spatial": [4, 4], "is_torus": [True, True], "depth": 2, "levels": 1, "activation": "gelu",
        "use_bias": "auto", "group_norm": True, "preact": False, "n_train": 4, "batch": 2, "epochs": 2,
        "validation": False, "stop": "epochs", "patience": 0, "keep_epoch": 0, "lr": 0.02, "weight_decay": 0.2,
        "input_kinds": ["normal", "normal"], "n_group": 7, "dilation": 1, "loss": "smse", "M": 3,
    }
    cfg.update(over)
    if cfg["n_train"] is None:  # exactly one optimiser step per epoch (the pulling loss is taken for one step)
        cfg["n_train"] = cfg["batch"]
    sigs = SIGS3 if cfg["D"] == 3 else (SIGS2_CONV if cfg["arch"] == "conv" else SIGS2)
    if cfg["M"] == 1 and cfg["D"] == 2:
        sigs = SIGS2_M1
    if "sig" not in cfg:
        names = sorted(sigs)
        cfg["sig"] = names[int(rng.integers(len(names)))]
    si, so = sigs[cfg["sig"]]
    cfg["sig_in"] = [[list(kp), c] for kp, c in si]
    cfg["sig_out"] = [[list(kp), c] for kp, c in so]
    for s in ("init_seed", "train_seed", "run_seed"):
        cfg.setdefault(s, int(rng.integers(2**31 - 1)))
    cfg["name"] = f"{cfg['arch']}/{cfg['sig']}/{cfg['optimizer']}/b{cfg['batch']}e{cfg['epochs']}" + (
        "" if cfg["loss"] == "smse" else "/" + cfg["loss"]) + ("" if cfg["M"] == 3 else f"/M{cfg['M']}")
    return cfg


def plan(ctx: Ctx) -> list:
    rng = ctx.rng
    bias_modes = ["auto", "mean", False] + ([True, "scalar"] if ALL_BIAS else [])
    acts = ["gelu", "relu", "tanh"]

    def pick(lst):
        return lst[int(rng.integers(len(lst)))]

    def lr_for(opt, arch_small=True):
        return {"sgd": pick([0.02, 0.05]) if arch_small else pick([0.01, 0.02]), "sgd-momentum": 0.01, "adam": pick([0.01, 0.03]),
                "adamw": pick([0.01, 0.03]), "sgd-decay": 0.02}[opt]

    big = ["unet", "resnet", "dilresnet"]
    opts3 = ["sgd", "adam", "adamw"]
    out = []
    if ctx.tier == "quick":
        order = [opts3[i] for i in rng.permutation(3)]
        archs = ["conv", "block", big[(ctx.seed + int(rng.integers(3))) % 3]]
        for arch, opt in zip(archs, order):
            kw = dict(
                arch=arch, optimizer=opt, lr=lr_for(opt, arch in ('conv', 'block')), weight_decay=pick([0.1, 0.3]),
                batch=int(rng.integers(1, 5)), epochs=int(rng.integers(1, 4)) if arch != archs[2] else int(rng.integers(1, 3)),
                validation=bool(rng.integers(2)), use_bias=pick(bias_modes), activation=pick(acts),
                preact=bool(rng.integers(2)), group_norm=True,
            )
            if arch == "block":  # normalisation of a pseudo-scalar inside a trained model (D4 path)
                kw["sig"] = "s-v>s-v-ps"
            out.append(base_cfg(rng, **kw))
        # one history with the pulling loss: every parameter ends far from its initial value
        out.append(base_cfg(rng, arch=["block", "resnet", "unet"][ctx.seed % 3], optimizer="sgd", lr=0.5,
                            loss="smse+pull", batch=int(rng.integers(2, 5)), epochs=1, n_train=None, sig="s-v>s-v-ps",
                            use_bias=pick(bias_modes[:2]), activation=pick(acts), preact=bool(rng.integers(2))))
        out.append(base_cfg(rng, arch=["resnet", "block"][ctx.seed % 2], optimizer="sgd", lr=0.5,
                            loss="smse+pull", batch=int(rng.integers(2, 5)), epochs=1, n_train=None, sig="s-ps>s-ps",
                            use_bias=pick(bias_modes[:2]), activation=pick(acts), preact=bool(rng.integers(2))))
        out.append(base_cfg(rng, arch="conv", optimizer=pick(["sgd", "adam"]), lr=0.02, batch=2, epochs=2, sig="s-v>v-s",
                            use_bias=pick(bias_modes), depth=pick([1, 2, 3])))
        out.append(base_cfg(rng, arch=["conv", "block"][ctx.seed % 2], optimizer="sgd", lr=0.02, batch=2, epochs=2,
                            stop="reused", sig=pick(["s-v>v-s", "s-v>s-v-ps"]), use_bias=pick(bias_modes)))
        out.append(base_cfg(rng, arch="groupavg", optimizer=pick(["sgd", "adam"]), lr=0.02, batch=2, epochs=1,
                            sig=pick(["s-v>v-s", "s-ps>v"]), use_bias=pick(bias_modes), input_kinds=["normal"]))
        # one history (2 optimiser steps) on the bank of side length 1: pointwise convolutions
        out.append(base_cfg(rng, arch=["block", "conv"][ctx.seed % 2], M=1, optimizer=pick(["adam", "adamw", "sgd"]),
                            lr=0.03, weight_decay=0.2, batch=2, epochs=1, n_train=4, use_bias=pick(bias_modes),
                            activation=pick(acts), is_torus=pick([[True, True], [False, False]])))
        return out
    # thorough: 3 optimisers x 5 architectures, then variations
    for arch in ["conv", "block", "unet", "resnet", "dilresnet"]:
        for opt in opts3:
            out.append(base_cfg(
                rng, arch=arch, optimizer=opt, lr=lr_for(opt, arch in ('conv', 'block')), weight_decay=pick([0.05, 0.2, 0.5]),
                batch=int(rng.integers(1, 5)), epochs=int(rng.integers(1, 4)) if arch in ("conv", "block") else int(rng.integers(1, 3)),
                validation=bool(rng.integers(2)), use_bias=pick(bias_modes), activation=pick(acts),
                preact=bool(rng.integers(2)), group_norm=bool(rng.integers(4) > 0),
                depth=pick([2, 3]) if arch in ("conv", "block", "resnet") else 2,
                spatial=[8, 8] if (arch in ("conv", "unet") and rng.integers(2)) else [4, 4],
                is_torus=pick([[True, True], [False, False], [True, True]]),
            ))
    extra = [
        dict(arch="conv", optimizer="sgd-decay", lr=0.02, weight_decay=0.5, batch=3, epochs=3, n_train=6, dilation=2),
        dict(arch="conv", optimizer="sgd-momentum", lr=0.01, batch=1, epochs=2, spatial=[4, 6], is_torus=[True, False]),
        dict(arch="resnet", optimizer="adamw", lr=0.02, weight_decay=0.3, batch=2, epochs=2, spatial=[4, 6],
             is_torus=[False, True], levels=2),
        dict(arch="block", optimizer="adamw", lr=0.03, weight_decay=0.3, batch=2, epochs=4, n_train=4,
             validation=True, stop="val", patience=0, sig="s-v>s-v-ps"),
        dict(arch="conv", optimizer="adamw", lr=0.03, weight_decay=0.3, batch=2, epochs=3, stop="keep", keep_epoch=1),
        dict(arch="unet", optimizer="adamw", lr=0.03, weight_decay=0.1, batch=4, epochs=3, sig="s-v>s-v-ps",
             validation=True, depth=2),
        dict(arch="unet", optimizer="adam", lr=0.02, batch=1, epochs=1, spatial=[8, 8], levels=2, sig="v-ps>v-ps"),
        dict(arch="resnet", optimizer="adam", lr=0.03, batch=2, epochs=3, sig="s-ps>s-ps"),
        dict(arch="unet", optimizer="adamw", lr=0.03, weight_decay=0.2, batch=2, epochs=2, sig="s-ps>s-ps", spatial=[8, 8]),
        dict(arch="dilresnet", optimizer="sgd", lr=0.02, batch=2, epochs=1, sig="pv-s>ps-v", is_torus=[False, False]),
        dict(arch="block", optimizer="adam", lr=0.03, batch=1, epochs=3, preact=True, sig="v-ps>v-ps", use_bias="mean"),
        dict(arch="conv", optimizer="adamw", lr=0.05, weight_decay=0.5, batch=2, epochs=3, sig="s-v>m-pv", validation=True,
             stop="val", patience=1),
        dict(arch="conv", optimizer="adam", lr=0.02, batch=2, epochs=2, sig="s-v>v-s", depth=2),
        dict(arch="resnet", optimizer="sgd", lr=0.02, batch=2, epochs=2, sig="s-v>v-s"),
        dict(arch="unet", optimizer="adamw", lr=0.02, weight_decay=0.2, batch=2, epochs=1, sig="s-v>v-s", spatial=[8, 8]),
        dict(arch="groupavg", optimizer="adam", lr=0.02, batch=2, epochs=2, sig="s-v>v-s"),
        dict(arch="groupavg", optimizer="adamw", lr=0.02, weight_decay=0.2, batch=1, epochs=1, sig="v-ps>v-ps", validation=True),
        dict(arch="conv", optimizer="sgd", lr=0.02, batch=2, epochs=2, stop="reused", sig="s-v>v-s"),
        dict(arch="block", optimizer="sgd", lr=0.02, batch=2, epochs=3, stop="reused", sig="s-v>s-v-ps"),
        dict(arch="resnet", optimizer="sgd", lr=0.02, batch=1, epochs=2, stop="reused", sig="s-ps>s-ps"),
        dict(arch="conv", optimizer="adamw", lr=0.02, weight_decay=0.2, batch=2, epochs=2, D=3, spatial=[3, 3, 3],
             is_torus=[True, True, True], n_train=2, input_kinds=["normal"], n_group=7),
    ]
    for arch in ["conv", "block", "unet", "resnet", "dilresnet"]:
        extra.append(dict(arch=arch, optimizer="sgd", lr=0.5, loss="smse+pull", batch=int(rng.integers(1, 5)), epochs=1,
                          n_train=None, use_bias=pick(bias_modes[:2]), activation=pick(acts)))
    for e in extra:
        out.append(base_cfg(rng, **e))
    # histories (2 optimiser steps each) on the bank of side length 1: pointwise convolutions
    for arch, opt, sig, torus in (("block", "adam", "s-v-pv>s-v-pv", [True, True]),
                                  ("conv", "adamw", "s-v>s-pv", [False, False]),
                                  ("block", "sgd", "s-v>s-pv", [True, False]),
                                  ("conv", "sgd-momentum", "s-v-pv>s-v-pv", [True, True])):
        out.append(base_cfg(rng, arch=arch, M=1, optimizer=opt, lr=0.03, weight_decay=0.2, batch=2, epochs=1, n_train=4,
                            sig=sig, is_torus=torus, spatial=[4, 6] if arch == "conv" else [4, 4],
                            use_bias=pick(bias_modes), activation=pick(acts)))
    return out


def n_maps() -> int:
    try:
        with open("/proc/self/maps") as f:
            return sum(1 for _ in f)
    except OSError:
        return -1


def release_compiled():
    """every history compiles its own programs; dropping them keeps the process far below the
    kernel's per-process mapping limit (the XLA CPU JIT maps a few sections per executable)"""
    import gc

    import equinox as eqx
    import jax

    equiv._FWD = None
    eqx.clear_caches()
    jax.clear_caches()
    gc.collect()


def run_histories(ctx: Ctx, cfgs):
    from common import log

    for cfg in cfgs:
        obs = execute(ctx, cfg)
        log(f"[C09] {cfg['name']}: train {obs['train_s']}s total {obs['total_s']}s steps/epoch {obs['steps_per_epoch']} "
            f"factor {obs.get('bank_factor')} moved {obs['params_moved']}/{obs['params']} "
            f"defect init {obs['defect_initial']:.1e} trained {obs['defect_trained']:.1e} maps {n_maps()}")
        judge(ctx, cfg, obs)
        release_compiled()


def set_texts(ctx: Ctx):
    ctx.rule = (
        "one case = one real ml.train history (architecture x signature incl. pseudo-types x optimiser in "
        "{sgd, adam, adamw+decay (+ sgd-momentum, sgd with coupled decay in thorough)} x batch size 1..4 x 1-4 epochs x "
        "with/without validation data x bias mode x activation; EpochStop, ValLoss, a user-defined best-model "
        "selection, or ONE TrainLoss object reused for two consecutive ml.train calls (a non-equivariant baseline first, "
        "whose loss the second call never beats); one history per run on a signature without pseudo-types (complete "
        "filter table, equal channel counts, hidden signature listing the vector first); one history per run whose model is "
        "the group-averaging wrapper in inference mode around a non-equivariant layer; one history per run (four in thorough) of 2 optimiser steps whose conv filters are the bank of side length M = 1 (pointwise: delta, Kronecker delta, Levi-Civita), all others M = 3; smse loss, in one history per tier and architecture plus a quadratic pull of all parameters "
        "towards generic far-away values), observed "
        "at the returned model: static structure, filter-bank leaves, parameter leaves, and model(g.x) = g.model(x) "
        "for all 7 non-identity g of B_2 (7 seeded elements of B_3 incl. a reflection and an axis swap for the d=3 run) "
        "on 2 fresh generic inputs. A history is non-trivial when at least one optimiser step was taken, at least half "
        "of the parameter leaves changed, all values stayed finite and the initial model was equivariant (defect <= 1e-3). "
        "Plus the fixed D4 witnesses (normalisation layers on pseudo-scalars with moved parameters) and exact "
        "driver self-checks (not counted as non-trivial)."
    )
    ctx.assumptions = [
        "float32: equivariance is accepted up to a defect of 1e-3 relative to the output scale (measured 1e-7..1e-4 "
        "on equivariant models, 1e-2..1 on broken ones), raised to 20x the measured amplification of 2-ulp input noise "
        "for ill-conditioned trained models (no verdict beyond 1e-2: counted as diverged); bank factor up to 1e-5 relative",
        "inputs are generic (no ties of pixel norms inside a pooling patch), NaN/inf excluded",
        "autodiff, stop_gradient and the optax update rules are modelled by the update shape "
        "(new parameters, one common bank factor), not verified; the runs look for exactly that shape",
        "C07 (equivariance for every parameter value given an invariant bank) enters trained_equivariant as hypothesis hC07, discharged by Properties/C07.lean (hC07_discharged)",
    ]
    ctx.trusted_extra = [
        "harness/refs.py reference group action (diffed against the Lean spec by the C02 check)",
        "optax / equinox / jax pmap+vmap as used by ml.train (exercised, not modelled)",
    ]


def run(ctx: Ctx):
    set_texts(ctx)
    ctx.max_samples = 8
    model_selfcheck(ctx, 10 if ctx.tier == "quick" else 40)
    d4_witness(ctx)
    run_histories(ctx, plan(ctx))
    ctx.notes["all_bias_modes"] = ALL_BIAS


def replay(ctx: Ctx, rp: dict):
    """re-execute the history (or witness) stored in a replay file"""
    set_texts(ctx)
    case = rp.get("case", {})
    if case.get("witness") == "D4":
        d4_witness(ctx)
    elif "config" in case:
        run_histories(ctx, [case["config"]])
    else:
        run(ctx)
