"""C13 - re-layouts and serialisations are lossless round trips.

correspondence: every re-layout method of the real `MultiImage` (to_vector/from_vector,
  to_scalar_multi_image/from_scalar_multi_image, concat/concat_inverse, expand/combine_axes,
  reshape_pmap/merge_axes, to_images/from_images, copy, pytree flatten/unflatten) is run on
  position-encoded integer blocks and compared exactly, block by block (by key), with the Lean
  model (driver ops c13.*) - single operations and every step of the chains below.
oracle: the property's own sentence on the real code: each inverse pair returns exactly what was
  put in (by key, plus D and is_torus); chains of operations that compose to the identity by
  construction; jit / vmap / tree_flatten identity round trips; copy.
save/load: (a) real models are saved to a temporary file outside /repo and /verif, loaded into a
  differently initialised model of the same structure and compared bit for bit (oracle);
  (b) `ml.save` / `ml.load` against the Lean model of the equinox leaf serialisation
  (Model/C13Save.lean, theorems in Properties/C13Save.lean): the records of the written file and the
  loaded pytree (or the rejection) are compared exactly on small modules with mixed leaves and on
  templates that differ in shape / dtype / leaf type / leaf count / field order.
"""
from __future__ import annotations

import os
import tempfile
import time

import numpy as np

from common import Ctx, DriverReject

PRIMES = [2, 3, 5, 7]


# --------------------------------------------------------------------------------------------
# conversions


def mi_to_json(m) -> dict:
    return {
        "D": int(m.D),
        "is_torus": [bool(b) for b in m.is_torus],
        "data": [
            {"k": int(k), "p": int(p), "block": arr_to_json(blk)} for (k, p), blk in m.items()
        ],
    }


def arr_to_json(a) -> dict:
    a = np.asarray(a)
    flat = a.reshape(-1)
    ints = np.rint(flat).astype(np.int64)
    if not np.array_equal(ints.astype(flat.dtype), flat):
        raise ValueError("non-integer value in a block")
    return {"shape": [int(s) for s in a.shape], "data": [int(v) for v in ints]}


def img_to_json(g) -> dict:
    return {
        "D": int(g.D),
        "is_torus": [bool(b) for b in g.is_torus],
        "parity": int(g.parity),
        "data": arr_to_json(g.data),
    }


def json_blocks(j: dict) -> dict:
    """model multi image -> {(k,p): (shape, data)} (dict order dropped: compared by key)"""
    return {(e["k"], e["p"]): (list(e["block"]["shape"]), list(e["block"]["data"])) for e in j["data"]}


def canon_mi(j: dict):
    return (j["D"], list(j["is_torus"]), json_blocks(j))


def same_mi(a: dict, b: dict) -> bool:
    return canon_mi(a) == canon_mi(b)


def describe_diff(a: dict, b: dict) -> str:
    ca, cb = canon_mi(a), canon_mi(b)
    if ca[0] != cb[0]:
        return f"D {ca[0]} vs {cb[0]}"
    if ca[1] != cb[1]:
        return f"is_torus {ca[1]} vs {cb[1]}"
    if set(ca[2]) != set(cb[2]):
        return f"keys {sorted(ca[2])} vs {sorted(cb[2])}"
    for k in ca[2]:
        if ca[2][k][0] != cb[2][k][0]:
            return f"shape of {k}: {ca[2][k][0]} vs {cb[2][k][0]}"
        if ca[2][k][1] != cb[2][k][1]:
            n = sum(1 for x, y in zip(ca[2][k][1], cb[2][k][1]) if x != y)
            return f"values of {k}: {n} entries differ"
    return "equal"


def small(j, limit=400):
    """keep replay files readable: drop data of big arrays"""
    if isinstance(j, dict):
        if set(j.keys()) == {"shape", "data"} and len(j["data"]) > limit:
            return {"shape": j["shape"], "data": f"<{len(j['data'])} position-encoded values>"}
        return {k: small(v, limit) for k, v in j.items()}
    if isinstance(j, list):
        return [small(v, limit) for v in j]
    return j


# --------------------------------------------------------------------------------------------
# generators


def all_keys(d):
    return [(0, 0), (0, 1)] if d == 1 else [(k, p) for k in range(4) for p in (0, 1)]


def gen_config(ctx: Ctx, d=None, n_lead=None, max_elems=3000):
    """signature (any subset/order of types), spatial dims, leading shape; sizes pairwise distinct
    where possible"""
    rng = ctx.rng
    for _ in range(200):
        dd = int(rng.choice([1, 2, 2, 2, 3, 3, 3])) if d is None else d
        nl = int(rng.integers(0, 4)) if n_lead is None else n_lead
        keys = all_keys(dd)
        ntypes = int(rng.integers(1, min(4, len(keys)) + 1))
        chosen = [keys[i] for i in rng.permutation(len(keys))[:ntypes]]
        if dd == 3 and nl >= 2:
            chosen = [(min(k, 2), p) for k, p in chosen]
            chosen = list(dict.fromkeys(chosen))
        pool = [n for n in ((2, 3, 4, 5, 6, 7) if dd < 3 else (2, 3, 4, 5)) if n != dd]
        sizes = [int(x) for x in rng.permutation(pool)]
        spatial = sizes[:dd]
        batch = sizes[dd : dd + max(nl - 1, 0)]
        if nl == 0:
            chans = [None] * len(chosen)
        else:
            chans = [int(rng.integers(1, 5)) for _ in chosen]
        tot = 0
        for (k, p), c in zip(chosen, chans):
            tot += int(np.prod(batch + ([c] if c else []) + spatial + [dd] * k))
        if tot <= max_elems:
            return dd, nl, chosen, chans, spatial, batch
    return 2, 1, [(0, 0), (1, 0)], [1, 2], [3, 4], []


def build_mi(geom, dd, chosen, chans, spatial, batch, base=0, torus=None):
    import jax.numpy as jnp

    data = {}
    off = base
    for (k, p), c in zip(chosen, chans):
        shape = tuple(batch) + ((c,) if c else ()) + tuple(spatial) + (dd,) * k
        n = int(np.prod(shape))
        data[(k, p)] = jnp.asarray(np.arange(off, off + n, dtype=np.float32).reshape(shape))
        off += n
    if torus is None:
        torus = tuple(bool((i + len(chosen)) % 2) for i in range(dd))
    return geom.MultiImage(data, dd, torus), off


# --------------------------------------------------------------------------------------------
# operations on the implementation and on the model


class Step:
    """one operation: how to run it on the real object and on the Lean model"""

    def __init__(self, name, impl, model, desc):
        self.name = name
        self.impl = impl  # real state -> real state
        self.model = model  # (driver, model state json) -> model state json
        self.desc = desc  # JSON-able description for replay


def state_json(kind, x):
    if kind == "mi":
        return mi_to_json(x)
    if kind == "vec":
        return arr_to_json(x)
    if kind == "images":
        return [img_to_json(g) for g in x]
    raise ValueError(kind)


def same_state(kind, a, b) -> bool:
    if kind == "mi":
        return same_mi(a, b)
    return a == b


class Runner:
    def __init__(self, ctx: Ctx, geom):
        self.ctx = ctx
        self.geom = geom
        self.drv = ctx.driver

    # -- unit builders: each returns (list of opening steps, list of closing steps, kind inside)
    def unit_vector(self, m):
        geom = self.geom
        tmpl_json = mi_to_json(m)
        tmpl = m
        op = Step("to_vector", lambda x: x.to_vector(),
                  lambda d, s: d.call("c13.to_vector", mi=s), {"op": "to_vector"})
        cl = Step("from_vector", lambda v: geom.MultiImage.from_vector(v, tmpl),
                  lambda d, s: d.call("c13.from_vector", vector=s, mi=tmpl_json),
                  {"op": "from_vector", "template": "the multi image before to_vector"})
        return [(op, "vec")], [(cl, "mi")]

    def unit_scalar(self, m):
        nl = m.get_n_leading()
        if nl < 1 or len({tuple(b.shape[: nl - 1]) for b in m.values()}) != 1:
            return None  # the blocks must share their batch shape (the code's own precondition)
        layout = m.get_signature()
        lj = [[int(k), int(p), int(c)] for (k, p), c in layout]
        op = Step("to_scalar_multi_image", lambda x: x.to_scalar_multi_image(),
                  lambda d, s: d.call("c13.to_scalar", mi=s), {"op": "to_scalar_multi_image"})
        cl = Step("from_scalar_multi_image", lambda x: x.from_scalar_multi_image(layout),
                  lambda d, s: d.call("c13.from_scalar", mi=s, layout=lj),
                  {"op": "from_scalar_multi_image", "layout": lj})
        return [(op, "mi")], [(cl, "mi")]

    def unit_concat(self, m, base):
        """concat with a second multi image along a random leading axis, then concat_inverse"""
        rng = self.ctx.rng
        nl = m.get_n_leading()
        axis = int(rng.integers(0, nl))
        keys_m = list(m.keys())
        pool = all_keys(m.D)
        extra = [k for k in pool if k not in keys_m]
        # b: a random non-empty mix of shared types and new types
        cand = keys_m + extra
        nb = int(rng.integers(1, min(3, len(cand)) + 1))
        bkeys = [cand[i] for i in rng.permutation(len(cand))[:nb]]
        if m.D == 3 and nl >= 2:
            bkeys = list(dict.fromkeys((min(k, 2), p) for k, p in bkeys))
        first = next(iter(m.values()))
        lead = list(first.shape[:nl])
        spatial = list(m.get_spatial_dims())
        import jax.numpy as jnp

        data = {}
        off = base
        for (k, p) in bkeys:
            l2 = list(lead)
            if (k, p) in m:
                l2 = list(m[(k, p)].shape[:nl])
            l2[axis] = int(rng.integers(1, 4))
            shape = tuple(l2) + tuple(spatial) + (m.D,) * k
            n = int(np.prod(shape))
            data[(k, p)] = jnp.asarray(np.arange(off, off + n, dtype=np.float32).reshape(shape))
            off += n
        b = self.geom.MultiImage(data, m.D, m.is_torus)
        bj = mi_to_json(b)
        sig = [[int(k), int(p), int(blk.shape[axis])] for (k, p), blk in b.items()]
        sig_t = tuple(((k, p), n) for k, p, n in sig)
        use_dict = bool(rng.integers(0, 2))
        sig_arg = {kp: n for kp, n in sig_t} if use_dict else sig_t
        holder = {}

        def close_impl(x):
            a2, b2 = x.concat_inverse(sig_arg, axis)
            holder["b_impl"] = mi_to_json(b2)
            return a2

        def close_model(d, s):
            r = d.call("c13.concat_inverse", mi=s, sig=sig, axis=axis)
            holder["b_model"] = r["b"]
            return r["a"]

        op = Step("concat", lambda x: x.concat(b, axis),
                  lambda d, s: d.call("c13.concat", mi=s, other=bj, axis=axis),
                  {"op": "concat", "axis": axis, "other": small(bj)})
        cl = Step("concat_inverse", close_impl, close_model,
                  {"op": "concat_inverse", "axis": axis, "signature": sig, "as_dict": use_dict})
        cl.check_b = (holder, bj)
        return [(op, "mi")], [(cl, "mi")], off

    def unit_expand(self, m):
        """expand(axis, size) then combine_axes / merge_axes((axis, axis+1))"""
        rng = self.ctx.rng
        nl = m.get_n_leading()
        opts = []
        for axis in range(nl):
            ext = [int(blk.shape[axis]) for blk in m.values()]
            divs = [s for s in range(1, min(ext) + 1) if all(e % s == 0 for e in ext)]
            for s in divs:
                opts.append((axis, s))
        if not opts:
            return None
        nontriv = [o for o in opts if o[1] > 1]
        pick = nontriv if (nontriv and rng.random() < 0.8) else opts
        axis, size = pick[int(rng.integers(0, len(pick)))]
        use_merge = bool(rng.integers(0, 2))
        op = Step("expand", lambda x: x.expand(axis, size),
                  lambda d, s: d.call("c13.expand", mi=s, axis=axis, size=size),
                  {"op": "expand", "axis": axis, "size": size})
        if use_merge:
            cl = Step("merge_axes", lambda x: x.merge_axes((axis, axis + 1)),
                      lambda d, s: d.call("c13.merge_axes", mi=s, axes=[axis, axis + 1]),
                      {"op": "merge_axes", "axes": [axis, axis + 1]})
        else:
            cl = Step("combine_axes", lambda x: x.combine_axes((axis, axis + 1)),
                      lambda d, s: d.call("c13.combine_axes", mi=s, axes=[axis, axis + 1]),
                      {"op": "combine_axes", "axes": [axis, axis + 1]})
        return [(op, "mi")], [(cl, "mi")]

    def unit_combine(self, m):
        """combine_axes((a, a+1)) then expand(a, size of axis a+1) (needs two leading axes)"""
        rng = self.ctx.rng
        nl = m.get_n_leading()
        opts = [a for a in range(nl - 1)
                if len({int(blk.shape[a + 1]) for blk in m.values()}) == 1]
        if not opts:
            return None
        a = opts[int(rng.integers(0, len(opts)))]
        size = int(next(iter(m.values())).shape[a + 1])
        op = Step("combine_axes", lambda x: x.combine_axes((a, a + 1)),
                  lambda d, s: d.call("c13.combine_axes", mi=s, axes=[a, a + 1]),
                  {"op": "combine_axes", "axes": [a, a + 1]})
        cl = Step("expand", lambda x: x.expand(a, size),
                  lambda d, s: d.call("c13.expand", mi=s, axis=a, size=size),
                  {"op": "expand", "axis": a, "size": size})
        return [(op, "mi")], [(cl, "mi")]

    def unit_pmap(self, m):
        """reshape_pmap(devices, axis=0) then merge_axes((0, 1)); needs a common first extent"""
        rng = self.ctx.rng
        if m.get_n_leading() < 1:
            return None
        ext = {int(blk.shape[0]) for blk in m.values()}
        if len(ext) != 1:
            return None
        L = ext.pop()
        divs = [s for s in range(1, L + 1) if L % s == 0]
        nd = divs[int(rng.integers(0, len(divs)))]
        if len(divs) > 1 and rng.random() < 0.8:
            nd = divs[int(rng.integers(1, len(divs)))]
        devices = [None] * nd
        op = Step("reshape_pmap", lambda x: x.reshape_pmap(devices, 0),
                  lambda d, s: d.call("c13.reshape_pmap", mi=s, ndev=nd, axis=0),
                  {"op": "reshape_pmap", "n_devices": nd, "axis": 0})
        cl = Step("merge_axes", lambda x: x.merge_axes((0, 1)),
                  lambda d, s: d.call("c13.merge_axes", mi=s, axes=[0, 1]),
                  {"op": "merge_axes", "axes": [0, 1]})
        return [(op, "mi")], [(cl, "mi")]

    def unit_images(self, m):
        if m.get_n_leading() != 1:
            return None
        geom = self.geom
        op = Step("to_images", lambda x: x.to_images(),
                  lambda d, s: d.call("c13.to_images", mi=s), {"op": "to_images"})
        cl = Step("from_images", lambda imgs: geom.MultiImage.from_images(imgs),
                  lambda d, s: d.call("c13.from_images", images=s, n_lead=1, axis=0),
                  {"op": "from_images", "n_lead_axes": 1, "axis": 0})
        return [(op, "images")], [(cl, "mi")]

    def unit_identity(self, m):
        """copy / jit / vmap / tree_flatten+unflatten: single steps that must be the identity"""
        import jax

        rng = self.ctx.rng
        kinds = ["copy", "jit", "tree"]
        if m.get_n_leading() >= 1 and len({int(b.shape[0]) for b in m.values()}) == 1:
            kinds.append("vmap")
        kind = kinds[int(rng.integers(0, len(kinds)))]
        if kind == "copy":
            st = Step("copy", lambda x: x.copy(), lambda d, s: d.call("c13.copy", mi=s), {"op": "copy"})
        elif kind == "jit":
            st = Step("jit", lambda x: jax.jit(lambda y: y)(x),
                      lambda d, s: d.call("c13.tree_roundtrip", mi=s), {"op": "jax.jit(lambda m: m)"})
        elif kind == "vmap":
            st = Step("vmap", lambda x: jax.vmap(lambda y: y)(x),
                      lambda d, s: d.call("c13.tree_roundtrip", mi=s), {"op": "jax.vmap(lambda m: m)"})
        else:
            def tree(x):
                leaves, treedef = jax.tree_util.tree_flatten(x)
                return jax.tree_util.tree_unflatten(treedef, leaves)

            st = Step("tree", tree, lambda d, s: d.call("c13.tree_roundtrip", mi=s),
                      {"op": "tree_flatten/tree_unflatten"})
        return [(st, "mi")], []

    # -- chain construction: nested / sequential units, at most `budget` operations
    def build_and_run(self, m0, budget, base, label):
        """Builds the chain lazily while running it (units depend on the current state).
        Returns (n_ops, ok)."""
        ctx = self.ctx
        rng = ctx.rng
        m0_json = mi_to_json(m0)
        trace = []
        state = {"impl": m0, "model": m0_json, "kind": "mi", "ok": True, "base": base}

        def do(step: Step, kind_after):
            if not state["ok"]:
                return
            trace.append(step.desc)
            try:
                new_impl = step.impl(state["impl"])
            except Exception as e:  # the real code raised on a valid input
                state["ok"] = False
                state["reported"] = True
                case = {"input": small(m0_json), "chain": list(trace), "raised": repr(e)[:300]}
                ctx.violation("oracle", f"{step.name} raised on a valid input ({label})", case)
                return
            state["impl"], state["kind"] = new_impl, kind_after
            if hasattr(step, "check_b"):
                holder, bj = step.check_b
                if not same_mi(holder["b_impl"], bj):
                    state["ok"] = False
                    state["reported"] = True
                    case = {"input": small(m0_json), "chain": list(trace),
                            "expected_b": small(bj), "got_b": small(holder["b_impl"]),
                            "diff": describe_diff(holder["b_impl"], bj)}
                    ctx.violation("oracle",
                                  "concat_inverse does not return the second operand of concat", case)
                    return
            if "mismatch" in state:
                return  # the model is no longer followed; the implementation chain is completed
            try:
                new_model = step.model(self.drv, state["model"])
            except DriverReject as e:
                state["mismatch"] = (step.name, None, f"model rejects: {e}", list(trace))
                return
            try:
                ij = state_json(kind_after, new_impl)
            except ValueError:
                state["mismatch"] = (step.name, None, "non-integer values", list(trace))
                return
            state["model"] = new_model
            if not same_state(kind_after, ij, new_model):
                state["mismatch"] = (step.name, ij, new_model, list(trace))

        def grow(budget_left, depth):
            """run units until the budget is used; returns the number of operations used"""
            used = 0
            while state["ok"] and budget_left - used >= 1:
                m = state["impl"]
                choices = ["identity"]
                if budget_left - used >= 2:
                    choices += ["vector", "expand", "combine", "pmap", "images", "concat"]
                    if m.get_n_leading() >= 1:
                        choices += ["scalar", "scalar"]
                name = choices[int(rng.integers(0, len(choices)))]
                unit = None
                if name == "identity":
                    unit = self.unit_identity(m)
                elif name == "vector":
                    unit = self.unit_vector(m)
                elif name == "scalar":
                    unit = self.unit_scalar(m)
                elif name == "expand":
                    unit = self.unit_expand(m)
                elif name == "combine":
                    unit = self.unit_combine(m)
                elif name == "pmap":
                    unit = self.unit_pmap(m)
                elif name == "images":
                    unit = self.unit_images(m)
                elif name == "concat":
                    if m.get_n_leading() >= 1:
                        r = self.unit_concat(m, state["base"])
                        unit = (r[0], r[1])
                        state["base"] = r[2]
                if unit is None:
                    if rng.random() < 0.3:
                        break
                    continue
                opens, closes = unit
                ctx.hist("unit", name)
                for st, kind in opens:
                    do(st, kind)
                used += len(opens) + len(closes)
                # nest further units inside, when the inner state is a multi image
                if state["ok"] and closes and state["kind"] == "mi" and budget_left - used >= 1 \
                        and rng.random() < 0.5:
                    used += grow(budget_left - used, depth + 1)
                for st, kind in closes:
                    do(st, kind)
                if rng.random() < 0.35:
                    break
            return used

        n_ops = grow(budget, 0)
        self.last_trace = list(trace)
        if n_ops == 0:
            return 0, True
        ctx.hist("chain_length", n_ops)
        if state.get("reported"):
            return n_ops, False
        # oracle: the composition is the identity on the real code
        try:
            fin = mi_to_json(state["impl"])
        except Exception as e:
            ctx.violation("oracle", f"result of the chain is not an integer-valued multi image ({label})",
                          {"input": small(m0_json), "chain": trace, "error": repr(e)[:300]})
            return n_ops, False
        if not same_mi(fin, m0_json):
            case = {"input": small(m0_json), "chain": trace, "result": small(fin),
                    "diff": describe_diff(fin, m0_json)}
            if "mismatch" in state:
                case["first_step_differing_from_model"] = state["mismatch"][0]
            ctx.violation("oracle",
                          f"round trip is not the identity: {describe_diff(fin, m0_json)} ({label})", case)
            return n_ops, False
        if "mismatch" in state:
            name, ij, mj, tr = state["mismatch"]
            ctx.violation("correspondence", f"{name} differs from the Lean model ({label})",
                          {"input": small(m0_json), "chain": tr, "step": name,
                           "impl": small(ij), "model": small(mj)})
            return n_ops, False
        return n_ops, True


# --------------------------------------------------------------------------------------------
# fixed-form checks


def check_pairs(ctx: Ctx, run: Runner, n_cases: int):
    """every inverse pair once per generated multi image (single operations vs the model, oracle
    on the pair)"""
    geom = run.geom
    for it in range(n_cases):
        # cycle through the corner of the quantifier: d in 1..3, 0..3 leading axes
        d = 1 + it % 3
        nl = (it // 3) % 4
        dd, nl, chosen, chans, spatial, batch = gen_config(ctx, d=d, n_lead=nl)
        m, base = build_mi(geom, dd, chosen, chans, spatial, batch)
        ctx.hist("d", dd)
        ctx.hist("n_leading", nl)
        ctx.hist("n_types", len(chosen))
        ctx.hist("max_k", max(k for k, _ in chosen))
        units = [("vector", run.unit_vector(m)), ("identity", run.unit_identity(m))]
        if nl >= 1:
            units.append(("scalar", run.unit_scalar(m)))
            r = run.unit_concat(m, base)
            units.append(("concat", (r[0], r[1])))
            units.append(("expand", run.unit_expand(m)))
            units.append(("combine", run.unit_combine(m)))
            units.append(("pmap", run.unit_pmap(m)))
            units.append(("images", run.unit_images(m)))
        for name, unit in units:
            if unit is None:
                continue
            single = Runner(ctx, geom)
            ok = run_fixed(ctx, single, m, unit, f"pair:{name}")
            nontrivial = (len(chosen) >= 2 or max(k for k, _ in chosen) >= 1)
            ctx.case(("pair", name, dd, nl, [list(c) for c in chosen], chans, spatial, batch),
                     nontrivial,
                     sample=None if not (it in (4, 11) and name in ("scalar", "concat")) else
                     {"kind": "pair", "unit": name, "D": dd, "n_leading": nl,
                             "signature": [[k, p, c] for (k, p), c in zip(chosen, chans)],
                             "spatial": spatial, "batch": batch,
                             "ops": [s.desc for s, _ in unit[0]] + [s.desc for s, _ in unit[1]],
                             "ok": ok})


def run_fixed(ctx, run: Runner, m0, unit, label):
    """run exactly this unit through the chain machinery (budget = its own length)"""
    opens, closes = unit
    seq = list(opens) + list(closes)
    ctxr = run.ctx
    m0_json = mi_to_json(m0)
    state = {"impl": m0, "model": m0_json, "kind": "mi"}
    trace = []
    for step, kind_after in seq:
        trace.append(step.desc)
        try:
            new_impl = step.impl(state["impl"])
        except Exception as e:
            ctxr.violation("oracle", f"{step.name} raised on a valid input ({label})",
                           {"input": small(m0_json), "chain": trace, "raised": repr(e)[:300]})
            return False
        try:
            new_model = step.model(run.drv, state["model"])
        except DriverReject as e:
            ctxr.violation("correspondence",
                           f"the Lean model rejects {step.name} but the implementation accepts it ({label})",
                           {"input": small(m0_json), "chain": trace, "model_rejects": str(e)})
            return False
        try:
            ij = state_json(kind_after, new_impl)
        except ValueError as e:
            ctxr.violation("oracle", f"{step.name} produced non-integer values ({label})",
                           {"input": small(m0_json), "chain": trace, "error": repr(e)})
            return False
        if hasattr(step, "check_b"):
            holder, bj = step.check_b
            if not same_mi(holder["b_impl"], bj):
                ctxr.violation("oracle", "concat_inverse does not return the second operand of concat",
                               {"input": small(m0_json), "chain": trace, "expected_b": small(bj),
                                "got_b": small(holder["b_impl"]),
                                "diff": describe_diff(holder["b_impl"], bj)})
                return False
        if not same_state(kind_after, ij, new_model):
            # disagreement with the model: is the round trip through the real code still the identity?
            rest_ok = None
            try:
                cur = new_impl
                for st2, _ in seq[len(trace):]:
                    cur = st2.impl(cur)
                rest_ok = same_mi(mi_to_json(cur), m0_json)
            except Exception:
                rest_ok = False
            case = {"input": small(m0_json), "chain": trace, "step": step.name,
                    "impl": small(ij), "model": small(new_model)}
            if rest_ok is False:
                ctxr.violation("oracle", f"{step.name} differs from its specification and the round "
                                         f"trip through it is not the identity ({label})", case)
            else:
                ctxr.violation("correspondence", f"{step.name} differs from the Lean model ({label})", case)
            return False
        state["impl"], state["model"], state["kind"] = new_impl, new_model, kind_after
    if state["kind"] == "mi":
        fin = mi_to_json(state["impl"])
        if not same_mi(fin, m0_json):
            ctxr.violation("oracle",
                           f"round trip is not the identity: {describe_diff(fin, m0_json)} ({label})",
                           {"input": small(m0_json), "chain": trace, "result": small(fin)})
            return False
    return True


def check_chains(ctx: Ctx, run: Runner, n_chains: int, max_len: int):
    geom = run.geom
    done = 0
    attempts = 0
    sampled = 0
    while done < n_chains and attempts < 3 * n_chains:
        attempts += 1
        dd, nl, chosen, chans, spatial, batch = gen_config(ctx, max_elems=1500)
        m, base = build_mi(geom, dd, chosen, chans, spatial, batch)
        budget = int(ctx.rng.integers(2, max_len + 1))
        run.last_trace = None
        n_ops, ok = run.build_and_run(m, budget, base, "chain")
        if n_ops == 0:
            continue
        done += 1
        ctx.hist("d", dd)
        ctx.hist("n_leading", nl)
        ctx.hist("n_types", len(chosen))
        nontrivial = n_ops >= 2 and (len(chosen) >= 2 or max(k for k, _ in chosen) >= 1)
        ctx.case(("chain", ctx.evaluations, dd, nl, [list(c) for c in chosen], chans, spatial, batch, n_ops),
                 nontrivial,
                 sample=({"kind": "chain", "D": dd, "n_leading": nl,
                          "signature": [[k, p, c] for (k, p), c in zip(chosen, chans)],
                          "spatial": spatial, "batch": batch, "ops": small(run.last_trace, 40), "ok": ok}
                         if (n_ops >= 3 and sampled < 3) else None))
        if n_ops >= 3:
            sampled += 1
    return done


def check_images_direction(ctx: Ctx, run: Runner, n: int):
    """to_images(from_images(imgs)) = imgs grouped by type (stable), and GeometricImage through jit"""
    import jax
    import jax.numpy as jnp

    geom = run.geom
    rng = ctx.rng
    for it in range(n):
        d = 2 + it % 2
        spatial = [int(x) for x in rng.permutation([3, 4, 5])[:d]]
        keys = all_keys(d)[:6]
        n_img = int(rng.integers(1, 7))
        imgs = []
        off = 0
        torus = tuple(bool(i % 2) for i in range(d))
        for _ in range(n_img):
            k, p = keys[int(rng.integers(0, len(keys)))]
            shape = tuple(spatial) + (d,) * k
            sz = int(np.prod(shape))
            imgs.append(geom.GeometricImage(
                jnp.asarray(np.arange(off, off + sz, dtype=np.float32).reshape(shape)), p, d, torus))
            off += sz
        ij = [img_to_json(g) for g in imgs]
        n_lead = 1 if it % 2 == 0 else int(rng.integers(1, 4))
        axis = int(rng.integers(0, n_lead))
        ctx.hist("from_images_n_lead_axes", n_lead)
        case = {"images": small(ij), "n_lead_axes": n_lead, "axis": axis}
        try:
            mi = geom.MultiImage.from_images(imgs, n_lead, axis)
            back = [img_to_json(g) for g in mi.to_images()]
        except Exception as e:
            ctx.violation("oracle", "from_images/to_images raised on valid images",
                          {**case, "raised": repr(e)[:300]})
            continue
        order = list(dict.fromkeys((g["data"]["shape"].__len__() - d, g["parity"]) for g in ij))
        want = [g for key in order for g in ij if (len(g["data"]["shape"]) - d, g["parity"]) == key]
        mj = ctx.driver.call("c13.from_images", images=ij, n_lead=n_lead, axis=axis)
        mback = ctx.driver.call("c13.to_images", mi=mj)
        types = len(order)
        ctx.case(("images", d, spatial, n_lead, axis, [(len(g["data"]["shape"]) - d, g["parity"]) for g in ij]),
                 n_img >= 2 and types >= 1,
                 sample={"kind": "images", "D": d, "spatial": spatial, "n_lead_axes": n_lead, "axis": axis,
                         "types": [[len(g["data"]["shape"]) - d, g["parity"]] for g in ij]} if it < 2 else None)
        # the property leaves the order of types free; compare grouped by type, order inside a type kept
        def grouped(lst):
            out = {}
            for g in lst:
                out.setdefault((len(g["data"]["shape"]) - d, g["parity"]), []).append(g)
            return out

        if grouped(back) != grouped(want):
            ctx.violation("oracle", "to_images(from_images(images)) is not the images grouped by type",
                          {**case, "got": small(back)})
        elif grouped(mback) != grouped(back) or not same_mi(mi_to_json(mi), mj):
            ctx.violation("correspondence", "from_images/to_images differ from the Lean model",
                          {**case, "impl": small(back), "model": small(mback)})
        # GeometricImage pytree registration
        g0 = imgs[0]
        g1 = jax.jit(lambda x: x)(g0)
        gm = ctx.driver.call("c13.gimg_tree_roundtrip", image=ij[0])
        if img_to_json(g1) != ij[0]:
            ctx.violation("oracle", "GeometricImage changes when passed through jax.jit",
                          {"image": small(ij[0]), "got": small(img_to_json(g1))})
        elif gm != ij[0]:
            ctx.violation("correspondence", "GeometricImage pytree round trip differs from the Lean model",
                          {"image": small(ij[0]), "model": small(gm)})


def check_rejects(ctx: Ctx, run: Runner):
    """malformed stream: inputs the real code refuses; the model's `…Ok` predicates should agree.
    The property says nothing about errors, so a disagreement is recorded, never a violation."""
    import jax.numpy as jnp

    geom = run.geom
    drv = ctx.driver
    m = geom.MultiImage({(0, 0): jnp.arange(6 * 4 * 5, dtype=jnp.float32).reshape(6, 4, 5),
                         (1, 0): jnp.arange(6 * 4 * 5 * 2, dtype=jnp.float32).reshape(6, 4, 5, 2)}, 2)
    mj = mi_to_json(m)
    m0 = geom.MultiImage({(0, 0): jnp.arange(20, dtype=jnp.float32).reshape(4, 5)}, 2)
    other = geom.MultiImage({(0, 0): jnp.arange(6 * 3 * 5, dtype=jnp.float32).reshape(6, 3, 5)}, 2)
    cases = [
        ("expand non-dividing", lambda: m.expand(0, 4), lambda: drv.call("c13.expand", mi=mj, axis=0, size=4)),
        ("reshape_pmap non-dividing", lambda: m.reshape_pmap([None] * 4),
         lambda: drv.call("c13.reshape_pmap", mi=mj, ndev=4, axis=0)),
        ("to_scalar without channel axis", lambda: m0.to_scalar_multi_image(),
         lambda: drv.call("c13.to_scalar", mi=mi_to_json(m0))),
        ("concat mismatching spatial", lambda: m.concat(other),
         lambda: drv.call("c13.concat", mi=mj, other=mi_to_json(other), axis=0)),
        ("from_vector short", lambda: geom.MultiImage.from_vector(jnp.arange(7, dtype=jnp.float32), m),
         lambda: drv.call("c13.from_vector", mi=mj, vector={"shape": [7], "data": list(range(7))})),
        ("combine_axes non-contiguous", lambda: m.combine_axes((0, 2)),
         lambda: drv.call("c13.combine_axes", mi=mj, axes=[0, 2])),
        ("merge_axes single", lambda: m.merge_axes((0,)), lambda: drv.call("c13.merge_axes", mi=mj, axes=[0])),
        ("concat_inverse too large", lambda: m.concat_inverse((((0, 0), 7),), 0),
         lambda: drv.call("c13.concat_inverse", mi=mj, sig=[[0, 0, 7]], axis=0)),
    ]
    for name, fi, fm in cases:
        try:
            fi()
            ri = "ok"
        except Exception:
            ri = "rejected"
        try:
            fm()
            rm = "ok"
        except DriverReject:
            rm = "rejected"
        ctx.hist("malformed", f"{name}: impl={ri} model={rm}")
        ctx.case(("malformed", name), False)


# --------------------------------------------------------------------------------------------
# save / load


def check_save_load(ctx: Ctx, tier: str):
    import jax
    import jax.numpy as jnp
    from jax import random

    import ginjax.geometric as geom
    import ginjax.ml as ml
    import ginjax.models as models

    D, N = 2, 8
    ops = geom.make_all_operators(D)
    filt = geom.get_invariant_filters([3], [0, 1, 2], [0, 1], D, ops)
    in_sig = geom.Signature((((0, 0), 2), ((1, 0), 1)))
    out_sig = geom.Signature((((1, 0), 1), ((0, 1), 1)))
    xk = random.PRNGKey(ctx.seed + 17)
    x = geom.MultiImage({(0, 0): random.normal(xk, (2, N, N)),
                         (1, 0): random.normal(random.fold_in(xk, 1), (1, N, N, 2))}, D)

    builders = []

    def conv_layer(key):
        return ml.ConvContract(in_sig, out_sig, filt, use_bias=True, key=key)

    builders.append(("ConvContract", conv_layer, lambda mdl, x: mdl(x)))
    call = lambda mdl, x: mdl(x)[0]  # noqa: E731

    def mk(cls, eq, **kw):
        def f(key):
            if eq:
                return cls(D, in_sig, out_sig, depth=2, conv_filters=filt, equivariant=True, key=key, **kw)
            kw2 = {k: v for k, v in kw.items() if k != "upsample_filters"}
            return cls(D, in_sig, out_sig, depth=4, equivariant=False, kernel_size=3, key=key, **kw2)
        return f

    if tier == "quick":
        builders.append(("ResNet/equivariant", mk(models.ResNet, True, num_blocks=1, num_conv=1), call))
        builders.append(("DilResNet/conventional", mk(models.DilResNet, False, num_blocks=1), call))
    else:
        up = geom.get_invariant_filters([2], [0, 1, 2], [0, 1], D, ops)
        for eq in (True, False):
            tag = "equivariant" if eq else "conventional"
            builders.append((f"UNet/{tag}", mk(models.UNet, eq, num_downsamples=1, num_conv=1,
                                               upsample_filters=up), call))
            builders.append((f"UNet/{tag}/group_norm", mk(models.UNet, eq, num_downsamples=1, num_conv=2,
                                                          upsample_filters=up, use_group_norm=True), call))
            builders.append((f"ResNet/{tag}", mk(models.ResNet, eq, num_blocks=2, num_conv=1), call))
            builders.append((f"ResNet/{tag}/no_group_norm", mk(models.ResNet, eq, num_blocks=1, num_conv=2,
                                                               use_group_norm=False), call))
            builders.append((f"DilResNet/{tag}", mk(models.DilResNet, eq, num_blocks=1), call))
            builders.append((f"DilResNet/{tag}/group_norm", mk(models.DilResNet, eq, num_blocks=1,
                                                               use_group_norm=True), call))

    # models whose saved instance differs from the (same-structured) template in NON-array leaves too:
    # a normalisation epsilon, and the inference / always_average switches of a wrapper
    # vectors only: for k=0 ml.GroupNorm delegates to eqx.nn.GroupNorm whose eps is a STATIC field, i.e.
    # part of the structure (a template with another static eps is not "same-structured")
    gn_sig = geom.Signature((((1, 0), 2),))
    x_vec = geom.MultiImage({(1, 0): random.normal(random.fold_in(xk, 2), (2, N, N, 2))}, D)

    def gn_build(key, saved=False):
        return ml.GroupNorm(gn_sig, D, 1, eps=(1e-2 if saved else 1e-5))

    def ga_build(key, saved=False):
        inner = models.ResNet(D, in_sig, out_sig, depth=2, num_blocks=1, num_conv=1, conv_filters=filt,
                              equivariant=True, key=key)
        return models.GroupAverage(inner, ops[:4], always_average=False, inference=saved)

    def ga_build_off(key, saved=False):
        # the SAVED wrapper is in training mode (no averaging), the template in inference mode
        inner = models.ResNet(D, in_sig, out_sig, depth=2, num_blocks=1, num_conv=1, conv_filters=filt,
                              equivariant=True, key=key)
        return models.GroupAverage(inner, ops[:4], always_average=False, inference=not saved)

    builders.append(("GroupNorm/eps-differs-from-template", gn_build, lambda mdl, x: mdl(x_vec)))
    builders.append(("GroupAverage/inference-flag-differs-from-template", ga_build, call))
    builders.append(("GroupAverage/saved-in-training-mode-template-in-inference-mode", ga_build_off, call))

    for name, build, run_model in builders:
        t0 = time.time()
        k1, k2 = random.split(random.PRNGKey(ctx.seed * 7 + 3))
        try:
            if build in (gn_build, ga_build, ga_build_off):
                m1, m2 = build(k1, saved=True), build(k2, saved=False)
            else:
                m1, m2 = build(k1), build(k2)
            y1 = run_model(m1, x)
            y2 = run_model(m2, x)
        except Exception as e:
            # constructing / running the model is not what C13 is about
            ctx.hist("save_load", f"{name}: model could not be built/run: {type(e).__name__}")
            continue
        fd, path = tempfile.mkstemp(prefix="ginjax_c13_", suffix=".eqx", dir=tempfile.gettempdir())
        os.close(fd)
        try:
            ml.save(path, m1)
            m3 = ml.load(path, m2)
            y3 = run_model(m3, x)
        finally:
            if os.path.exists(path):
                os.remove(path)
        differs_before = any(not np.array_equal(np.asarray(y1[k]), np.asarray(y2[k])) for k in y1.keys())

        def bits_equal(a, b):
            return (set(a.keys()) == set(b.keys()) and a.D == b.D and a.is_torus == b.is_torus
                    and all(np.asarray(a[k]).tobytes() == np.asarray(b[k]).tobytes() for k in a.keys()))

        same = bits_equal(y1, y3)
        ctx.hist("save_load", f"{name}: {'bit-identical' if same else 'DIFFERENT'}")
        ctx.case(("save_load", name), differs_before,
                 sample={"kind": "save_load", "model": name, "bit_identical": same,
                         "outputs_differed_before_load": differs_before,
                         "seconds": round(time.time() - t0, 1)})
        if not same:
            # localise: are the stored leaves reproduced exactly, and does the saved model itself
            # reproduce its outputs after a mere pytree round trip (no file involved)?
            l1 = jax.tree_util.tree_leaves(m1)
            l3 = jax.tree_util.tree_leaves(m3)
            leaves_equal = len(l1) == len(l3) and all(
                (np.asarray(a).tobytes() == np.asarray(b).tobytes()) if hasattr(a, "shape") else (a == b or callable(a))
                for a, b in zip(l1, l3))
            m1c = jax.tree_util.tree_map(lambda a: a, m1)
            y1c = run_model(m1c, x)
            case = {"model": name, "D": D, "N": N,
                    "input_signature": [[list(kp), c] for kp, c in in_sig],
                    "output_signature": [[list(kp), c] for kp, c in out_sig],
                    "prng_seed": int(ctx.seed * 7 + 3),
                    "leaves_bit_identical": bool(leaves_equal),
                    "saved_model_after_pytree_identity_matches_loaded": bool(bits_equal(y1c, y3)),
                    "saved_model_after_pytree_identity_matches_itself": bool(bits_equal(y1c, y1)),
                    "max_abs_diff": {str(k): float(np.max(np.abs(np.asarray(y1[k]) - np.asarray(y3[k]))))
                                     for k in y1.keys() if k in y3}}
            if leaves_equal and bits_equal(y1c, y3):
                # every stored number is reproduced; the freshly built model differs from ANY pytree
                # round trip of itself because ConvContract emits its blocks in weights-dict order
                # (D10, property C20): the float additions of the next layer are re-ordered.
                ctx.violation("oracle",
                              f"save/load of {name}: the loaded model reproduces every leaf but not the "
                              "eager outputs of the freshly constructed model bit for bit (block order of "
                              "ConvContract changes under any pytree round trip: D10)",
                              case, key="D10-convcontract-output-order")
            else:
                ctx.violation("oracle",
                              f"save/load of {name} does not reproduce the outputs bit for bit", case)


# --------------------------------------------------------------------------------------------


def check_extra_inverses(ctx: Ctx, n: int):
    """two inverse pairs outside the step machinery, against direct numpy references:
    * expand twice, then combine_axes / merge_axes over THREE axes restores the block;
    * to_vector(from_vector(v, template)) == v for real-valued v whatever the dtype of the template's blocks
      (from_vector takes shape and type layout from the template, the numbers from v)."""
    import jax.numpy as jnp
    import ginjax.geometric as geom

    rng = ctx.rng
    for it in range(n):
        d = int(rng.choice([1, 2, 3]))
        types = [(0, 0), (0, 1)] if d == 1 else [(0, 0), (1, 0), (0, 1), (2, 0), (1, 1)]
        keys = [types[i] for i in rng.permutation(len(types))[: int(rng.integers(1, 4))]]
        spatial = tuple(int(v) for v in rng.permutation([2, 3, 5])[:d])
        a, b, c = (int(v) for v in rng.permutation([2, 3, 4]))
        lead_pre = () if it % 2 else (2,)
        ax = len(lead_pre)
        blocks = {}
        for i, (k, p) in enumerate(keys):
            shape = lead_pre + (a * b * c,) + spatial + (d,) * k
            blocks[(k, p)] = (np.arange(int(np.prod(shape)), dtype=np.float32) + 1000 * i).reshape(shape)
        m = geom.MultiImage({kp: jnp.asarray(v) for kp, v in blocks.items()}, d)
        case = {"part": "three-axis combine/merge", "D": d, "keys": [list(kp) for kp in keys], "spatial": list(spatial),
                "leading": list(lead_pre) + [a * b * c], "split": [a, b, c], "axis": ax}
        ctx.case(("combine3", it, case), True, sample=case if it == 0 else None)
        ctx.hist("extra_inverse", "combine/merge over 3 axes")
        try:
            e2 = m.expand(ax, b * c).expand(ax + 1, c)
            back1 = e2.combine_axes((ax, ax + 1, ax + 2))
            back2 = e2.merge_axes((ax, ax + 1, ax + 2))
            ok = all(tuple(e2[kp].shape) == lead_pre + (a, b, c) + spatial + (d,) * kp[0] for kp in keys)
            for back in (back1, back2):
                ok = ok and list(back.keys()) == keys and all(
                    back[kp].shape == blocks[kp].shape and np.array_equal(np.asarray(back[kp]), blocks[kp]) for kp in keys)
        except Exception as e:
            case["raised"] = repr(e)[:300]
            ok = False
        if not ok:
            ctx.violation("oracle", "expand twice then combine_axes / merge_axes over three axes does not restore the multi image", case)
        # from_vector with templates of another dtype
        tdtype = [jnp.int32, jnp.float16, jnp.float32][it % 3]
        tmpl = geom.MultiImage({kp: jnp.zeros(v.shape, dtype=tdtype) for kp, v in blocks.items()}, d)
        size = sum(v.size for v in blocks.values())
        v = (rng.integers(-40, 41, size=size).astype(np.float32)) / 4.0
        case2 = {"part": "from_vector with a template of dtype " + str(jnp.dtype(tdtype)), "D": d,
                 "keys": [list(kp) for kp in keys], "shapes": [list(blocks[kp].shape) for kp in keys]}
        ctx.case(("from_vector_dtype", it, case2), True)
        ctx.hist("extra_inverse", "from_vector template dtype " + str(jnp.dtype(tdtype)))
        try:
            out = geom.MultiImage.from_vector(jnp.asarray(v), tmpl)
            back = np.asarray(out.to_vector(), dtype=np.float32)
            ok2 = list(out.keys()) == keys and back.shape == v.shape and np.array_equal(back, v)
            off = 0
            for kp in keys:
                n_el = blocks[kp].size
                ok2 = ok2 and np.array_equal(np.asarray(out[kp], dtype=np.float32), v[off:off + n_el].reshape(blocks[kp].shape))
                off += n_el
        except Exception as e:
            case2["raised"] = repr(e)[:300]
            ok2 = False
        if not ok2:
            ctx.violation("oracle", "to_vector(from_vector(v, template)) != v (the template only provides the layout)", case2)


# --------------------------------------------------------------------------------------------
# save / load against the Lean model of eqx.tree_serialise_leaves / tree_deserialise_leaves
# (Model/C13Save.lean, driver ops c13.save_load / c13.save / c13.load)


def _bits(a) -> list:
    """row-major numbers of a numpy array: values for bool/int/object(int), IEEE bit patterns for floats"""
    a = np.ascontiguousarray(np.asarray(a)).reshape(-1)
    if a.dtype.kind == "f":
        a = a.view({2: np.uint16, 4: np.uint32, 8: np.uint64}[a.dtype.itemsize])
    return [int(v) for v in a.tolist()]


def _f64_bits(x: float) -> int:
    import struct
    return struct.unpack("<Q", struct.pack("<d", x))[0]


class _Tokens:
    """identity tokens for non-serialised leaves (functions, strings, ...): same object -> same token"""

    def __init__(self):
        self.by_id = {}
        self.keep = []
        self.defs = []

    def tag(self, x, td1) -> str:
        """node tag = type + index of the one-level tree definition up to jax's own equality (which
        compares the aux data: dict keys, field names, static fields)"""
        for i, d in enumerate(self.defs):
            if d == td1:
                return f"{type(x).__name__}#{i}"
        self.defs.append(td1)
        return f"{type(x).__name__}#{len(self.defs) - 1}"

    def __call__(self, obj) -> str:
        if isinstance(obj, str):
            return "str:" + obj
        k = id(obj)
        if k not in self.by_id:
            self.by_id[k] = f"{type(obj).__name__}#{len(self.by_id)}"
            self.keep.append(obj)  # keep alive: ids are not reused
        return self.by_id[k]


def pt_of(x, tok: _Tokens) -> dict:
    """a real pytree as the model's PT (one jax node level at a time; None is a childless node)"""
    import jax
    import jax.tree_util as jtu

    td = jtu.tree_structure(x)
    if td.num_nodes == 1 and td.num_leaves == 1:
        if isinstance(x, jax.Array):
            a = np.asarray(x)
            return {"leaf": {"kind": "arr", "cls": "jax", "dtype": str(a.dtype), "shape": list(a.shape),
                             "data": _bits(a)}}
        if isinstance(x, np.ndarray):
            return {"leaf": {"kind": "arr", "cls": "np", "dtype": str(x.dtype), "shape": list(x.shape),
                             "data": _bits(x)}}
        if isinstance(x, bool):
            return {"leaf": {"kind": "bool", "v": x}}
        if isinstance(x, int):
            return {"leaf": {"kind": "int", "v": x}}
        if isinstance(x, float):
            return {"leaf": {"kind": "float", "bits": _f64_bits(x)}}
        return {"leaf": {"kind": "static", "id": tok(x)}}
    children, td1 = jtu.tree_flatten(x, is_leaf=lambda y: y is not x)
    return {"tag": tok.tag(x, td1), "children": [pt_of(c, tok) for c in children]}


def read_records(path) -> list:
    """the .npy records of a file written by ml.save"""
    out = []
    with open(path, "rb") as f:
        while True:
            try:
                a = np.load(f, allow_pickle=True)  # our own file; object records = huge Python ints
            except EOFError:
                break
            out.append({"dtype": str(a.dtype), "shape": list(a.shape), "data": _bits(a)})
    return out


def pt_leaves(j: dict) -> list:
    if "leaf" in j:
        return [j["leaf"]]
    return [l for c in j["children"] for l in pt_leaves(c)]


def pt_struct(j: dict):
    if "leaf" in j:
        return "*"
    return (j["tag"], tuple(pt_struct(c) for c in j["children"]))


def same_layout(mj: dict, tj: dict) -> bool:
    """hypotheses of load_save_eq, decided independently in Python: same tree definition; leaf by
    leaf the same Python type, for arrays the same class, dtype and shape; same static leaves"""
    if pt_struct(mj) != pt_struct(tj):
        return False
    lm, lt = pt_leaves(mj), pt_leaves(tj)
    if len(lm) != len(lt):
        return False
    for a, b in zip(lm, lt):
        if a["kind"] != b["kind"]:
            return False
        if a["kind"] == "arr" and (a["cls"], a["dtype"], a["shape"]) != (b["cls"], b["dtype"], b["shape"]):
            return False
        if a["kind"] == "static" and a["id"] != b["id"]:
            return False
    return True


def saveable(mj: dict) -> bool:
    """Leaf.wf: Python ints in the range numpy stores without pickling"""
    return all(not (l["kind"] == "int" and not (-2 ** 63 <= l["v"] < 2 ** 64)) for l in pt_leaves(mj))


def json_key(j) -> str:
    import hashlib
    import json
    return hashlib.sha1(json.dumps(j, sort_keys=True).encode()).hexdigest()[:16]


def check_save_load_model(ctx: Ctx, n_random: int):
    import copy
    import jax
    import jax.numpy as jnp
    import equinox as eqx
    from typing import Any, Callable

    import ginjax.geometric as geom
    import ginjax.ml as ml

    rng = ctx.rng
    D = 2
    ops = geom.make_all_operators(D)
    inv_filters = geom.get_invariant_filters([3], [0, 1], [0, 1], D, ops)
    inv_shapes = {k: tuple(np.asarray(v).shape) for k, v in inv_filters.items()}

    class Box(eqx.Module):
        items: list
        cfg: dict
        act: Callable
        scale: Any
        label: str = eqx.field(static=True)

    class P1(eqx.Module):
        w1: jax.Array
        w2: jax.Array

    class P2(eqx.Module):
        w2: jax.Array
        w1: jax.Array

    fns = [jax.nn.relu, jax.nn.gelu, jnp.tanh, (lambda v: v), abs]
    jax_dtypes = ["float32", "int32", "bool", "float16", "uint8", "int8"]
    np_dtypes = ["float64", "int64", "float32", "bool", "int32", "uint64"]
    floats = [0.0, -0.0, float("inf"), float("-inf"), 1e300, 5e-324, 2.5, -7.75, 1e-5, 3.0, float("nan")]
    ints = [0, 1, -1, 7, 2 ** 31 - 1, 2 ** 31, -2 ** 31 - 1, 2 ** 53 + 1, 2 ** 63 - 1, 2 ** 63, 2 ** 64 - 1, -2 ** 63]

    def rand_shape():
        r = int(rng.integers(0, 4))
        return [int(rng.integers(1, 4)) for _ in range(r)]

    def rand_leaf_spec():
        u = rng.random()
        if u < 0.30:
            return ["jax", jax_dtypes[int(rng.integers(0, len(jax_dtypes)))], rand_shape()]
        if u < 0.42:
            return ["np", np_dtypes[int(rng.integers(0, len(np_dtypes)))], rand_shape()]
        if u < 0.54:
            return ["pyfloat"]
        if u < 0.66:
            return ["pyint"]
        if u < 0.76:
            return ["pybool"]
        if u < 0.84:
            return ["none"]
        if u < 0.93:
            return ["fn", int(rng.integers(0, len(fns)))]
        return ["str", "name%d" % int(rng.integers(0, 3))]

    def rand_spec(depth):
        u = rng.random()
        if depth <= 0 or u < 0.35:
            return rand_leaf_spec()
        if u < 0.50:
            return ["list", [rand_spec(depth - 1) for _ in range(int(rng.integers(0, 4)))]]
        if u < 0.60:
            return ["tuple", [rand_spec(depth - 1) for _ in range(int(rng.integers(1, 3)))]]
        if u < 0.72:
            keys = list(rng.permutation(["b", "a", "c", "z"])[: int(rng.integers(1, 4))])
            return ["dict", [[str(k), rand_spec(depth - 1)] for k in keys]]
        if u < 0.82:
            return ["mi"]
        return ["box", ["list", [rand_spec(depth - 1) for _ in range(int(rng.integers(1, 3)))]],
                ["dict", [["k", rand_spec(depth - 1)]]], ["fn", int(rng.integers(0, len(fns)))],
                rand_leaf_spec(), "L%d" % int(rng.integers(0, 2))]

    def rand_array(dtype, shape):
        n = int(np.prod(shape)) if shape else 1
        if dtype == "bool":
            a = rng.integers(0, 2, n).astype(bool)
        elif dtype.startswith("float"):
            a = (rng.normal(size=n) * 10.0 ** int(rng.integers(-3, 4))).astype(dtype)
        elif dtype == "uint64":
            a = rng.integers(0, 2 ** 64, n, dtype=np.uint64)
        elif dtype == "int64":
            a = rng.integers(-2 ** 63, 2 ** 63, n, dtype=np.int64)
        else:
            info = np.iinfo(dtype)
            a = rng.integers(int(info.min), int(info.max) + 1, n).astype(dtype)
        return a.reshape(shape)

    def build(spec):
        k = spec[0]
        if k == "jax":
            return jnp.asarray(rand_array(spec[1], spec[2]))
        if k == "np":
            return rand_array(spec[1], spec[2])
        if k == "pyfloat":
            return float(floats[int(rng.integers(0, len(floats)))]) if rng.random() < 0.6 else float(rng.normal())
        if k == "pyint":
            return int(ints[int(rng.integers(0, len(ints)))]) if rng.random() < 0.6 else int(rng.integers(-1000, 1000))
        if k == "pyhuge":
            return [2 ** 64, -2 ** 63 - 1][int(rng.integers(0, 2))]
        if k == "pybool":
            return bool(rng.integers(0, 2))
        if k == "none":
            return None
        if k == "fn":
            return fns[spec[1]]
        if k == "str":
            return spec[1]
        if k == "list":
            return [build(c) for c in spec[1]]
        if k == "tuple":
            return tuple(build(c) for c in spec[1])
        if k == "dict":
            return {kk: build(c) for kk, c in spec[1]}
        if k == "mi":
            if rng.random() < 0.5:
                return inv_filters
            return geom.MultiImage({kk: jnp.asarray(rng.normal(size=sh).astype(np.float32))
                                    for kk, sh in inv_shapes.items()}, D)
        if k == "box":
            return Box(build(spec[1]), build(spec[2]), build(spec[3]), build(spec[4]), spec[5])
        raise ValueError(k)

    def leaf_paths(spec, path=()):
        k = spec[0]
        if k in ("list", "tuple"):
            return [q for i, c in enumerate(spec[1]) for q in leaf_paths(c, path + (1, i))]
        if k == "dict":
            return [q for i, (_, c) in enumerate(spec[1]) for q in leaf_paths(c, path + (1, i, 1))]
        if k == "box":
            return [q for i in (1, 2, 3, 4) for q in leaf_paths(spec[i], path + (i,))]
        if k == "mi":
            return []
        return [path]

    def list_paths(spec, path=()):
        k = spec[0]
        out = [path] if k == "list" else []
        if k in ("list", "tuple"):
            out += [q for i, c in enumerate(spec[1]) for q in list_paths(c, path + (1, i))]
        elif k == "dict":
            out += [q for i, (_, c) in enumerate(spec[1]) for q in list_paths(c, path + (1, i, 1))]
        elif k == "box":
            out += [q for i in (1, 2, 3, 4) for q in list_paths(spec[i], path + (i,))]
        return out

    def get_at(spec, path):
        for i in path:
            spec = spec[i]
        return spec

    def set_at(spec, path, val):
        if not path:
            return val
        get_at(spec, path[:-1])[path[-1]] = val
        return spec

    def perturb(spec, how):
        """template spec from the saved model's spec"""
        t = copy.deepcopy(spec)
        paths = leaf_paths(t)
        arrs = [q for q in paths if get_at(t, q)[0] in ("jax", "np")]
        if how == "shape" and arrs:
            l = get_at(t, arrs[int(rng.integers(0, len(arrs)))])
            sh = list(l[2])
            u = rng.random()
            if sh and u < 0.6:
                i = int(rng.integers(0, len(sh)))
                sh[i] = sh[i] + 1 if (rng.random() < 0.5 or sh[i] == 1) else sh[i] - 1
            elif len(sh) >= 2 and sh != sh[::-1] and u < 0.8:
                sh = sh[::-1]
            else:
                sh = sh + [1]
            l[2] = sh
        elif how == "dtype" and arrs:
            l = get_at(t, arrs[int(rng.integers(0, len(arrs)))])
            pool = [d for d in (jax_dtypes if l[0] == "jax" else np_dtypes) if d != l[1]]
            l[1] = pool[int(rng.integers(0, len(pool)))]
        elif how == "class" and arrs:
            l = get_at(t, arrs[int(rng.integers(0, len(arrs)))])
            l[0] = "np" if l[0] == "jax" else "jax"
            if l[0] == "jax" and l[1] not in jax_dtypes:
                l[1] = {"float64": "float32", "int64": "int32", "uint64": "int32"}[l[1]]
        elif how == "retype" and paths:
            q = paths[int(rng.integers(0, len(paths)))]
            old = get_at(t, q)
            if old[0] in ("pyfloat", "pyint", "pybool") and rng.random() < 0.7:
                pool = [["pyfloat"], ["pyint"], ["pybool"], ["jax", "float32", []], ["jax", "int32", []],
                        ["np", "float64", []], ["np", "int64", [1]]]
                new = pool[int(rng.integers(0, len(pool)))]
            elif old[0] in ("jax", "np") and int(np.prod(old[2])) == 1 and rng.random() < 0.7:
                new = [["pyfloat"], ["pyint"], ["pybool"]][int(rng.integers(0, 3))]
            else:
                new = rand_leaf_spec()
            t = set_at(t, q, new)
        elif how == "static":
            st = [q for q in paths if get_at(t, q)[0] == "fn"]
            if st:
                l = get_at(t, st[int(rng.integers(0, len(st)))])
                l[1] = (l[1] + 1 + int(rng.integers(0, len(fns) - 1))) % len(fns)
        elif how in ("add", "drop"):
            lists = list_paths(t)
            if lists:
                node = get_at(t, lists[int(rng.integers(0, len(lists)))])
                if how == "add":
                    node[1].append(rand_leaf_spec())
                elif node[1]:
                    node[1].pop(int(rng.integers(0, len(node[1]))))
        return t

    cases = []  # (name, model, template)

    # fixed cases ---------------------------------------------------------------------------
    def mixed(v):
        return Box([jnp.asarray(np.array([1.5 * v, -2.0], np.float32)), jnp.asarray(np.array([[3 * v, 4]], np.int32)),
                    jnp.asarray(np.array([True, v > 1])), None, np.array([v, 2 ** 40], np.int64)],
                   {"eps": 1e-5 * v, "n": 3 * v, "on": v > 1, "nothing": None, "name": "conv",
                    "inner": Box([jnp.asarray(np.float16(v))], {}, jnp.tanh, 2 * v, "inner")},
                   jax.nn.relu, 0.5 * v, "outer")

    def w(*v):
        return jnp.asarray(np.array(v, np.float32))

    cases.append(("mixed-leaves", mixed(1), mixed(2)))
    cases.append(("permuted-fields", P1(w(1, 2), w(3, 4)), P2(w(0, 0), w(0, 0))))
    cases.append(("long-file", [w(5), w(6, 7)], [w(0)]))
    cases.append(("short-file", [w(5)], [w(0), w(0, 0)]))
    cases.append(("shape-mismatch", {"w": w(1, 2)}, {"w": w(0, 0, 0)}))
    cases.append(("dtype-mismatch", {"w": w(1, 2)}, {"w": jnp.asarray(np.array([0, 0], np.int32))}))
    cases.append(("scalar-unchecked", [2.5, 7], [0, False]))
    cases.append(("template-static-kept", Box([w(9)], {}, jax.nn.relu, 1.0, "l"), Box([w(0)], {}, jnp.tanh, 2.0, "l")))
    cases.append(("huge-int-saved-not-loadable", [2 ** 64, w(1)], [0, w(0)]))
    cases.append(("invariant-filters", {"f": inv_filters, "b": w(1)},
                  {"f": geom.MultiImage({kk: jnp.zeros(sh, jnp.float32) for kk, sh in inv_shapes.items()}, D),
                   "b": w(0)}))
    in_sig = geom.Signature((((0, 0), 2), ((1, 0), 1)))
    out_sig = geom.Signature((((1, 0), 1), ((0, 1), 1)))
    try:
        k1, k2 = jax.random.split(jax.random.PRNGKey(ctx.seed + 5))
        cases.append(("ConvContract", ml.ConvContract(in_sig, out_sig, inv_filters, use_bias=True, key=k1),
                      ml.ConvContract(in_sig, out_sig, inv_filters, use_bias=True, key=k2)))
        cases.append(("GroupNorm", ml.GroupNorm(in_sig, D, 1, eps=1e-2), ml.GroupNorm(in_sig, D, 1, eps=1e-5)))
    except Exception as e:  # constructing the layers is not what this check is about
        ctx.hist("save_load_model", f"layer could not be built: {type(e).__name__}")

    # random cases --------------------------------------------------------------------------
    hows = ["none", "none", "none", "shape", "dtype", "class", "retype", "retype", "static", "add", "drop"]
    for _ in range(n_random):
        spec = ["box", ["list", [rand_spec(2) for _ in range(int(rng.integers(1, 4)))]],
                ["dict", [["k", rand_spec(1)], ["m", rand_spec(2)]]], ["fn", int(rng.integers(0, len(fns)))],
                rand_leaf_spec(), "root"]
        if rng.random() < 0.04:
            spec[1][1].append(["pyhuge"])
        how = hows[int(rng.integers(0, len(hows)))]
        tspec = perturb(spec, how)
        if rng.random() < 0.15:
            tspec = perturb(tspec, hows[int(rng.integers(3, len(hows)))])
            how += "+"
        try:
            cases.append((f"random/{how}", build(spec), build(tspec)))
        except Exception as e:
            ctx.hist("save_load_model", f"case could not be built: {type(e).__name__}: {e}"[:120])

    with tempfile.TemporaryDirectory(prefix="ginjax_c13_sl_") as tmp:
        for n, (name, m, t) in enumerate(cases):
            tok = _Tokens()
            mj, tj = pt_of(m, tok), pt_of(t, tok)
            path = os.path.join(tmp, f"m{n}.eqx")
            ml.save(path, m)
            real_chunks = read_records(path)
            try:
                loaded = ml.load(path, t)
                real = ["ok", pt_of(loaded, tok)]
            except Exception as e:  # whatever the real code raises is a rejection
                real = ["reject", f"{type(e).__name__}: {e}"[:200]]
            try:
                out = ctx.driver.call("c13.save_load", model=mj, template=tj)
                model = ["ok", out["result"]]
                model_chunks = out["chunks"]
            except DriverReject as e:
                msg = str(e)
                if msg.startswith("unmodelled"):
                    ctx.hist("save_load_model", f"{name}: skipped ({msg[:60]})")
                    continue
                model = ["reject", msg]
                model_chunks = ctx.driver.call("c13.save", model=mj)["chunks"]
            layout = same_layout(mj, tj) and saveable(mj)
            n_ser = sum(1 for l in pt_leaves(mj) if l["kind"] != "static")
            kinds = {(l["kind"], l.get("cls"), l.get("dtype")) for l in pt_leaves(mj) if l["kind"] != "static"}
            ctx.hist("save_load_model",
                     f"{name}: real {real[0]}, model {model[0]}" + (" [same layout]" if layout else ""))
            ctx.case(("save_load_model", name, json_key(mj), json_key(tj)),
                     n_ser >= 2 and len(kinds) >= 2 and mj != tj,
                     sample={"kind": "save_load_model", "case": name, "real": real[0], "model": model[0],
                             "same_layout": layout, "serialised_leaves": n_ser})
            case = {"case": name, "model_pytree": mj, "template_pytree": tj, "real": real, "lean": model,
                    "same_layout": layout}
            # oracle: the property's sentence - a same-layout template gives back the saved model
            if layout and (real[0] != "ok" or real[1] != mj):
                ctx.violation("oracle", f"ml.load(ml.save(m), template of the same layout) is not m ({name})", case)
                continue
            if real_chunks != model_chunks:
                case["file_records"] = real_chunks
                case["lean_records"] = model_chunks
                ctx.violation("correspondence",
                              f"the file written by ml.save differs from the model's records ({name})", case)
                continue
            if real[0] != model[0] or (real[0] == "ok" and real[1] != model[1]):
                ctx.violation("correspondence", f"ml.load differs from the Lean deserialise ({name})", case)


def run(ctx: Ctx):
    import ginjax.geometric as geom

    ctx.rule = (
        "cases: (pair) every inverse pair on a generated multi image, cycling d in 1..3 and 0..3 "
        "leading axes, signature = random subset/order of types k<=3, p in {0,1}, channels 1..4, "
        "pairwise distinct axis extents, every element a distinct integer; (chain) random nested/"
        "sequential compositions of inverse pairs and identity steps (copy, jit, vmap, tree) that are "
        "the identity by construction, every step mirrored in the Lean model; (images) lists of "
        "GeometricImages; (save_load) real models through a temporary file; (save_load_model) fixed and random "
        "pytrees with mixed leaves (jax/numpy arrays of several dtypes, Python float/int/bool, None, functions, "
        "strings, nested modules, MultiImages of invariant filters) saved and loaded into a template that is "
        "of the same layout or perturbed (shape, dtype, array class, leaf type, static leaf, added/dropped "
        "leaf, permuted fields), non-trivial = at least two serialised leaves of two kinds and template != "
        "model. distinct = distinct "
        "(kind, d, leading shape, signature, spatial dims, operations). non-trivial = at least two "
        "types or a tensor order >= 1 (pairs), additionally >= 2 operations (chains), >= 2 images "
        "(images), outputs of the two differently initialised models differ before loading (save_load); "
        "malformed inputs are counted as trivial."
    )
    ctx.assumptions = [
        "blocks hold integer-valued float32 numbers below 2^24 (the re-layouts only move values, so the "
        "value type is irrelevant; the theorems are for an arbitrary type)",
        "save/load: the theorems (load_save_eq, load_save_output_eq, load_rejects_*) are about the model of "
        "eqx.tree_serialise_leaves / tree_deserialise_leaves in Model/C13Save.lean (records = dtype, shape, "
        "numbers; x64 disabled); np.save/np.load's byte format itself, complex / bfloat16 / numpy-scalar "
        "leaves and ShapeDtypeStruct templates are not modelled",
        "jax's flattening of a dict pytree (sorted keys) is modelled by treeFlatten and validated by the "
        "jit / vmap / tree_flatten runs",
        "BatchNorm state is outside save() (the code's own TODO) and outside this check",
    ]
    ctx.trusted_extra = [
        "numpy/jax semantics of reshape, moveaxis, concatenate, basic slicing as written in "
        "lean/GinjaxVerif/Model/NDArr.lean (validated by every correspondence case)",
    ]
    run_ = Runner(ctx, geom)
    ctx.max_samples = 12
    quick = ctx.tier == "quick"
    t0 = time.time()
    check_rejects(ctx, run_)
    check_pairs(ctx, run_, 72 if quick else 600)
    t1 = time.time()
    check_images_direction(ctx, run_, 30 if quick else 300)
    n = check_chains(ctx, run_, 220 if quick else 3000, 4 if quick else 8)
    t2 = time.time()
    check_extra_inverses(ctx, 12 if ctx.tier == "quick" else 120)
    check_save_load(ctx, ctx.tier)
    t3 = time.time()
    check_save_load_model(ctx, 150 if quick else 3000)
    t4 = time.time()
    ctx.notes["timing_s"] = {"pairs": round(t1 - t0, 1), "images+chains": round(t2 - t1, 1),
                             "save_load": round(t3 - t2, 1),
                             "save_load_model": round(t4 - t3, 1)}
    ctx.notes["chains_run"] = n
    ctx.notes["driver_calls"] = ctx.driver.calls
    ctx.notes["save_load_note"] = ("save_load: real models bit for bit; save_load_model: ml.save / ml.load vs the "
                                   "Lean model (file records, loaded pytree or rejection), oracle = a template of "
                                   "the same layout gives back the saved pytree exactly")


def replay(ctx: Ctx, rep: dict):
    """re-run the whole check with the recorded seed and tier (cases are regenerated from the seed)"""
    run(ctx)
