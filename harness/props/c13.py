"""C13 - re-layouts and serialisations are lossless round trips.

correspondence: every re-layout method of the real `MultiImage` (to_vector/from_vector,
  to_scalar_multi_image/from_scalar_multi_image, concat/concat_inverse, expand/combine_axes,
  reshape_pmap/merge_axes, to_images/from_images, copy, pytree flatten/unflatten) is run on
  position-encoded integer blocks and compared exactly, block by block (by key), with the Lean
  model (driver ops c13.*) - single operations and every step of the chains below.
oracle: the property's own sentence on the real code: each inverse pair returns exactly what was
  put in (by key, plus D and is_torus); chains of operations that compose to the identity by
  construction; jit / vmap / tree_flatten identity round trips; copy.
save/load ("modelled only"): real models are saved to a temporary file outside /repo and /verif,
  loaded into a differently initialised model of the same structure and compared bit for bit.
"""
from __future__ import annotations

import os
import tempfile
import time

import numpy as np

from common import Ctx, DriverReject

PRIMES = [2, 3, 5, 7]


# --------------------------------------------------------------------------------------------
# conversions


def mi_to_json(m) -> dict:
    return {
        "D": int(m.D),
        "is_torus": [bool(b) for b in m.is_torus],
        "data": [
            {"k": int(k), "p": int(p), "block": arr_to_json(blk)} for (k, p), blk in m.items()
        ],
    }


def arr_to_json(a) -> dict:
    a = np.asarray(a)
    flat = a.reshape(-1)
    ints = np.rint(flat).astype(np.int64)
    if not np.array_equal(ints.astype(flat.dtype), flat):
        raise ValueError("non-integer value in a block")
    return {"shape": [int(s) for s in a.shape], "data": [int(v) for v in ints]}


def img_to_json(g) -> dict:
    return {
        "D": int(g.D),
        "is_torus": [bool(b) for b in g.is_torus],
        "parity": int(g.parity),
        "data": arr_to_json(g.data),
    }


def json_blocks(j: dict) -> dict:
    """model multi image -> {(k,p): (shape, data)} (dict order dropped: compared by key)"""
    return {(e["k"], e["p"]): (list(e["block"]["shape"]), list(e["block"]["data"])) for e in j["data"]}


def canon_mi(j: dict):
    return (j["D"], list(j["is_torus"]), json_blocks(j))


def same_mi(a: dict, b: dict) -> bool:
    return canon_mi(a) == canon_mi(b)


def describe_diff(a: dict, b: dict) -> str:
    ca, cb = canon_mi(a), canon_mi(b)
    if ca[0] != cb[0]:
        return f"D {ca[0]} vs {cb[0]}"
    if ca[1] != cb[1]:
        return f"is_torus {ca[1]} vs {cb[1]}"
    if set(ca[2]) != set(cb[2]):
        return f"keys {sorted(ca[2])} vs {sorted(cb[2])}"
    for k in ca[2]:
        if ca[2][k][0] != cb[2][k][0]:
            return f"shape of {k}: {ca[2][k][0]} vs {cb[2][k][0]}"
        if ca[2][k][1] != cb[2][k][1]:
            n = sum(1 for x, y in zip(ca[2][k][1], cb[2][k][1]) if x != y)
            return f"values of {k}: {n} entries differ"
    return "equal"


def small(j, limit=400):
    """keep replay files readable: drop data of big arrays"""
    if isinstance(j, dict):
        if set(j.keys()) == {"shape", "data"} and len(j["data"]) > limit:
            return {"shape": j["shape"], "data": f"<{len(j['data'])} position-encoded values>"}
        return {k: small(v, limit) for k, v in j.items()}
    if isinstance(j, list):
        return [small(v, limit) for v in j]
    return j


# --------------------------------------------------------------------------------------------
# generators


def all_keys(d):
    return [(0, 0), (0, 1)] if d == 1 else [(k, p) for k in range(4) for p in (0, 1)]


def gen_config(ctx: Ctx, d=None, n_lead=None, max_elems=3000):
    """signature (any subset/order of types), spatial dims, leading shape; sizes pairwise distinct
    where possible"""
    rng = ctx.rng
    for _ in range(200):
        dd = int(rng.choice([1, 2, 2, 2, 3, 3, 3])) if d is None else d
        nl = int(rng.integers(0, 4)) if n_lead is None else n_lead
        keys = all_keys(dd)
        ntypes = int(rng.integers(1, min(4, len(keys)) + 1))
        chosen = [keys[i] for i in rng.permutation(len(keys))[:ntypes]]
        if dd == 3 and nl >= 2:
            chosen = [(min(k, 2), p) for k, p in chosen]
            chosen = list(dict.fromkeys(chosen))
        pool = [n for n in ((2, 3, 4, 5, 6, 7) if dd < 3 else (2, 3, 4, 5)) if n != dd]
        sizes = [int(x) for x in rng.permutation(pool)]
        spatial = sizes[:dd]
        batch = sizes[dd : dd + max(nl - 1, 0)]
        if nl == 0:
            chans = [None] * len(chosen)
        else:
            chans = [int(rng.integers(1, 5)) for _ in chosen]
        tot = 0
        for (k, p), c in zip(chosen, chans):
            tot += int(np.prod(batch + ([c] if c else []) + spatial + [dd] * k))
        if tot <= max_elems:
            return dd, nl, chosen, chans, spatial, batch
    return 2, 1, [(0, 0), (1, 0)], [1, 2], [3, 4], []


def build_mi(geom, dd, chosen, chans, spatial, batch, base=0, torus=None):
    import jax.numpy as jnp

    data = {}
    off = base
    for (k, p), c in zip(chosen, chans):
        shape = tuple(batch) + ((c,) if c else ()) + tuple(spatial) + (dd,) * k
        n = int(np.prod(shape))
        data[(k, p)] = jnp.asarray(np.arange(off, off + n, dtype=np.float32).reshape(shape))
        off += n
    if torus is None:
        torus = tuple(bool((i + len(chosen)) % 2) for i in range(dd))
    return geom.MultiImage(data, dd, torus), off


# --------------------------------------------------------------------------------------------
# operations on the implementation and on the model


class Step:
    """one operation: how to run it on the real object and on the Lean model"""

    def __init__(self, name, impl, model, desc):
        self.name = name
        self.impl = impl  # real state -> real state
        self.model = model  # (driver, model state json) -> model state json
        self.desc = desc  # JSON-able description for replay


def state_json(kind, x):
    if kind == "mi":
        return mi_to_json(x)
    if kind == "vec":
        return arr_to_json(x)
    if kind == "images":
        return [img_to_json(g) for g in x]
    raise ValueError(kind)


def same_state(kind, a, b) -> bool:
    if kind == "mi":
        return same_mi(a, b)
    return a == b


class Runner:
    def __init__(self, ctx: Ctx, geom):
        self.ctx = ctx
        self.geom = geom
        self.drv = ctx.driver

    # -- unit builders: each returns (list of opening steps, list of closing steps, kind inside)
    def unit_vector(self, m):
        geom = self.geom
        tmpl_json = mi_to_json(m)
        tmpl = m
        op = Step("to_vector", lambda x: x.to_vector(),
                  lambda d, s: d.call("c13.to_vector", mi=s), {"op": "to_vector"})
        cl = Step("from_vector", lambda v: geom.MultiImage.from_vector(v, tmpl),
                  lambda d, s: d.call("c13.from_vector", vector=s, mi=tmpl_json),
                  {"op": "from_vector", "template": "the multi image before to_vector"})
        return [(op, "vec")], [(cl, "mi")]

    def unit_scalar(self, m):
        nl = m.get_n_leading()
        if nl < 1 or len({tuple(b.shape[: nl - 1]) for b in m.values()}) != 1:
            return None  # the blocks must share their batch shape (the code's own precondition)
        layout = m.get_signature()
        lj = [[int(k), int(p), int(c)] for (k, p), c in layout]
        op = Step("to_scalar_multi_image", lambda x: x.to_scalar_multi_image(),
                  lambda d, s: d.call("c13.to_scalar", mi=s), {"op": "to_scalar_multi_image"})
        cl = Step("from_scalar_multi_image", lambda x: x.from_scalar_multi_image(layout),
                  lambda d, s: d.call("c13.from_scalar", mi=s, layout=lj),
                  {"op": "from_scalar_multi_image", "layout": lj})
        return [(op, "mi")], [(cl, "mi")]

    def unit_concat(self, m, base):
        """concat with a second multi image along a random leading axis, then concat_inverse"""
        rng = self.ctx.rng
        nl = m.get_n_leading()
        axis = int(rng.integers(0, nl))
        keys_m = list(m.keys())
        pool = all_keys(m.D)
        extra = [k for k in pool if k not in keys_m]
        # b: a random non-empty mix of shared types and new types
        cand = keys_m + extra
        nb = int(rng.integers(1, min(3, len(cand)) + 1))
        bkeys = [cand[i] for i in rng.permutation(len(cand))[:nb]]
        if m.D == 3 and nl >= 2:
            bkeys = list(dict.fromkeys((min(k, 2), p) for k, p in bkeys))
        first = next(iter(m.values()))
        lead = list(first.shape[:nl])
        spatial = list(m.get_spatial_dims())
        import jax.numpy as jnp

        data = {}
        off = base
        for (k, p) in bkeys:
            l2 = list(lead)
            if (k, p) in m:
                l2 = list(m[(k, p)].shape[:nl])
            l2[axis] = int(rng.integers(1, 4))
            shape = tuple(l2) + tuple(spatial) + (m.D,) * k
            n = int(np.prod(shape))
            data[(k, p)] = jnp.asarray(np.arange(off, off + n, dtype=np.float32).reshape(shape))
            off += n
        b = self.geom.MultiImage(data, m.D, m.is_torus)
        bj = mi_to_json(b)
        sig = [[int(k), int(p), int(blk.shape[axis])] for (k, p), blk in b.items()]
        sig_t = tuple(((k, p), n) for k, p, n in sig)
        use_dict = bool(rng.integers(0, 2))
        sig_arg = {kp: n for kp, n in sig_t} if use_dict else sig_t
        holder = {}

        def close_impl(x):
            a2, b2 = x.concat_inverse(sig_arg, axis)
            holder["b_impl"] = mi_to_json(b2)
            return a2

        def close_model(d, s):
            r = d.call("c13.concat_inverse", mi=s, sig=sig, axis=axis)
            holder["b_model"] = r["b"]
            return r["a"]

        op = Step("concat", lambda x: x.concat(b, axis),
                  lambda d, s: d.call("c13.concat", mi=s, other=bj, axis=axis),
                  {"op": "concat", "axis": axis, "other": small(bj)})
        cl = Step("concat_inverse", close_impl, close_model,
                  {"op": "concat_inverse", "axis": axis, "signature": sig, "as_dict": use_dict})
        cl.check_b = (holder, bj)
        return [(op, "mi")], [(cl, "mi")], off

    def unit_expand(self, m):
        """expand(axis, size) then combine_axes / merge_axes((axis, axis+1))"""
        rng = self.ctx.rng
        nl = m.get_n_leading()
        opts = []
        for axis in range(nl):
            ext = [int(blk.shape[axis]) for blk in m.values()]
            divs = [s for s in range(1, min(ext) + 1) if all(e % s == 0 for e in ext)]
            for s in divs:
                opts.append((axis, s))
        if not opts:
            return None
        nontriv = [o for o in opts if o[1] > 1]
        pick = nontriv if (nontriv and rng.random() < 0.8) else opts
        axis, size = pick[int(rng.integers(0, len(pick)))]
        use_merge = bool(rng.integers(0, 2))
        op = Step("expand", lambda x: x.expand(axis, size),
                  lambda d, s: d.call("c13.expand", mi=s, axis=axis, size=size),
                  {"op": "expand", "axis": axis, "size": size})
        if use_merge:
            cl = Step("merge_axes", lambda x: x.merge_axes((axis, axis + 1)),
                      lambda d, s: d.call("c13.merge_axes", mi=s, axes=[axis, axis + 1]),
                      {"op": "merge_axes", "axes": [axis, axis + 1]})
        else:
            cl = Step("combine_axes", lambda x: x.combine_axes((axis, axis + 1)),
                      lambda d, s: d.call("c13.combine_axes", mi=s, axes=[axis, axis + 1]),
                      {"op": "combine_axes", "axes": [axis, axis + 1]})
        return [(op, "mi")], [(cl, "mi")]

    def unit_combine(self, m):
        """combine_axes((a, a+1)) then expand(a, size of axis a+1) (needs two leading axes)"""
        rng = self.ctx.rng
        nl = m.get_n_leading()
        opts = [a for a in range(nl - 1)
                if len({int(blk.shape[a + 1]) for blk in m.values()}) == 1]
        if not opts:
            return None
        a = opts[int(rng.integers(0, len(opts)))]
        size = int(next(iter(m.values())).shape[a + 1])
        op = Step("combine_axes", lambda x: x.combine_axes((a, a + 1)),
                  lambda d, s: d.call("c13.combine_axes", mi=s, axes=[a, a + 1]),
                  {"op": "combine_axes", "axes": [a, a + 1]})
        cl = Step("expand", lambda x: x.expand(a, size),
                  lambda d, s: d.call("c13.expand", mi=s, axis=a, size=size),
                  {"op": "expand", "axis": a, "size": size})
        return [(op, "mi")], [(cl, "mi")]

    def unit_pmap(self, m):
        """reshape_pmap(devices, axis=0) then merge_axes((0, 1)); needs a common first extent"""
        rng = self.ctx.rng
        if m.get_n_leading() < 1:
            return None
        ext = {int(blk.shape[0]) for blk in m.values()}
        if len(ext) != 1:
            return None
        L = ext.pop()
        divs = [s for s in range(1, L + 1) if L % s == 0]
        nd = divs[int(rng.integers(0, len(divs)))]
        if len(divs) > 1 and rng.random() < 0.8:
            nd = divs[int(rng.integers(1, len(divs)))]
        devices = [None] * nd
        op = Step("reshape_pmap", lambda x: x.reshape_pmap(devices, 0),
                  lambda d, s: d.call("c13.reshape_pmap", mi=s, ndev=nd, axis=0),
                  {"op": "reshape_pmap", "n_devices": nd, "axis": 0})
        cl = Step("merge_axes", lambda x: x.merge_axes((0, 1)),
                  lambda d, s: d.call("c13.merge_axes", mi=s, axes=[0, 1]),
                  {"op": "merge_axes", "axes": [0, 1]})
        return [(op, "mi")], [(cl, "mi")]

    def unit_images(self, m):
        if m.get_n_leading() != 1:
            return None
        geom = self.geom
        op = Step("to_images", lambda x: x.to_images(),
                  lambda d, s: d.call("c13.to_images", mi=s), {"op": "to_images"})
        cl = Step("from_images", lambda imgs: geom.MultiImage.from_images(imgs),
                  lambda d, s: d.call("c13.from_images", images=s, n_lead=1, axis=0),
                  {"op": "from_images", "n_lead_axes": 1, "axis": 0})
        return [(op, "images")], [(cl, "mi")]

    def unit_identity(self, m):
        """copy / jit / vmap / tree_flatten+unflatten: single steps that must be the identity"""
        import jax

        rng = self.ctx.rng
        kinds = ["copy", "jit", "tree"]
        if m.get_n_leading() >= 1 and len({int(b.shape[0]) for b in m.values()}) == 1:
            kinds.append("vmap")
        kind = kinds[int(rng.integers(0, len(kinds)))]
        if kind == "copy":
            st = Step("copy", lambda x: x.copy(), lambda d, s: d.call("c13.copy", mi=s), {"op": "copy"})
        elif kind == "jit":
            st = Step("jit", lambda x: jax.jit(lambda y: y)(x),
                      lambda d, s: d.call("c13.tree_roundtrip", mi=s), {"op": "jax.jit(lambda m: m)"})
        elif kind == "vmap":
            st = Step("vmap", lambda x: jax.vmap(lambda y: y)(x),
                      lambda d, s: d.call("c13.tree_roundtrip", mi=s), {"op": "jax.vmap(lambda m: m)"})
        else:
            def tree(x):
                leaves, treedef = jax.tree_util.tree_flatten(x)
                return jax.tree_util.tree_unflatten(treedef, leaves)

            st = Step("tree", tree, lambda d, s: d.call("c13.tree_roundtrip", mi=s),
                      {"op": "tree_flatten/tree_unflatten"})
        return [(st, "mi")], []

    # -- chain construction: nested / sequential units, at most `budget` operations
    def build_and_run(self, m0, budget, base, label):
        """Builds the chain lazily while running it (units depend on the current state).
        Returns (n_ops, ok)."""
        ctx = self.ctx
        rng = ctx.rng
        m0_json = mi_to_json(m0)
        trace = []
        state = {"impl": m0, "model": m0_json, "kind": "mi", "ok": True, "base": base}

        def do(step: Step, kind_after):
            if not state["ok"]:
                return
            trace.append(step.desc)
            try:
                new_impl = step.impl(state["impl"])
            except Exception as e:  # the real code raised on a valid input
                state["ok"] = False
                state["reported"] = True
                case = {"input": small(m0_json), "chain": list(trace), "raised": repr(e)[:300]}
                ctx.violation("oracle", f"{step.name} raised on a valid input ({label})", case)
                return
            state["impl"], state["kind"] = new_impl, kind_after
            if hasattr(step, "check_b"):
                holder, bj = step.check_b
                if not same_mi(holder["b_impl"], bj):
                    state["ok"] = False
                    state["reported"] = True
                    case = {"input": small(m0_json), "chain": list(trace),
                            "expected_b": small(bj), "got_b": small(holder["b_impl"]),
                            "diff": describe_diff(holder["b_impl"], bj)}
                    ctx.violation("oracle",
                                  "concat_inverse does not return the second operand of concat", case)
                    return
            if "mismatch" in state:
                return  # the model is no longer followed; the implementation chain is completed
            try:
                new_model = step.model(self.drv, state["model"])
            except DriverReject as e:
                state["mismatch"] = (step.name, None, f"model rejects: {e}", list(trace))
                return
            try:
                ij = state_json(kind_after, new_impl)
            except ValueError:
                state["mismatch"] = (step.name, None, "non-integer values", list(trace))
                return
            state["model"] = new_model
            if not same_state(kind_after, ij, new_model):
                state["mismatch"] = (step.name, ij, new_model, list(trace))

        def grow(budget_left, depth):
            """run units until the budget is used; returns the number of operations used"""
            used = 0
            while state["ok"] and budget_left - used >= 1:
                m = state["impl"]
                choices = ["identity"]
                if budget_left - used >= 2:
                    choices += ["vector", "expand", "combine", "pmap", "images", "concat"]
                    if m.get_n_leading() >= 1:
                        choices += ["scalar", "scalar"]
                name = choices[int(rng.integers(0, len(choices)))]
                unit = None
                if name == "identity":
                    unit = self.unit_identity(m)
                elif name == "vector":
                    unit = self.unit_vector(m)
                elif name == "scalar":
                    unit = self.unit_scalar(m)
                elif name == "expand":
                    unit = self.unit_expand(m)
                elif name == "combine":
                    unit = self.unit_combine(m)
                elif name == "pmap":
                    unit = self.unit_pmap(m)
                elif name == "images":
                    unit = self.unit_images(m)
                elif name == "concat":
                    if m.get_n_leading() >= 1:
                        r = self.unit_concat(m, state["base"])
                        unit = (r[0], r[1])
                        state["base"] = r[2]
                if unit is None:
                    if rng.random() < 0.3:
                        break
                    continue
                opens, closes = unit
                ctx.hist("unit", name)
                for st, kind in opens:
                    do(st, kind)
                used += len(opens) + len(closes)
                # nest further units inside, when the inner state is a multi image
                if state["ok"] and closes and state["kind"] == "mi" and budget_left - used >= 1 \
                        and rng.random() < 0.5:
                    used += grow(budget_left - used, depth + 1)
                for st, kind in closes:
                    do(st, kind)
                if rng.random() < 0.35:
                    break
            return used

        n_ops = grow(budget, 0)
        self.last_trace = list(trace)
        if n_ops == 0:
            return 0, True
        ctx.hist("chain_length", n_ops)
        if state.get("reported"):
            return n_ops, False
        # oracle: the composition is the identity on the real code
        try:
            fin = mi_to_json(state["impl"])
        except Exception as e:
            ctx.violation("oracle", f"result of the chain is not an integer-valued multi image ({label})",
                          {"input": small(m0_json), "chain": trace, "error": repr(e)[:300]})
            return n_ops, False
        if not same_mi(fin, m0_json):
            case = {"input": small(m0_json), "chain": trace, "result": small(fin),
                    "diff": describe_diff(fin, m0_json)}
            if "mismatch" in state:
                case["first_step_differing_from_model"] = state["mismatch"][0]
            ctx.violation("oracle",
                          f"round trip is not the identity: {describe_diff(fin, m0_json)} ({label})", case)
            return n_ops, False
        if "mismatch" in state:
            name, ij, mj, tr = state["mismatch"]
            ctx.violation("correspondence", f"{name} differs from the Lean model ({label})",
                          {"input": small(m0_json), "chain": tr, "step": name,
                           "impl": small(ij), "model": small(mj)})
            return n_ops, False
        return n_ops, True


# --------------------------------------------------------------------------------------------
# fixed-form checks


def check_pairs(ctx: Ctx, run: Runner, n_cases: int):
    """every inverse pair once per generated multi image (single operations vs the model, oracle
    on the pair)"""
    geom = run.geom
    for it in range(n_cases):
        # cycle through the corner of the quantifier: d in 1..3, 0..3 leading axes
        d = 1 + it % 3
        nl = (it // 3) % 4
        dd, nl, chosen, chans, spatial, batch = gen_config(ctx, d=d, n_lead=nl)
        m, base = build_mi(geom, dd, chosen, chans, spatial, batch)
        ctx.hist("d", dd)
        ctx.hist("n_leading", nl)
        ctx.hist("n_types", len(chosen))
        ctx.hist("max_k", max(k for k, _ in chosen))
        units = [("vector", run.unit_vector(m)), ("identity", run.unit_identity(m))]
        if nl >= 1:
            units.append(("scalar", run.unit_scalar(m)))
            r = run.unit_concat(m, base)
            units.append(("concat", (r[0], r[1])))
            units.append(("expand", run.unit_expand(m)))
            units.append(("combine", run.unit_combine(m)))
            units.append(("pmap", run.unit_pmap(m)))
            units.append(("images", run.unit_images(m)))
        for name, unit in units:
            if unit is None:
                continue
            single = Runner(ctx, geom)
            ok = run_fixed(ctx, single, m, unit, f"pair:{name}")
            nontrivial = (len(chosen) >= 2 or max(k for k, _ in chosen) >= 1)
            ctx.case(("pair", name, dd, nl, [list(c) for c in chosen], chans, spatial, batch),
                     nontrivial,
                     sample=None if not (it in (4, 11) and name in ("scalar", "concat")) else
                     {"kind": "pair", "unit": name, "D": dd, "n_leading": nl,
                             "signature": [[k, p, c] for (k, p), c in zip(chosen, chans)],
                             "spatial": spatial, "batch": batch,
                             "ops": [s.desc for s, _ in unit[0]] + [s.desc for s, _ in unit[1]],
                             "ok": ok})


def run_fixed(ctx, run: Runner, m0, unit, label):
    """run exactly this unit through the chain machinery (budget = its own length)"""
    opens, closes = unit
    seq = list(opens) + list(closes)
    ctxr = run.ctx
    m0_json = mi_to_json(m0)
    state = {"impl": m0, "model": m0_json, "kind": "mi"}
    trace = []
    for step, kind_after in seq:
        trace.append(step.desc)
        try:
            new_impl = step.impl(state["impl"])
        except Exception as e:
            ctxr.violation("oracle", f"{step.name} raised on a valid input ({label})",
                           {"input": small(m0_json), "chain": trace, "raised": repr(e)[:300]})
            return False
        try:
            new_model = step.model(run.drv, state["model"])
        except DriverReject as e:
            ctxr.violation("correspondence",
                           f"the Lean model rejects {step.name} but the implementation accepts it ({label})",
                           {"input": small(m0_json), "chain": trace, "model_rejects": str(e)})
            return False
        try:
            ij = state_json(kind_after, new_impl)
        except ValueError as e:
            ctxr.violation("oracle", f"{step.name} produced non-integer values ({label})",
                           {"input": small(m0_json), "chain": trace, "error": repr(e)})
            return False
        if hasattr(step, "check_b"):
            holder, bj = step.check_b
            if not same_mi(holder["b_impl"], bj):
                ctxr.violation("oracle", "concat_inverse does not return the second operand of concat",
                               {"input": small(m0_json), "chain": trace, "expected_b": small(bj),
                                "got_b": small(holder["b_impl"]),
                                "diff": describe_diff(holder["b_impl"], bj)})
                return False
        if not same_state(kind_after, ij, new_model):
            # disagreement with the model: is the round trip through the real code still the identity?
            rest_ok = None
            try:
                cur = new_impl
                for st2, _ in seq[len(trace):]:
                    cur = st2.impl(cur)
                rest_ok = same_mi(mi_to_json(cur), m0_json)
            except Exception:
                rest_ok = False
            case = {"input": small(m0_json), "chain": trace, "step": step.name,
                    "impl": small(ij), "model": small(new_model)}
            if rest_ok is False:
                ctxr.violation("oracle", f"{step.name} differs from its specification and the round "
                                         f"trip through it is not the identity ({label})", case)
            else:
                ctxr.violation("correspondence", f"{step.name} differs from the Lean model ({label})", case)
            return False
        state["impl"], state["model"], state["kind"] = new_impl, new_model, kind_after
    if state["kind"] == "mi":
        fin = mi_to_json(state["impl"])
        if not same_mi(fin, m0_json):
            ctxr.violation("oracle",
                           f"round trip is not the identity: {describe_diff(fin, m0_json)} ({label})",
                           {"input": small(m0_json), "chain": trace, "result": small(fin)})
            return False
    return True


def check_chains(ctx: Ctx, run: Runner, n_chains: int, max_len: int):
    geom = run.geom
    done = 0
    attempts = 0
    sampled = 0
    while done < n_chains and attempts < 3 * n_chains:
        attempts += 1
        dd, nl, chosen, chans, spatial, batch = gen_config(ctx, max_elems=1500)
        m, base = build_mi(geom, dd, chosen, chans, spatial, batch)
        budget = int(ctx.rng.integers(2, max_len + 1))
        run.last_trace = None
        n_ops, ok = run.build_and_run(m, budget, base, "chain")
        if n_ops == 0:
            continue
        done += 1
        ctx.hist("d", dd)
        ctx.hist("n_leading", nl)
        ctx.hist("n_types", len(chosen))
        nontrivial = n_ops >= 2 and (len(chosen) >= 2 or max(k for k, _ in chosen) >= 1)
        ctx.case(("chain", ctx.evaluations, dd, nl, [list(c) for c in chosen], chans, spatial, batch, n_ops),
                 nontrivial,
                 sample=({"kind": "chain", "D": dd, "n_leading": nl,
                          "signature": [[k, p, c] for (k, p), c in zip(chosen, chans)],
                          "spatial": spatial, "batch": batch, "ops": small(run.last_trace, 40), "ok": ok}
                         if (n_ops >= 3 and sampled < 3) else None))
        if n_ops >= 3:
            sampled += 1
    return done


def check_images_direction(ctx: Ctx, run: Runner, n: int):
    """to_images(from_images(imgs)) = imgs grouped by type (stable), and GeometricImage through jit"""
    import jax
    import jax.numpy as jnp

    geom = run.geom
    rng = ctx.rng
    for it in range(n):
        d = 2 + it % 2
        spatial = [int(x) for x in rng.permutation([3, 4, 5])[:d]]
        keys = all_keys(d)[:6]
        n_img = int(rng.integers(1, 7))
        imgs = []
        off = 0
        torus = tuple(bool(i % 2) for i in range(d))
        for _ in range(n_img):
            k, p = keys[int(rng.integers(0, len(keys)))]
            shape = tuple(spatial) + (d,) * k
            sz = int(np.prod(shape))
            imgs.append(geom.GeometricImage(
                jnp.asarray(np.arange(off, off + sz, dtype=np.float32).reshape(shape)), p, d, torus))
            off += sz
        ij = [img_to_json(g) for g in imgs]
        n_lead = 1 if it % 2 == 0 else int(rng.integers(1, 4))
        axis = int(rng.integers(0, n_lead))
        ctx.hist("from_images_n_lead_axes", n_lead)
        case = {"images": small(ij), "n_lead_axes": n_lead, "axis": axis}
        try:
            mi = geom.MultiImage.from_images(imgs, n_lead, axis)
            back = [img_to_json(g) for g in mi.to_images()]
        except Exception as e:
            ctx.violation("oracle", "from_images/to_images raised on valid images",
                          {**case, "raised": repr(e)[:300]})
            continue
        order = list(dict.fromkeys((g["data"]["shape"].__len__() - d, g["parity"]) for g in ij))
        want = [g for key in order for g in ij if (len(g["data"]["shape"]) - d, g["parity"]) == key]
        mj = ctx.driver.call("c13.from_images", images=ij, n_lead=n_lead, axis=axis)
        mback = ctx.driver.call("c13.to_images", mi=mj)
        types = len(order)
        ctx.case(("images", d, spatial, n_lead, axis, [(len(g["data"]["shape"]) - d, g["parity"]) for g in ij]),
                 n_img >= 2 and types >= 1,
                 sample={"kind": "images", "D": d, "spatial": spatial, "n_lead_axes": n_lead, "axis": axis,
                         "types": [[len(g["data"]["shape"]) - d, g["parity"]] for g in ij]} if it < 2 else None)
        # the property leaves the order of types free; compare grouped by type, order inside a type kept
        def grouped(lst):
            out = {}
            for g in lst:
                out.setdefault((len(g["data"]["shape"]) - d, g["parity"]), []).append(g)
            return out

        if grouped(back) != grouped(want):
            ctx.violation("oracle", "to_images(from_images(images)) is not the images grouped by type",
                          {**case, "got": small(back)})
        elif grouped(mback) != grouped(back) or not same_mi(mi_to_json(mi), mj):
            ctx.violation("correspondence", "from_images/to_images differ from the Lean model",
                          {**case, "impl": small(back), "model": small(mback)})
        # GeometricImage pytree registration
        g0 = imgs[0]
        g1 = jax.jit(lambda x: x)(g0)
        gm = ctx.driver.call("c13.gimg_tree_roundtrip", image=ij[0])
        if img_to_json(g1) != ij[0]:
            ctx.violation("oracle", "GeometricImage changes when passed through jax.jit",
                          {"image": small(ij[0]), "got": small(img_to_json(g1))})
        elif gm != ij[0]:
            ctx.violation("correspondence", "GeometricImage pytree round trip differs from the Lean model",
                          {"image": small(ij[0]), "model": small(gm)})


def check_rejects(ctx: Ctx, run: Runner):
    """malformed stream: inputs the real code refuses; the model's `…Ok` predicates should agree.
    The property says nothing about errors, so a disagreement is recorded, never a violation."""
    import jax.numpy as jnp

    geom = run.geom
    drv = ctx.driver
    m = geom.MultiImage({(0, 0): jnp.arange(6 * 4 * 5, dtype=jnp.float32).reshape(6, 4, 5),
                         (1, 0): jnp.arange(6 * 4 * 5 * 2, dtype=jnp.float32).reshape(6, 4, 5, 2)}, 2)
    mj = mi_to_json(m)
    m0 = geom.MultiImage({(0, 0): jnp.arange(20, dtype=jnp.float32).reshape(4, 5)}, 2)
    other = geom.MultiImage({(0, 0): jnp.arange(6 * 3 * 5, dtype=jnp.float32).reshape(6, 3, 5)}, 2)
    cases = [
        ("expand non-dividing", lambda: m.expand(0, 4), lambda: drv.call("c13.expand", mi=mj, axis=0, size=4)),
        ("reshape_pmap non-dividing", lambda: m.reshape_pmap([None] * 4),
         lambda: drv.call("c13.reshape_pmap", mi=mj, ndev=4, axis=0)),
        ("to_scalar without channel axis", lambda: m0.to_scalar_multi_image(),
         lambda: drv.call("c13.to_scalar", mi=mi_to_json(m0))),
        ("concat mismatching spatial", lambda: m.concat(other),
         lambda: drv.call("c13.concat", mi=mj, other=mi_to_json(other), axis=0)),
        ("from_vector short", lambda: geom.MultiImage.from_vector(jnp.arange(7, dtype=jnp.float32), m),
         lambda: drv.call("c13.from_vector", mi=mj, vector={"shape": [7], "data": list(range(7))})),
        ("combine_axes non-contiguous", lambda: m.combine_axes((0, 2)),
         lambda: drv.call("c13.combine_axes", mi=mj, axes=[0, 2])),
        ("merge_axes single", lambda: m.merge_axes((0,)), lambda: drv.call("c13.merge_axes", mi=mj, axes=[0])),
        ("concat_inverse too large", lambda: m.concat_inverse((((0, 0), 7),), 0),
         lambda: drv.call("c13.concat_inverse", mi=mj, sig=[[0, 0, 7]], axis=0)),
    ]
    for name, fi, fm in cases:
        try:
            fi()
            ri = "ok"
        except Exception:
            ri = "rejected"
        try:
            fm()
            rm = "ok"
        except DriverReject:
            rm = "rejected"
        ctx.hist("malformed", f"{name}: impl={ri} model={rm}")
        ctx.case(("malformed", name), False)


# --------------------------------------------------------------------------------------------
# save / load


def check_save_load(ctx: Ctx, tier: str):
    import jax
    import jax.numpy as jnp
    from jax import random

    import ginjax.geometric as geom
    import ginjax.ml as ml
    import ginjax.models as models

    D, N = 2, 8
    ops = geom.make_all_operators(D)
    filt = geom.get_invariant_filters([3], [0, 1, 2], [0, 1], D, ops)
    in_sig = geom.Signature((((0, 0), 2), ((1, 0), 1)))
    out_sig = geom.Signature((((1, 0), 1), ((0, 1), 1)))
    xk = random.PRNGKey(ctx.seed + 17)
    x = geom.MultiImage({(0, 0): random.normal(xk, (2, N, N)),
                         (1, 0): random.normal(random.fold_in(xk, 1), (1, N, N, 2))}, D)

    builders = []

    def conv_layer(key):
        return ml.ConvContract(in_sig, out_sig, filt, use_bias=True, key=key)

    builders.append(("ConvContract", conv_layer, lambda mdl, x: mdl(x)))
    call = lambda mdl, x: mdl(x)[0]  # noqa: E731

    def mk(cls, eq, **kw):
        def f(key):
            if eq:
                return cls(D, in_sig, out_sig, depth=2, conv_filters=filt, equivariant=True, key=key, **kw)
            kw2 = {k: v for k, v in kw.items() if k != "upsample_filters"}
            return cls(D, in_sig, out_sig, depth=4, equivariant=False, kernel_size=3, key=key, **kw2)
        return f

    if tier == "quick":
        builders.append(("ResNet/equivariant", mk(models.ResNet, True, num_blocks=1, num_conv=1), call))
        builders.append(("DilResNet/conventional", mk(models.DilResNet, False, num_blocks=1), call))
    else:
        up = geom.get_invariant_filters([2], [0, 1, 2], [0, 1], D, ops)
        for eq in (True, False):
            tag = "equivariant" if eq else "conventional"
            builders.append((f"UNet/{tag}", mk(models.UNet, eq, num_downsamples=1, num_conv=1,
                                               upsample_filters=up), call))
            builders.append((f"UNet/{tag}/group_norm", mk(models.UNet, eq, num_downsamples=1, num_conv=2,
                                                          upsample_filters=up, use_group_norm=True), call))
            builders.append((f"ResNet/{tag}", mk(models.ResNet, eq, num_blocks=2, num_conv=1), call))
            builders.append((f"ResNet/{tag}/no_group_norm", mk(models.ResNet, eq, num_blocks=1, num_conv=2,
                                                               use_group_norm=False), call))
            builders.append((f"DilResNet/{tag}", mk(models.DilResNet, eq, num_blocks=1), call))
            builders.append((f"DilResNet/{tag}/group_norm", mk(models.DilResNet, eq, num_blocks=1,
                                                               use_group_norm=True), call))

    # models whose saved instance differs from the (same-structured) template in NON-array leaves too:
    # a normalisation epsilon, and the inference / always_average switches of a wrapper
    # vectors only: for k=0 ml.GroupNorm delegates to eqx.nn.GroupNorm whose eps is a STATIC field, i.e.
    # part of the structure (a template with another static eps is not "same-structured")
    gn_sig = geom.Signature((((1, 0), 2),))
    x_vec = geom.MultiImage({(1, 0): random.normal(random.fold_in(xk, 2), (2, N, N, 2))}, D)

    def gn_build(key, saved=False):
        return ml.GroupNorm(gn_sig, D, 1, eps=(1e-2 if saved else 1e-5))

    def ga_build(key, saved=False):
        inner = models.ResNet(D, in_sig, out_sig, depth=2, num_blocks=1, num_conv=1, conv_filters=filt,
                              equivariant=True, key=key)
        return models.GroupAverage(inner, ops[:4], always_average=False, inference=saved)

    def ga_build_off(key, saved=False):
        # the SAVED wrapper is in training mode (no averaging), the template in inference mode
        inner = models.ResNet(D, in_sig, out_sig, depth=2, num_blocks=1, num_conv=1, conv_filters=filt,
                              equivariant=True, key=key)
        return models.GroupAverage(inner, ops[:4], always_average=False, inference=not saved)

    builders.append(("GroupNorm/eps-differs-from-template", gn_build, lambda mdl, x: mdl(x_vec)))
    builders.append(("GroupAverage/inference-flag-differs-from-template", ga_build, call))
    builders.append(("GroupAverage/saved-in-training-mode-template-in-inference-mode", ga_build_off, call))

    for name, build, run_model in builders:
        t0 = time.time()
        k1, k2 = random.split(random.PRNGKey(ctx.seed * 7 + 3))
        try:
            if build in (gn_build, ga_build, ga_build_off):
                m1, m2 = build(k1, saved=True), build(k2, saved=False)
            else:
                m1, m2 = build(k1), build(k2)
            y1 = run_model(m1, x)
            y2 = run_model(m2, x)
        except Exception as e:
            # constructing / running the model is not what C13 is about
            ctx.hist("save_load", f"{name}: model could not be built/run: {type(e).__name__}")
            continue
        fd, path = tempfile.mkstemp(prefix="ginjax_c13_", suffix=".eqx", dir=tempfile.gettempdir())
        os.close(fd)
        try:
            ml.save(path, m1)
            m3 = ml.load(path, m2)
            y3 = run_model(m3, x)
        finally:
            if os.path.exists(path):
                os.remove(path)
        differs_before = any(not np.array_equal(np.asarray(y1[k]), np.asarray(y2[k])) for k in y1.keys())

        def bits_equal(a, b):
            return (set(a.keys()) == set(b.keys()) and a.D == b.D and a.is_torus == b.is_torus
                    and all(np.asarray(a[k]).tobytes() == np.asarray(b[k]).tobytes() for k in a.keys()))

        same = bits_equal(y1, y3)
        ctx.hist("save_load", f"{name}: {'bit-identical' if same else 'DIFFERENT'}")
        ctx.case(("save_load", name), differs_before,
                 sample={"kind": "save_load", "model": name, "bit_identical": same,
                         "outputs_differed_before_load": differs_before,
                         "seconds": round(time.time() - t0, 1)})
        if not same:
            # localise: are the stored leaves reproduced exactly, and does the saved model itself
            # reproduce its outputs after a mere pytree round trip (no file involved)?
            l1 = jax.tree_util.tree_leaves(m1)
            l3 = jax.tree_util.tree_leaves(m3)
            leaves_equal = len(l1) == len(l3) and all(
                (np.asarray(a).tobytes() == np.asarray(b).tobytes()) if hasattr(a, "shape") else (a == b or callable(a))
                for a, b in zip(l1, l3))
            m1c = jax.tree_util.tree_map(lambda a: a, m1)
            y1c = run_model(m1c, x)
            case = {"model": name, "D": D, "N": N,
                    "input_signature": [[list(kp), c] for kp, c in in_sig],
                    "output_signature": [[list(kp), c] for kp, c in out_sig],
                    "prng_seed": int(ctx.seed * 7 + 3),
                    "leaves_bit_identical": bool(leaves_equal),
                    "saved_model_after_pytree_identity_matches_loaded": bool(bits_equal(y1c, y3)),
                    "saved_model_after_pytree_identity_matches_itself": bool(bits_equal(y1c, y1)),
                    "max_abs_diff": {str(k): float(np.max(np.abs(np.asarray(y1[k]) - np.asarray(y3[k]))))
                                     for k in y1.keys() if k in y3}}
            if leaves_equal and bits_equal(y1c, y3):
                # every stored number is reproduced; the freshly built model differs from ANY pytree
                # round trip of itself because ConvContract emits its blocks in weights-dict order
                # (D10, property C20): the float additions of the next layer are re-ordered.
                ctx.violation("oracle",
                              f"save/load of {name}: the loaded model reproduces every leaf but not the "
                              "eager outputs of the freshly constructed model bit for bit (block order of "
                              "ConvContract changes under any pytree round trip: D10)",
                              case, key="D10-convcontract-output-order")
            else:
                ctx.violation("oracle",
                              f"save/load of {name} does not reproduce the outputs bit for bit", case)


# --------------------------------------------------------------------------------------------


def check_extra_inverses(ctx: Ctx, n: int):
    """two inverse pairs outside the step machinery, against direct numpy references:
    * expand twice, then combine_axes / merge_axes over THREE axes restores the block;
    * to_vector(from_vector(v, template)) == v for real-valued v whatever the dtype of the template's blocks
      (from_vector takes shape and type layout from the template, the numbers from v)."""
    import jax.numpy as jnp
    import ginjax.geometric as geom

    rng = ctx.rng
    for it in range(n):
        d = int(rng.choice([1, 2, 3]))
        types = [(0, 0), (0, 1)] if d == 1 else [(0, 0), (1, 0), (0, 1), (2, 0), (1, 1)]
        keys = [types[i] for i in rng.permutation(len(types))[: int(rng.integers(1, 4))]]
        spatial = tuple(int(v) for v in rng.permutation([2, 3, 5])[:d])
        a, b, c = (int(v) for v in rng.permutation([2, 3, 4]))
        lead_pre = () if it % 2 else (2,)
        ax = len(lead_pre)
        blocks = {}
        for i, (k, p) in enumerate(keys):
            shape = lead_pre + (a * b * c,) + spatial + (d,) * k
            blocks[(k, p)] = (np.arange(int(np.prod(shape)), dtype=np.float32) + 1000 * i).reshape(shape)
        m = geom.MultiImage({kp: jnp.asarray(v) for kp, v in blocks.items()}, d)
        case = {"part": "three-axis combine/merge", "D": d, "keys": [list(kp) for kp in keys], "spatial": list(spatial),
                "leading": list(lead_pre) + [a * b * c], "split": [a, b, c], "axis": ax}
        ctx.case(("combine3", it, case), True, sample=case if it == 0 else None)
        ctx.hist("extra_inverse", "combine/merge over 3 axes")
        try:
            e2 = m.expand(ax, b * c).expand(ax + 1, c)
            back1 = e2.combine_axes((ax, ax + 1, ax + 2))
            back2 = e2.merge_axes((ax, ax + 1, ax + 2))
            ok = all(tuple(e2[kp].shape) == lead_pre + (a, b, c) + spatial + (d,) * kp[0] for kp in keys)
            for back in (back1, back2):
                ok = ok and list(back.keys()) == keys and all(
                    back[kp].shape == blocks[kp].shape and np.array_equal(np.asarray(back[kp]), blocks[kp]) for kp in keys)
        except Exception as e:
            case["raised"] = repr(e)[:300]
            ok = False
        if not ok:
            ctx.violation("oracle", "expand twice then combine_axes / merge_axes over three axes does not restore the multi image", case)
        # from_vector with templates of another dtype
        tdtype = [jnp.int32, jnp.float16, jnp.float32][it % 3]
        tmpl = geom.MultiImage({kp: jnp.zeros(v.shape, dtype=tdtype) for kp, v in blocks.items()}, d)
        size = sum(v.size for v in blocks.values())
        v = (rng.integers(-40, 41, size=size).astype(np.float32)) / 4.0
        case2 = {"part": "from_vector with a template of dtype " + str(jnp.dtype(tdtype)), "D": d,
                 "keys": [list(kp) for kp in keys], "shapes": [list(blocks[kp].shape) for kp in keys]}
        ctx.case(("from_vector_dtype", it, case2), True)
        ctx.hist("extra_inverse", "from_vector template dtype " + str(jnp.dtype(tdtype)))
        try:
            out = geom.MultiImage.from_vector(jnp.asarray(v), tmpl)
            back = np.asarray(out.to_vector(), dtype=np.float32)
            ok2 = list(out.keys()) == keys and back.shape == v.shape and np.array_equal(back, v)
            off = 0
            for kp in keys:
                n_el = blocks[kp].size
                ok2 = ok2 and np.array_equal(np.asarray(out[kp], dtype=np.float32), v[off:off + n_el].reshape(blocks[kp].shape))
                off += n_el
        except Exception as e:
            case2["raised"] = repr(e)[:300]
            ok2 = False
        if not ok2:
            ctx.violation("oracle", "to_vector(from_vector(v, template)) != v (the template only provides the layout)", case2)


def run(ctx: Ctx):
    import ginjax.geometric as geom

    ctx.rule = (
        "cases: (pair) every inverse pair on a generated multi image, cycling d in 1..3 and 0..3 "
        "leading axes, signature = random subset/order of types k<=3, p in {0,1}, channels 1..4, "
        "pairwise distinct axis extents, every element a distinct integer; (chain) random nested/"
        "sequential compositions of inverse pairs and identity steps (copy, jit, vmap, tree) that are "
        "the identity by construction, every step mirrored in the Lean model; (images) lists of "
        "GeometricImages; (save_load) real models through a temporary file. distinct = distinct "
        "(kind, d, leading shape, signature, spatial dims, operations). non-trivial = at least two "
        "types or a tensor order >= 1 (pairs), additionally >= 2 operations (chains), >= 2 images "
        "(images), outputs of the two differently initialised models differ before loading (save_load); "
        "malformed inputs are counted as trivial."
    )
    ctx.assumptions = [
        "blocks hold integer-valued float32 numbers below 2^24 (the re-layouts only move values, so the "
        "value type is irrelevant; the theorems are for an arbitrary type)",
        "save/load is modelled only: eqx.tree_serialise_leaves / tree_deserialise_leaves are exercised on "
        "real models, no theorem is claimed for them",
        "jax's flattening of a dict pytree (sorted keys) is modelled by treeFlatten and validated by the "
        "jit / vmap / tree_flatten runs",
        "BatchNorm state is outside save() (the code's own TODO) and outside this check",
    ]
    ctx.trusted_extra = [
        "numpy/jax semantics of reshape, moveaxis, concatenate, basic slicing as written in "
        "lean/GinjaxVerif/Model/NDArr.lean (validated by every correspondence case)",
    ]
    run_ = Runner(ctx, geom)
    ctx.max_samples = 12
    quick = ctx.tier == "quick"
    t0 = time.time()
    check_rejects(ctx, run_)
    check_pairs(ctx, run_, 72 if quick else 600)
    t1 = time.time()
    check_images_direction(ctx, run_, 30 if quick else 300)
    n = check_chains(ctx, run_, 220 if quick else 3000, 4 if quick else 8)
    t2 = time.time()
    check_extra_inverses(ctx, 12 if ctx.tier == "quick" else 120)
    check_save_load(ctx, ctx.tier)
    t3 = time.time()
    ctx.notes["timing_s"] = {"pairs": round(t1 - t0, 1), "images+chains": round(t2 - t1, 1),
                             "save_load": round(t3 - t2, 1)}
    ctx.notes["chains_run"] = n
    ctx.notes["driver_calls"] = ctx.driver.calls
    ctx.notes["save_load_note"] = "modelled only: exercised on real models, no theorem claimed"


def replay(ctx: Ctx, rep: dict):
    """re-run the whole check with the recorded seed and tier (cases are regenerated from the seed)"""
    run(ctx)
