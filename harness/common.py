"""Shared machinery of the ginjax verification harness.

Everything a per-property module (harness/props/cXX.py) needs:
  * Ctx      - counting, evidence, verdict, known findings, replay files
  * Driver   - line-protocol connection to the compiled Lean model (lean/.lake/build/bin/gvdriver)
  * audit    - proof obligations: lake build + `#print axioms` + forbidden-token scan
The harness runs under /venv/bin/python and imports ginjax from the *current working tree*
(GINJAX_SRC, default /repo/src).
"""

from __future__ import annotations

import collections
import hashlib
import json
import os
import re
import subprocess
import sys
import time
from fractions import Fraction
from pathlib import Path

VERIF = Path(__file__).resolve().parent.parent
LEAN = VERIF / "lean"
DRIVER_BIN = LEAN / ".lake" / "build" / "bin" / "gvdriver"
REPO_SRC = os.environ.get("GINJAX_SRC", "/repo/src")
ALLOWED_AXIOMS = {"propext", "Classical.choice", "Quot.sound"}
FORBIDDEN = [
    r"\bsorry\b",
    r"\badmit\b",
    r"^\s*axiom\s",
    r"native_decide",
    r"bv_decide",
    r"implemented_by",
    r"\bunsafe\s",
    r"maxHeartbeats\s+0\b",
]

# --------------------------------------------------------------------------------------------
# stdout discipline: the library prints warnings; protocol lines (VIOLATION ...) must be ours only.

_REAL_STDOUT = None


def protect_stdout():
    """Route fd 1 to stderr for everything but our own `say`."""
    global _REAL_STDOUT
    if _REAL_STDOUT is None:
        sys.stdout.flush()
        _REAL_STDOUT = os.fdopen(os.dup(1), "w", buffering=1)
        os.dup2(2, 1)
        sys.stdout = sys.stderr


def say(msg: str):
    out = _REAL_STDOUT if _REAL_STDOUT is not None else sys.stdout
    out.write(msg + "\n")
    out.flush()


def log(msg: str):
    sys.stderr.write(msg + "\n")
    sys.stderr.flush()


class InfraError(Exception):
    """tooling problem (build failed for reasons other than a proof, driver crash, timeout)"""


# --------------------------------------------------------------------------------------------
# JSON helpers for the wire format


def jrat(x) -> list:
    """rational -> [num, den]"""
    f = Fraction(x)
    return [f.numerator, f.denominator]


def unrat(j) -> Fraction:
    if isinstance(j, list):
        return Fraction(j[0], j[1])
    return Fraction(j)


def jarr(a) -> dict:
    """integer ndarray -> {"shape":[..], "data":[..]} (row-major)"""
    import numpy as np

    a = np.asarray(a)
    return {"shape": list(a.shape), "data": [int(v) for v in a.reshape(-1)]}


def unarr(j):
    import numpy as np

    return np.array(j["data"], dtype=np.int64).reshape(j["shape"])


def canon(obj) -> str:
    return json.dumps(obj, sort_keys=True, separators=(",", ":"), default=str)


# --------------------------------------------------------------------------------------------
# Lean driver


class Driver:
    """Persistent connection to the compiled model driver (one JSON line in, one out)."""

    def __init__(self):
        if not DRIVER_BIN.exists():
            raise InfraError(f"driver binary missing: {DRIVER_BIN} (run setup_cmd)")
        self.p = subprocess.Popen(
            [str(DRIVER_BIN)],
            stdin=subprocess.PIPE,
            stdout=subprocess.PIPE,
            stderr=subprocess.PIPE,
            text=True,
            bufsize=1,
        )
        self.calls = 0

    def call(self, op: str, **kw):
        kw["op"] = op
        line = json.dumps(kw, separators=(",", ":"))
        try:
            self.p.stdin.write(line + "\n")
            self.p.stdin.flush()
            out = self.p.stdout.readline()
        except BrokenPipeError as e:
            raise InfraError(f"driver died: {e}")
        if not out:
            err = self.p.stderr.read() if self.p.stderr else ""
            raise InfraError(f"driver closed the stream on {op}: {err[:500]}")
        self.calls += 1
        r = json.loads(out)
        if "error" in r:
            raise DriverReject(r["error"])
        return r["ok"]

    def many(self, reqs: list[dict]) -> list:
        """batch: each element already has "op"; returns ok-values, DriverReject objects for errors"""
        res = []
        for r in reqs:
            try:
                op = r["op"]
                kw = {k: v for k, v in r.items() if k != "op"}
                res.append(self.call(op, **kw))
            except DriverReject as e:
                res.append(e)
        return res

    def close(self):
        try:
            self.p.stdin.close()
            self.p.wait(timeout=10)
        except Exception:
            self.p.kill()


class DriverReject(Exception):
    """the model rejected the operation (maps to the implementation raising)"""


# --------------------------------------------------------------------------------------------
# proof obligations


def _run(cmd, cwd, timeout):
    t0 = time.time()
    try:
        p = subprocess.run(cmd, cwd=cwd, capture_output=True, text=True, timeout=timeout)
    except subprocess.TimeoutExpired:
        raise InfraError(f"timeout after {timeout}s: {' '.join(cmd)}")
    return p.returncode, p.stdout + p.stderr, time.time() - t0


def load_obligations(prop_id: str) -> dict:
    f = LEAN / "obligations" / f"{prop_id}.json"
    if not f.exists():
        raise InfraError(f"no obligations registered for {prop_id}")
    return json.loads(f.read_text())


def strip_comments(src: str) -> str:
    # remove /- ... -/ (nested not handled beyond one level, enough for our sources) and -- ...
    out = []
    i, depth = 0, 0
    while i < len(src):
        if src.startswith("/-", i):
            depth += 1
            i += 2
        elif src.startswith("-/", i) and depth > 0:
            depth -= 1
            i += 2
        elif depth > 0:
            if src[i] == "\n":
                out.append("\n")
            i += 1
        elif src.startswith("--", i):
            while i < len(src) and src[i] != "\n":
                i += 1
        else:
            out.append(src[i])
            i += 1
    return "".join(out)


def scan_forbidden() -> list[str]:
    hits = []
    for f in sorted((LEAN / "GinjaxVerif").rglob("*.lean")):
        code = strip_comments(f.read_text())
        for n, line in enumerate(code.split("\n"), 1):
            for pat in FORBIDDEN:
                if re.search(pat, line):
                    hits.append(f"{f.relative_to(LEAN)}:{n}: {line.strip()[:120]}")
    return hits


def audit(prop_id: str, tier: str) -> dict:
    """Build the property's proof module and the driver, then audit every registered theorem.

    returns {"obligations": n, "discharged": m, "failed": [names], "checker_cmd": str,
             "axioms": {thm: [..]}, "build_ok": bool, "log": str}
    """
    ob = load_obligations(prop_id)
    modules = ob["modules"]
    theorems = ob["theorems"]
    res = {
        "obligations": len(theorems),
        "discharged": 0,
        "failed": [],
        "axioms": {},
        "build_ok": True,
        "log": "",
    }
    build_cmd = ["lake", "build", "gvdriver"] + modules
    rc, out, dt = _run(build_cmd, LEAN, 3600)
    res["log"] += out[-4000:]
    if rc != 0:
        # is it the driver (infrastructure for correspondence) or a proof module?
        rc2, out2, _ = _run(["lake", "build", "gvdriver"], LEAN, 3600)
        if rc2 != 0:
            raise InfraError("driver does not build:\n" + out2[-3000:])
        res["build_ok"] = False
    audit_dir = LEAN / ".audit"
    audit_dir.mkdir(exist_ok=True)
    af = audit_dir / f"{prop_id}.lean"
    lines = [f"import {m}" for m in modules]
    for t in theorems:
        lines.append(f"#print axioms {t}")
    af.write_text("\n".join(lines) + "\n")
    cmd = ["lake", "env", "lean", str(af.relative_to(LEAN))]
    res["checker_cmd"] = (
        "cd lean && " + " ".join(build_cmd) + " && " + " ".join(cmd) + "   # + forbidden-token scan"
    )
    if res["build_ok"]:
        rc, out, dt = _run(cmd, LEAN, 1800)
        res["log"] += out[-4000:]
        # parse "'name' depends on axioms: [a, b]" / "'name' does not depend on any axioms"
        text = out.replace("\n  ", " ").replace("\n ", " ")
        for t in theorems:
            m = re.search(r"'" + re.escape(t) + r"' depends on axioms: \[([^\]]*)\]", text)
            if m:
                axs = [a.strip() for a in m.group(1).split(",") if a.strip()]
                res["axioms"][t] = axs
                if set(axs) <= ALLOWED_AXIOMS:
                    res["discharged"] += 1
                else:
                    res["failed"].append(t)
            elif re.search(r"'" + re.escape(t) + r"' does not depend on any axioms", text):
                res["axioms"][t] = []
                res["discharged"] += 1
            else:
                res["failed"].append(t)
    else:
        res["failed"] = list(theorems)
    hits = scan_forbidden()
    if hits:
        res["failed"].append("forbidden-token-scan")
        res["log"] += "\nforbidden tokens:\n" + "\n".join(hits[:20])
        res["discharged"] = 0
    if tier == "thorough" and res["build_ok"] and not os.environ.get("VERIF_SKIP_LEANCHECKER"):
        cmd2 = ["lake", "env", "leanchecker"] + modules
        rc, out, dt = _run(cmd2, LEAN, 3600)
        res["checker_cmd"] += " && " + " ".join(cmd2)
        res["leanchecker_s"] = round(dt, 1)
        if rc != 0:
            res["failed"].append("leanchecker")
            res["log"] += "\nleanchecker:\n" + out[-2000:]
            res["discharged"] = 0
    return res


# --------------------------------------------------------------------------------------------
# known findings


def load_known(prop_id: str):
    """lines: `finding: property=<id> key=<key> <text>`; `fixed: ...` lines suppress nothing"""
    path = VERIF / "known_findings.txt"
    found = []
    if path.exists():
        for line in path.read_text().splitlines():
            line = line.strip()
            if not line.startswith("finding:"):
                continue
            m = re.match(r"finding:\s+property=(\S+)\s+key=(\S+)\s+(.*)", line)
            if m and m.group(1) == prop_id:
                found.append((m.group(2), m.group(3)))
    return found


# --------------------------------------------------------------------------------------------
# run context

TRUSTED_BASE_COMMON = [
    "Lean 4 kernel; axioms propext, Classical.choice, Quot.sound only (audited per theorem with #print axioms)",
    "hand-written Lean model of the anchored Python; tie to /repo = correspondence check of this run",
    "Lean compiler/runtime executing the model driver; driver JSON parser/printer; Python harness (generators, canonicalisation)",
    "numpy/jax array primitives are trusted to implement the modelled semantics (validated only differentially)",
]


class Ctx:
    def __init__(self, prop_id: str, tier: str, seed: int):
        import numpy as np

        self.prop_id = prop_id
        self.tier = tier
        self.seed = seed
        self.rng = np.random.Generator(np.random.PCG64(seed))
        self.t0 = time.time()
        self.evaluations = 0
        self.nontrivial = set()
        self.samples = []
        self.hists = collections.defaultdict(collections.Counter)
        self.violations = []  # dicts: kind, what, case, key
        self.known_hits = []
        self.known = load_known(prop_id)
        self.rule = ""
        self.assumptions = []
        self.trusted_extra = []
        self.audit_result = None
        self.notes = {}
        self.exhaustive = False
        self._driver = None
        self.max_samples = 6

    # -- driver
    @property
    def driver(self) -> Driver:
        if self._driver is None:
            self._driver = Driver()
        return self._driver

    # -- counting
    def case(self, key, nontrivial: bool = True, sample=None):
        """register one executed case; `key` identifies it after canonicalisation"""
        self.evaluations += 1
        if nontrivial:
            self.nontrivial.add(hashlib.sha1(canon(key).encode()).hexdigest())
        if sample is not None and len(self.samples) < self.max_samples:
            self.samples.append(sample)

    def hist(self, name: str, value):
        self.hists[name][str(value)] += 1

    # -- verdicts
    def violation(self, kind: str, what: str, case: dict, key: str | None = None):
        """kind: 'oracle' (the property fails on the implementation on this input),
        'correspondence' (model and implementation disagree, no property failure shown),
        'theorem' (a proof obligation no longer checks)."""
        if key is not None:
            for k, text in self.known:
                if k == key:
                    if (k, text) not in self.known_hits:
                        self.known_hits.append((k, text))
                    return
        # keep at most a handful of replays per kind, but count all
        self.violations.append({"kind": kind, "what": what, "case": case, "key": key})

    def finish(self) -> int:
        for k, text in self.known_hits:
            say(f"KNOWN-FINDING: property={self.prop_id} {k} {text}")
        ar = self.audit_result
        theorem_broken = ar is not None and (ar["discharged"] != ar["obligations"] or ar["failed"])
        oracle_v = [v for v in self.violations if v["kind"] == "oracle"]
        corr_v = [v for v in self.violations if v["kind"] == "correspondence"]
        rc = 0
        replay_dir = VERIF / "replays"
        lines = []
        if oracle_v:
            replay_dir.mkdir(exist_ok=True)
            v = oracle_v[0]
            path = replay_dir / f"{self.prop_id}_{self.tier}_{self.seed}_oracle.json"
            path.write_text(
                json.dumps(
                    {
                        "property": self.prop_id,
                        "tier": self.tier,
                        "seed": self.seed,
                        "kind": "oracle",
                        "what": v["what"],
                        "case": v["case"],
                        "other_failures": [w["what"] for w in oracle_v[1:20]],
                        "n_failures": len(oracle_v),
                    },
                    indent=1,
                    default=str,
                )
            )
            lines.append(f"VIOLATION property={self.prop_id} replay={path.relative_to(VERIF)}")
            rc = 1
        elif corr_v or theorem_broken:
            replay_dir.mkdir(exist_ok=True)
            path = replay_dir / f"{self.prop_id}_{self.tier}_{self.seed}_unproved.json"
            body = {
                "property": self.prop_id,
                "tier": self.tier,
                "seed": self.seed,
                "kind": "correspondence" if corr_v else "theorem",
                "no_longer_checks": [],
            }
            if corr_v:
                body["no_longer_checks"].append(
                    "correspondence model<->implementation: " + corr_v[0]["what"]
                )
                body["case"] = corr_v[0]["case"]
                body["n_disagreements"] = len(corr_v)
            if theorem_broken:
                body["no_longer_checks"] += ["theorem " + t for t in ar["failed"]]
                body["lean_log"] = ar["log"][-3000:]
            path.write_text(json.dumps(body, indent=1, default=str))
            lines.append(
                f"VIOLATION property={self.prop_id} replay={path.relative_to(VERIF)} no-failing-input-found"
            )
            rc = 1
        if not getattr(self, "is_replay", False):  # a replay of one stored case does not describe a run
            self.write_evidence(len(oracle_v) + len(corr_v) + (1 if theorem_broken else 0))
        for l in lines:
            say(l)
        if self._driver is not None:
            self._driver.close()
        log(
            f"[{self.prop_id}] tier={self.tier} seed={self.seed} evaluations={self.evaluations} "
            f"nontrivial={len(self.nontrivial)} violations={len(self.violations)} "
            f"wall={time.time() - self.t0:.1f}s rc={rc}"
        )
        return rc

    def write_evidence(self, n_viol: int):
        ar = self.audit_result or {
            "obligations": 0,
            "discharged": 0,
            "checker_cmd": "",
            "axioms": {},
        }
        cov = {
            "obligations": ar["obligations"],
            "discharged": ar["discharged"],
            "checker_cmd": ar.get("checker_cmd", ""),
            "trusted_base": TRUSTED_BASE_COMMON + self.trusted_extra,
            "theorems": ar.get("axioms", {}),
            "evaluations": self.evaluations,
            "distinct_nontrivial": len(self.nontrivial),
            "rule": self.rule,
            "samples": self.samples,
            "input_distribution": {k: dict(v) for k, v in self.hists.items()},
            "exhaustive": self.exhaustive,
            "known_findings_hit": [k for k, _ in self.known_hits],
        }
        if "leanchecker_s" in ar:
            cov["leanchecker_s"] = ar["leanchecker_s"]
        cov.update(self.notes)
        ev = {
            "property_id": self.prop_id,
            "tier": self.tier,
            "seed": self.seed,
            "level": "proof",
            "coverage": cov,
            "assumptions": self.assumptions,
            "wall_s": round(time.time() - self.t0, 2),
            "violations": n_viol,
        }
        # evidence describes runs against /repo itself; runs against another source root (mutation and
        # refactoring experiments via GINJAX_SRC) are kept apart
        if os.path.realpath(REPO_SRC) == os.path.realpath("/repo/src"):
            d = VERIF / "evidence"
        else:
            d = VERIF / "scratch" / "evidence_other_src"
        d.mkdir(parents=True, exist_ok=True)
        (d / f"{self.prop_id}.json").write_text(json.dumps(ev, indent=1, default=str))


def changed_anchor_files(prop_id: str) -> list[str]:
    """anchor files of the property whose content differs from the recorded (validated) tree"""
    rec = VERIF / "harness" / "anchors.json"
    if not rec.exists():
        return []
    want = json.loads(rec.read_text()).get(prop_id, {})
    root = os.path.dirname(os.path.realpath(REPO_SRC))
    out = []
    for f, h in want.items():
        try:
            cur = hashlib.sha256(open(os.path.join(root, f), "rb").read()).hexdigest()
        except OSError:
            cur = None
        if cur != h:
            out.append(f)
    return out


def start_coverage(tag: str):
    """VERIF_COVERAGE=1: record which source lines of the implementation a check executes
    (sys.monitoring, each line reported once, so the overhead is negligible); the result goes to
    scratch/coverage/<tag>.json and is summarised by tools/coverage_report.py.  Diagnostic only:
    it never influences a verdict."""
    if not os.environ.get("VERIF_COVERAGE") or not hasattr(sys, "monitoring"):
        return
    import atexit

    mon = sys.monitoring
    tool = mon.COVERAGE_ID
    try:
        mon.use_tool_id(tool, "gv-cov")
    except ValueError:
        return
    hits: set = set()
    root = os.path.realpath(REPO_SRC)

    def on_line(code, line):
        fn = code.co_filename
        if fn.startswith(root):
            hits.add((fn[len(root) + 1:], line))
        return mon.DISABLE

    mon.register_callback(tool, mon.events.LINE, on_line)
    mon.set_events(tool, mon.events.LINE)

    def dump():
        d = os.path.join(VERIF, "scratch", "coverage")
        os.makedirs(d, exist_ok=True)
        out: dict = {}
        for fn, ln in hits:
            out.setdefault(fn, []).append(ln)
        for fn in out:
            out[fn].sort()
        with open(os.path.join(d, tag + ".json"), "w") as f:
            json.dump(out, f)

    atexit.register(dump)


def import_ginjax():
    """import ginjax from the current working tree"""
    if REPO_SRC not in sys.path:
        sys.path.insert(0, REPO_SRC)
    os.environ.setdefault("JAX_PLATFORMS", "cpu")
    os.environ.setdefault("WANDB_MODE", "disabled")
    import ginjax  # noqa: F401

    src = os.path.realpath(os.path.dirname(ginjax.__file__))
    want = os.path.realpath(os.path.join(REPO_SRC, "ginjax"))
    if src != want:
        raise InfraError(f"ginjax imported from {src}, expected {want}")
    return ginjax
