#!/usr/bin/env python3
"""Translator: src/ginjax/ml/stopping_conditions.py  ->  lean/GinjaxVerif/Generated/StopConditions.lean

A second, mechanical tie between the C19 model and the code (DESIGN.md section 12): every run re-reads the
Python source, symbolically executes `__init__` and `stop` of each stopping-condition class over a
small IR, slices away everything that has no effect on the object's fields or on the returned flag
(logging), and emits one Lean definition per method.  `Properties/C19Gen.lean` then PROVES that the
emitted definitions are the hand-written machine of `Model/C19.lean` (`pStepF`, `eStep`,
`FState.init`), so the C19 theorems are theorems about a definition derived from the current source.

Python fragment understood (anything else raises Unsupported, which is reported, never guessed):
  assignments to locals / `self.<field>` (incl. `+=`), `if/elif/else`, `return`, expression statements
  that are calls (treated as effect-free ONLY when the callee is `self.log_status` or `print`),
  `x is None` / `x is not None`, comparisons `< <= > >= ==`, `+ - // %`, `and/or/not`, `float(x)`
  (identity on the loss value: float32 -> float64 is exact), `jnp.inf / np.inf / math.inf /
  float("inf")`, int / bool / None constants, module-level integer constants, `np.min([...])`, `super().__init__(...)`.
Assumed semantics (trusted base): IEEE `<` and `-` on losses are `FV.lt` / `FV.sub`; Python ints are `Nat`
(counters only ever grow from 0); the model object is an opaque token (`Nat`).
"""
import ast, json, os, sys
from pathlib import Path


class Unsupported(Exception):
    pass


# ---------------------------------------------------------------- IR
# expressions are tuples: ("param", n) ("field", n) ("int", v) ("bool", v) ("none",) ("pinf",) ("ninf",)
# ("bin", op, a, b) ("cmp", op, a, b) ("isnone", a) ("not", a) ("and", a, b) ("or", a, b) ("some", a)
# ("opaque", text)  -- an expression we cannot translate; fine as long as slicing removes it
# results are trees: ("leaf", fields: dict name->expr, ret: expr) | ("if", cond, then, else)

INF_NAMES = {"jnp.inf", "np.inf", "math.inf", "numpy.inf", "jax.numpy.inf"}
EFFECT_FREE_CALLS = {"self.log_status", "print"}


def dotted(node):
    if isinstance(node, ast.Name):
        return node.id
    if isinstance(node, ast.Attribute):
        b = dotted(node.value)
        return None if b is None else b + "." + node.attr
    return None


MODULE_CONSTS: dict = {}  # module-level `NAME = <int/float constant>` of the translated file


class Exec:
    def __init__(self, params):
        self.params = params

    def expr(self, n, env):
        if isinstance(n, ast.Constant):
            if n.value is None:
                return ("none",)
            if isinstance(n.value, bool):
                return ("bool", n.value)
            if isinstance(n.value, int):
                return ("int", n.value)
            if isinstance(n.value, float) and n.value == float("inf"):
                return ("pinf",)
            return ("opaque", ast.unparse(n))
        d = dotted(n)
        if d in INF_NAMES:
            return ("pinf",)
        if isinstance(n, ast.Name):
            if n.id in env["locals"]:
                return env["locals"][n.id]
            if n.id in MODULE_CONSTS:
                return MODULE_CONSTS[n.id]
            return ("opaque", n.id)
        if isinstance(n, ast.Attribute) and isinstance(n.value, ast.Name) and n.value.id == "self":
            if n.attr in env["fields"]:
                return env["fields"][n.attr]
            return ("field", n.attr)
        if isinstance(n, ast.UnaryOp) and isinstance(n.op, ast.USub):
            a = self.expr(n.operand, env)
            if a == ("pinf",):
                return ("ninf",)
            return ("opaque", ast.unparse(n))
        if isinstance(n, ast.UnaryOp) and isinstance(n.op, ast.Not):
            return ("not", self.expr(n.operand, env))
        if isinstance(n, ast.BoolOp):
            vals = [self.expr(v, env) for v in n.values]
            tag = "and" if isinstance(n.op, ast.And) else "or"
            r = vals[0]
            for v in vals[1:]:
                r = (tag, r, v)
            return r
        if isinstance(n, ast.BinOp):
            ops = {ast.Add: "+", ast.Sub: "-", ast.FloorDiv: "//", ast.Mod: "%", ast.Mult: "*"}
            if type(n.op) in ops:
                return ("bin", ops[type(n.op)], self.expr(n.left, env), self.expr(n.right, env))
            return ("opaque", ast.unparse(n))
        if isinstance(n, ast.Compare) and len(n.ops) == 1:
            a, b = self.expr(n.left, env), self.expr(n.comparators[0], env)
            op = n.ops[0]
            if isinstance(op, ast.Is) and b == ("none",):
                return ("isnone", a)
            if isinstance(op, ast.IsNot) and b == ("none",):
                return ("not", ("isnone", a))
            ops = {ast.Lt: "<", ast.LtE: "<=", ast.Gt: ">", ast.GtE: ">=", ast.Eq: "=="}
            if type(op) in ops:
                return ("cmp", ops[type(op)], a, b)
            return ("opaque", ast.unparse(n))
        if isinstance(n, ast.Call):
            f = dotted(n.func)
            if f == "float" and len(n.args) == 1:
                a = n.args[0]
                if isinstance(a, ast.Constant) and a.value in ("inf", "+inf", "Infinity"):
                    return ("pinf",)
                if isinstance(a, ast.Constant) and a.value in ("-inf", "-Infinity"):
                    return ("ninf",)
                return self.expr(a, env)  # identity on the loss value
            return ("opaque", ast.unparse(n))
        return ("opaque", ast.unparse(n))

    def block(self, stmts, env, k):
        """execute stmts then continuation k(env) -> tree; a `return` cuts the continuation"""
        if not stmts:
            return k(env)
        s, rest = stmts[0], stmts[1:]
        nxt = lambda e: self.block(rest, e, k)
        if isinstance(s, ast.Expr):
            if isinstance(s.value, ast.Constant):  # docstring
                return nxt(env)
            if isinstance(s.value, ast.Call):
                f = dotted(s.value.func)
                if f in EFFECT_FREE_CALLS:
                    return nxt(env)
                fu = ast.unparse(s.value.func)
                if fu.startswith("super(") and fu.endswith(".__init__") and env.get("base_init") is not None:
                    bfields, border, bparams, bdefaults = env["base_init"]
                    call = s.value
                    sub = dict(bdefaults)
                    for i, a in enumerate(call.args):
                        sub[bparams[i]] = self.expr(a, env)
                    for kw in call.keywords:
                        sub[kw.arg] = self.expr(kw.value, env)
                    env = clone(env)
                    for fld in border:
                        env["fields"][fld] = subst(bfields[fld], sub)
                        if fld not in env["order"]:
                            env["order"].append(fld)
                    return nxt(env)
            raise Unsupported("statement with unknown effect: " + ast.unparse(s))
        if isinstance(s, ast.Assert):
            return nxt(env)
        if isinstance(s, ast.Pass):
            return nxt(env)
        if isinstance(s, (ast.Assign, ast.AugAssign, ast.AnnAssign)):
            env = clone(env)
            if isinstance(s, ast.Assign):
                if len(s.targets) != 1:
                    raise Unsupported(ast.unparse(s))
                tgt, val = s.targets[0], self.expr(s.value, env)
            elif isinstance(s, ast.AnnAssign):
                if s.value is None:
                    return nxt(env)
                tgt, val = s.target, self.expr(s.value, env)
            else:
                ops = {ast.Add: "+", ast.Sub: "-"}
                if type(s.op) not in ops:
                    raise Unsupported(ast.unparse(s))
                cur = self.expr(s.target, env)
                tgt, val = s.target, ("bin", ops[type(s.op)], cur, self.expr(s.value, env))
            if isinstance(tgt, ast.Name):
                env["locals"][tgt.id] = val
            elif isinstance(tgt, ast.Attribute) and isinstance(tgt.value, ast.Name) and tgt.value.id == "self":
                env["fields"][tgt.attr] = val
                if tgt.attr not in env["order"]:
                    env["order"].append(tgt.attr)
            else:
                raise Unsupported(ast.unparse(s))
            return nxt(env)
        if isinstance(s, ast.If):
            c = self.expr(s.test, env)
            t = self.block(s.body, clone(env), nxt)
            e = self.block(s.orelse, clone(env), nxt)
            return mk_if(c, t, e)
        if isinstance(s, ast.Return):
            r = ("none",) if s.value is None else self.expr(s.value, env)
            return ("leaf", dict(env["fields"]), r, list(env["order"]), env.get("super_init"))
        raise Unsupported("statement: " + ast.unparse(s)[:80])


def clone(env):
    return {"locals": dict(env["locals"]), "fields": dict(env["fields"]), "order": list(env["order"]),
            "super_init": env.get("super_init"), "base_init": env.get("base_init")}


def subst(e, sub):
    if not isinstance(e, tuple):
        return e
    if e[0] == "param":
        if e[1] not in sub:
            raise Unsupported(f"base constructor parameter {e[1]} not supplied")
        return sub[e[1]]
    return tuple(subst(x, sub) if isinstance(x, tuple) else x for x in e)


def mk_if(c, t, e):
    if c == ("bool", True):
        return t
    if c == ("bool", False):
        return e
    if c[0] == "not":
        return mk_if(c[1], e, t)
    if strip(t) == strip(e):
        return t
    return ("if", c, t, e)


def strip(tree):
    if tree[0] == "leaf":
        return ("leaf", tuple(sorted(tree[1].items())), tree[2])
    return ("if", tree[1], strip(tree[2]), strip(tree[3]))


def has_opaque(e):
    if not isinstance(e, tuple):
        return False
    if e and e[0] == "opaque":
        return True
    return any(has_opaque(x) for x in e[1:])


# ---------------------------------------------------------------- class-level analysis
def analyse(src: str):
    mod = ast.parse(src)
    classes = {c.name: c for c in mod.body if isinstance(c, ast.ClassDef)}
    MODULE_CONSTS.clear()
    for st in mod.body:
        if isinstance(st, ast.Assign) and len(st.targets) == 1 and isinstance(st.targets[0], ast.Name):
            v = Exec([]).expr(st.value, {"locals": {}, "fields": {}, "order": []})
            if v[0] in ("int", "pinf", "ninf", "bool"):
                MODULE_CONSTS[st.targets[0].id] = v
    out = {}
    for name, c in classes.items():
        meths = {m.name: m for m in c.body if isinstance(m, ast.FunctionDef)}
        base = dotted(c.bases[0]) if c.bases else None
        out[name] = {"base": base, "methods": meths}
    return out


def init_tree(classes, cname):
    """fields after construction (own __init__ after the base's), as expressions over ctor params"""
    info = classes[cname]
    base_init = None
    ptypes = {}
    if info["base"] in classes:
        bf, bo, bpt, bparams, bdefaults = init_tree(classes, info["base"])
        base_init = (bf, bo, bparams, bdefaults)
    m = info["methods"].get("__init__")
    if m is None:
        if base_init is None:
            return {}, [], {}, [], {}
        return bf, bo, bpt, bparams, bdefaults
    args = [a for a in m.args.args if a.arg != "self"]
    params = [a.arg for a in args]
    for a in args:
        if a.annotation is not None:
            ptypes[a.arg] = ast.unparse(a.annotation)
    ex = Exec(params)
    defaults = {}
    for a, d in zip(args[len(args) - len(m.args.defaults):], m.args.defaults):
        defaults[a.arg] = ex.expr(d, {"locals": {}, "fields": {}, "order": []})
    env = {"locals": {p: ("param", p) for p in params}, "fields": {}, "order": [],
           "super_init": None, "base_init": base_init}
    tree = ex.block(m.body, env, lambda e: ("leaf", dict(e["fields"]), ("none",), list(e["order"]), None))
    if tree[0] != "leaf":
        raise Unsupported(f"{cname}.__init__ branches")
    return tree[1], tree[3], ptypes, params, defaults


def stop_tree(classes, cname):
    info = classes[cname]
    m = info["methods"].get("stop")
    if m is None:
        if info["base"] in classes:
            return stop_tree(classes, info["base"])
        raise Unsupported(f"{cname}: no stop method")
    params = [a.arg for a in m.args.args if a.arg != "self"]
    ex = Exec(params)
    env = {"locals": {p: ("param", p) for p in params}, "fields": {}, "order": [], "super_init": None}
    tree = ex.block(m.body, env, lambda e: ("leaf", dict(e["fields"]), ("none",), list(e["order"]), None))
    return tree, params


# ---------------------------------------------------------------- Lean emission
LOSS, NAT, MODEL = "FV Q", "Nat", "Option Nat"


def field_types(fields, ptypes):
    ty = {}
    for f, e in fields.items():
        if e in (("pinf",), ("ninf",)):
            ty[f] = LOSS
        elif e[0] == "int":
            ty[f] = NAT
        elif e == ("none",):
            ty[f] = MODEL
        elif e[0] == "param":
            ann = ptypes.get(e[1], "")
            ty[f] = LOSS if "float" in ann else NAT
        else:
            raise Unsupported(f"field {f} initialised by {e}")
    return ty


class Emit:
    def __init__(self, ftypes, optional_params):
        self.ft = ftypes
        self.opt = set(optional_params)  # params still Option-typed (not yet matched)

    def ty(self, e):
        if e[0] == "field":
            return self.ft[e[1]]
        if e[0] == "param":
            if e[1] == "model":
                return "Nat"
            if e[1] in ("train_loss", "val_loss"):
                return LOSS
            return NAT
        if e[0] == "int":
            return NAT
        if e[0] in ("pinf", "ninf"):
            return LOSS
        if e[0] == "bin":
            return self.ty(e[2])
        raise Unsupported(f"type of {e}")

    def val(self, e):
        if has_opaque(e):
            raise Unsupported(f"untranslatable expression survives slicing: {e}")
        t = e[0]
        if t == "field":
            return f"s.{e[1]}"
        if t == "param":
            if e[1] in self.opt:
                raise Unsupported(f"optional parameter {e[1]} used without a None test")
            return e[1]
        if t == "int":
            return str(e[1])
        if t == "pinf":
            return "FV.pinf"
        if t == "ninf":
            return "FV.ninf"
        if t == "bin" and e[1] in "+-":
            return f"({self.val(e[2])} {e[1]} {self.val(e[3])})"
        raise Unsupported(f"value {e}")

    def cond(self, c):
        """Lean Prop (decidable) for a condition"""
        if has_opaque(c):
            raise Unsupported(f"untranslatable condition survives slicing: {c}")
        if c[0] == "cmp":
            op, a, b = c[1], c[2], c[3]
            ta = self.ty(a)
            if ta == LOSS:
                if op == "<":
                    return f"{self.val(a)} < {self.val(b)}"
                if op == ">":
                    return f"{self.val(b)} < {self.val(a)}"
                if op == ">=":
                    return f"FV.geB {self.val(a)} {self.val(b)} = true"
                if op == "<=":
                    return f"FV.geB {self.val(b)} {self.val(a)} = true"
                raise Unsupported(f"loss comparison {op}")
            sym = {"<": "<", "<=": "≤", ">": ">", ">=": "≥", "==": "="}[op]
            return f"{self.val(a)} {sym} {self.val(b)}"
        if c[0] == "and":
            return f"({self.cond(c[1])}) ∧ ({self.cond(c[2])})"
        if c[0] == "or":
            return f"({self.cond(c[1])}) ∨ ({self.cond(c[2])})"
        if c[0] == "not":
            return f"¬ ({self.cond(c[1])})"
        if c[0] == "bool":
            return "True" if c[1] else "False"
        raise Unsupported(f"condition {c}")

    def ret(self, r):
        if r[0] == "bool":
            return "true" if r[1] else "false"
        return f"decide ({self.cond(r)})"

    def tree(self, t, order, ind):
        pad = "  " * ind
        if t[0] == "leaf":
            upd = []
            for f in order:
                if f in t[1]:
                    v = t[1][f]
                    if self.ft[f] == MODEL:
                        sv = "none" if v == ("none",) else (f"some {self.val(v)}" if v[0] == "param" else self.val(v))
                    else:
                        sv = self.val(v)
                    upd.append(f"{f} := {sv}")
            st = "s" if not upd else "{ s with " + ", ".join(upd) + " }"
            return f"{pad}({st}, {self.ret(t[2])})"
        c = t[1]
        if c[0] == "isnone" and c[1][0] == "param" and c[1][1] in self.opt:
            p = c[1][1]
            sub = Emit(self.ft, self.opt - {p})
            return (f"{pad}match {p} with\n{pad}| none =>\n{self.tree(t[2], order, ind + 1)}\n"
                    f"{pad}| some {p} =>\n{sub.tree(t[3], order, ind + 1)}")
        return (f"{pad}if {self.cond(c)} then\n{self.tree(t[2], order, ind + 1)}\n{pad}else\n"
                f"{self.tree(t[3], order, ind + 1)}")


HEADER = """/- GENERATED by harness/translate_stop.py from {src} (sha256 {sha}).  Do not edit.
   One structure per stopping-condition class (its instance fields, typed from the constructor), one
   definition per `__init__` and per `stop`, obtained by symbolic execution + slicing of the Python. -/
import GinjaxVerif.Model.C19
namespace GinjaxVerif.Gen
open GinjaxVerif.C19
"""


def generate(src_path: str) -> str:
    import hashlib
    src = Path(src_path).read_text()
    classes = analyse(src)
    out = [HEADER.format(src="src/ginjax/ml/stopping_conditions.py", sha=hashlib.sha256(src.encode()).hexdigest()[:16])]
    summary = {}
    for cname in ("EpochStop", "TrainLoss", "ValLoss"):
        if cname not in classes:
            raise Unsupported(f"class {cname} not found")
        fields, order, ptypes, _params, _defaults = init_tree(classes, cname)
        ft = field_types(fields, ptypes)
        uses_q = any(t == LOSS for t in ft.values())
        q = " (Q : Type)" if uses_q else ""
        qa = " Q" if uses_q else ""
        out.append(f"structure {cname}{q} where")
        for f in order:
            out.append(f"  {f} : {ft[f]}")
        out.append("")
        # constructor
        ctor_params = []
        for f in order:
            e = fields[f]
            if e[0] == "param" and e[1] not in [p for p, _ in ctor_params]:
                ctor_params.append((e[1], ft[f]))
        binder = " ".join(f"({p} : {t})" for p, t in ctor_params)
        inst = "{Q : Type} " if uses_q else ""
        em0 = Emit(ft, [])
        vals = []
        for f in order:
            e = fields[f]
            vals.append(f"{f} := " + ("none" if e == ("none",) else em0.val(e)))
        out.append(f"def {cname}.init {inst}{binder} : {cname}{qa} :=\n  {{ " + ", ".join(vals) + " }\n")
        # stop
        tree, params = stop_tree(classes, cname)
        em = Emit(ft, ["train_loss", "val_loss"])
        cls = "[LT Q] [DecidableLT Q] [Sub Q] " if uses_q else ""
        qbind = "{Q : Type} " if uses_q else ""
        lossT = "Option (FV Q)" if uses_q else "Option Unit"
        out.append(f"def {cname}.stop {qbind}{cls}(s : {cname}{qa}) (model current_epoch : Nat) "
                   f"(train_loss val_loss : {lossT}) : {cname}{qa} × Bool :=")
        out.append(em.tree(tree, order, 1))
        out.append("")
        # abstraction onto the hand-written machine's state: fields are recognised by how the constructor
        # initialises them (public constructor parameter names / initial values), never by their own names
        def by_init(pred, what):
            c = [f for f in order if pred(fields[f], ft[f])]
            if len(c) != 1:
                raise Unsupported(f"{cname}: cannot identify the {what} field (candidates {c})")
            return c[0]
        fm = by_init(lambda e, t: t == MODEL, "best-model")
        if uses_q:
            fb = by_init(lambda e, t: e == ("pinf",), "best-loss")
            fs = by_init(lambda e, t: e == ("int", 0), "counter")
            fp = by_init(lambda e, t: e == ("param", "patience"), "patience")
            fd = by_init(lambda e, t: e == ("param", "min_delta"), "min_delta")
            out.append(f"def {cname}.abs {{Q : Type}} (s : {cname} Q) : FState Q :=\n"
                       f"  {{ best := s.{fb}, since := s.{fs}, bestModel := s.{fm} }}")
            out.append(f"def {cname}.patienceOf {{Q : Type}} (s : {cname} Q) : Nat := s.{fp}")
            out.append(f"def {cname}.deltaOf {{Q : Type}} (s : {cname} Q) : FV Q := s.{fd}")
        else:
            fe = by_init(lambda e, t: e == ("param", "epochs"), "epochs")
            out.append(f"def {cname}.abs (s : {cname}) : Option Nat := s.{fm}")
            out.append(f"def {cname}.epochsOf (s : {cname}) : Nat := s.{fe}")
        out.append("")
        summary[cname] = {"fields": order, "types": ft}
    out.append("end GinjaxVerif.Gen")
    return "\n".join(out) + "\n", summary


def main():
    src = sys.argv[1] if len(sys.argv) > 1 else os.path.join(os.environ.get("GINJAX_SRC", "/repo/src"), "ginjax/ml/stopping_conditions.py")
    dst = sys.argv[2] if len(sys.argv) > 2 else str(Path(__file__).resolve().parent.parent / "lean/GinjaxVerif/Generated/StopConditions.lean")
    try:
        text, summary = generate(src)
    except Unsupported as e:
        print(json.dumps({"ok": False, "unsupported": str(e)}))
        return 3
    p = Path(dst)
    p.parent.mkdir(parents=True, exist_ok=True)
    if not p.exists() or p.read_text() != text:
        p.write_text(text)
    print(json.dumps({"ok": True, "dst": str(p), "summary": summary}))
    return 0


if __name__ == "__main__":
    sys.exit(main())
