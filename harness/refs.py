"""Tiny exact numpy reference helpers, written from the defining formulas (not from the library).

The reference group action is itself diffed against the Lean spec (`c02.act_spec`) by the C02 check
on every run, so every other property's oracle may lean on it.
"""
from __future__ import annotations

import itertools

import numpy as np


def signed_perms(d: int) -> list[np.ndarray]:
    """all signed permutation matrices of size d (the hyperoctahedral group B_d), integer matrices"""
    out = []
    for perm in itertools.permutations(range(d)):
        for signs in itertools.product([1, -1], repeat=d):
            m = np.zeros((d, d), dtype=np.int64)
            for i in range(d):
                m[i, perm[i]] = signs[i]
            out.append(m)
    return out


def is_signed_perm(g) -> bool:
    g = np.asarray(g)
    a = np.abs(g)
    return bool(
        g.ndim == 2
        and g.shape[0] == g.shape[1]
        and np.all((a == 0) | (a == 1))
        and np.all(a.sum(0) == 1)
        and np.all(a.sum(1) == 1)
    )


def det(g) -> int:
    return int(round(float(np.linalg.det(np.asarray(g, dtype=float)))))


def rotated_dims(g, dims):
    return tuple(int(v) for v in np.abs(np.asarray(g)) @ np.asarray(dims))


def transport(g, per_axis):
    """per-axis data (flags, dilations, paddings) travel with their axes: new[i] = old[argmax |g|[i]]"""
    g = np.abs(np.asarray(g))
    return tuple(per_axis[int(np.argmax(g[i]))] for i in range(g.shape[0]))


def act(data, d: int, parity: int, g) -> np.ndarray:
    """(g.A)(y) = det(g)^p * g^{(x)k} A(g^-1 (y - c') + c),  c = (N-1)/2, c' = (N'-1)/2, N' = |g| N.

    data has shape spatial + (d,)*k; exact for integer / object arrays."""
    data = np.asarray(data)
    g = np.asarray(g, dtype=np.int64)
    dims = data.shape[:d]
    k = data.ndim - d
    ndims = rotated_dims(g, dims)
    out = np.zeros(ndims + (d,) * k, dtype=data.dtype)
    sign = det(g) ** (parity % 2)
    N = np.array(dims, dtype=np.int64)
    Np = np.array(ndims, dtype=np.int64)
    for y in itertools.product(*[range(n) for n in ndims]):
        src2 = g.T @ (2 * np.array(y, dtype=np.int64) - (Np - 1)) + (N - 1)
        assert np.all(src2 % 2 == 0), "source pixel is not on the grid"
        src = tuple(int(v) for v in src2 // 2)
        assert all(0 <= s < n for s, n in zip(src, dims))
        t = data[src]
        for ax in range(k):
            # contract g[n, j] with the tensor's ax-th index
            t = np.moveaxis(np.tensordot(g, t, axes=([1], [ax])), 0, ax)
        out[y] = sign * t
    return out


def act_block(block, d: int, k: int, parity: int, g) -> np.ndarray:
    """apply `act` to every image of a block with leading axes (leading..., spatial, tensor)"""
    block = np.asarray(block)
    n_lead = block.ndim - d - k
    lead = block.shape[:n_lead]
    flat = block.reshape((-1,) + block.shape[n_lead:])
    res = [act(img, d, parity, g) for img in flat]
    out = np.stack(res) if len(res) else np.zeros((0,) + rotated_dims(g, block.shape[n_lead:n_lead + d]) + (d,) * k)
    return out.reshape(lead + out.shape[1:])


def act_dict(blocks: dict, d: int, g) -> dict:
    """blocks: {(k,p): array}; returns the transformed dict (same key order)"""
    return {(k, p): act_block(b, d, k, p, g) for (k, p), b in blocks.items()}


def mi_to_dict(mi) -> dict:
    """MultiImage -> {(k,p): np.ndarray} keeping insertion order"""
    return {key: np.asarray(val) for key, val in mi.items()}
