"""Translator tie (DESIGN.md section 12): for properties that have `lean/obligations/<ID>.tie.json`
the model is, in addition to the correspondence run, tied to the source by a translator: the
Python is re-translated to Lean on every run and the tie theorems (generated definition = hand-written
model) are re-checked.

Verdict rules:
  * translator says Unsupported (the source left the fragment it understands): no theorem about the
    generated file is claimed, the tie falls back to the correspondence run of the same check (which is
    the tie every other property has); reported as a note + a `TIE-DEGRADED` info line, never a VIOLATION.
  * translation succeeds and the tie theorems check: they are counted as proof obligations.
  * translation succeeds but a tie theorem no longer checks: treated like any broken theorem - the
    check's failing-input search runs (with the second, differently seeded pass); VIOLATION with the
    failing history if one is found, otherwise VIOLATION ... no-failing-input-found naming the theorem.
"""
from __future__ import annotations

import json
import os
import re
import subprocess
import sys

import common


def run(prop_id: str, ar: dict) -> dict | None:
    spec_path = common.LEAN / "obligations" / f"{prop_id}.tie.json"
    if not spec_path.exists():
        return None
    spec = json.loads(spec_path.read_text())
    src = os.path.join(common.REPO_SRC, spec["source"])
    tr = subprocess.run(
        [sys.executable, str(common.VERIF / "harness" / spec["translator"]), src],
        capture_output=True, text=True, timeout=300,
    )
    try:
        info = json.loads(tr.stdout.strip().splitlines()[-1])
    except Exception:
        info = {"ok": False, "unsupported": "translator crashed: " + (tr.stderr or tr.stdout)[-400:]}
    res = {"source": spec["source"], "translator": spec["translator"], "theorems": spec["theorems"]}
    if not info.get("ok"):
        res["status"] = "unavailable"
        res["reason"] = info.get("unsupported", "?")
        common.say(f"TIE-DEGRADED property={prop_id} translator tie unavailable ({res['reason'][:160]}); "
                   "the correspondence run remains the tie")
        return res
    res["generated"] = info.get("summary")
    rc, out, _ = common._run(["lake", "build"] + spec["modules"], common.LEAN, 1800)
    names = spec["theorems"]
    failed, axioms = [], {}
    if rc == 0:
        audit_dir = common.LEAN / ".audit"
        audit_dir.mkdir(exist_ok=True)
        af = audit_dir / f"{prop_id}_tie.lean"
        af.write_text("\n".join([f"import {m}" for m in spec["modules"]] + [f"#print axioms {t}" for t in names]) + "\n")
        rc2, out2, _ = common._run(["lake", "env", "lean", str(af.relative_to(common.LEAN))], common.LEAN, 900)
        text = out2.replace("\n  ", " ").replace("\n ", " ")
        for t in names:
            m = re.search(r"'" + re.escape(t) + r"' depends on axioms: \[([^\]]*)\]", text)
            if m:
                axs = [a.strip() for a in m.group(1).split(",") if a.strip()]
                axioms[t] = axs
                if not set(axs) <= common.ALLOWED_AXIOMS:
                    failed.append(t)
            elif re.search(r"'" + re.escape(t) + r"' does not depend on any axioms", text):
                axioms[t] = []
            else:
                failed.append(t)
    else:
        # which theorems fail?  every theorem whose name appears in an error message, else all
        failed = [t for t in names if re.search(r"error:.*" + re.escape(t.split(".")[-1]), out)] or list(names)
        res["lean_log"] = out[-2500:]
    if failed:
        res["status"] = "broken"
        res["failed"] = failed
        ar["obligations"] += len(names)
        ar["discharged"] += len(names) - len(failed)
        ar["failed"] += ["tie:" + t for t in failed]
        ar["log"] = ar.get("log", "") + "\n[translator tie]\n" + res.get("lean_log", "")
    else:
        res["status"] = "proved"
        ar["obligations"] += len(names)
        ar["discharged"] += len(names)
        ar["axioms"].update(axioms)
    return res
