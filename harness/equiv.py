"""Model-equivariance oracle shared by the checks of C07, C08 and C09.

Everything here looks at a real ginjax module only through its public call and through the pytree
of its leaves.  The group action is the exact numpy reference of `refs` (validated against the Lean
spec by the C02 check), never the library's own `times_group_element`; the transformed input is a
fresh MultiImage built from the transformed arrays with the transported `is_torus` flags.

API
  filter_bank(D, Ms=(3,), ks=(0,1,2), parities=(0,1))  cached invariant filter bank (B_D)
  signature(pairs) / sig_str(sig)                       ((k,p),c) pairs <-> geom.Signature / text
  random_blocks(rng, sig, D, spatial, lead=(), kind="normal")   {(k,p): float32 ndarray}
  to_multi_image(blocks, D, is_torus)                   geom.MultiImage with jnp blocks
  bank_leaves(model) -> [(path, ndarray)]               array leaves of every filter-bank MultiImage
  param_leaves(model) -> [(path, ndarray)]              every other inexact array leaf
  static_fingerprint(model)                             treedef string + non-array leaves
  perturb(model, rng, scale=0.5)                        every parameter leaf moved, banks untouched
  apply_model(model, blocks, D, is_torus)               {(k,p): ndarray} output blocks (jitted)
  equivariance_report(model, blocks, D, is_torus, g)    dict(defect, scale, per_key, ...)
  equivariance_defect(model, blocks, D, is_torus, g)    float, relative to the output scale
  worst_defect(model, blocks, D, is_torus, gs)          (max defect, its g, its report)
  noise_floor(model, blocks, D, is_torus, rng)          eta: output change under 2-ulp input noise
  tolerance(eta)                                        max(TOL, 20*eta); None when ill-conditioned
  group(D) / group_subset(D, rng, n)                    all of B_D / identity-free seeded subset
  TOL = 1e-3                                            float32 nonlinear nets; broken = O(0.1..1)
"""
from __future__ import annotations

import numpy as np

import refs

TOL = 1e-3

_BANKS: dict = {}
_FWD = None


def _mods():
    import equinox as eqx
    import jax
    import jax.numpy as jnp

    import ginjax.geometric as geom

    return jax, jnp, eqx, geom


# ---------------------------------------------------------------------------------------------
# construction helpers


def filter_bank(D: int, Ms=(3,), ks=(0, 1, 2), parities=(0, 1)):
    """invariant filters of B_D, cached per process (a few seconds to build)"""
    key = (D, tuple(Ms), tuple(ks), tuple(parities))
    if key not in _BANKS:
        _, _, _, geom = _mods()
        # what an EARLIER request in the same process asked for (a smaller group, the axis flips) must not
        # influence what the full group gets
        try:
            geom.get_invariant_filters(Ms=list(Ms), ks=list(ks)[:2], parities=list(parities), D=D,
                                       operators=geom.make_C2_group(D))
        except Exception:  # noqa: BLE001
            pass
        _BANKS[key] = geom.get_invariant_filters(
            Ms=list(Ms), ks=list(ks), parities=list(parities), D=D, operators=geom.make_all_operators(D)
        )
    return _BANKS[key]


def signature(pairs):
    _, _, _, geom = _mods()
    return geom.Signature(tuple(((int(k), int(p)), int(c)) for (k, p), c in pairs))


def sig_str(sig) -> str:
    return " ".join(f"({k},{p})x{c}" for (k, p), c in sig)


def random_blocks(rng, sig, D: int, spatial, lead=(), kind: str = "normal") -> dict:
    """generic float32 blocks of shape lead + (channels,) + spatial + (D,)*k.

    kind: "normal" (generic values: no ties of pixel norms, full-rank covariance),
          "int" (integers in [-4,4]), "sparse" (about one pixel in four non-zero)"""
    out = {}
    for (k, p), c in sig:
        shape = tuple(lead) + (c,) + tuple(spatial) + (D,) * k
        if kind == "int":
            a = rng.integers(-4, 5, size=shape).astype(np.float32)
        else:
            a = rng.normal(size=shape).astype(np.float32)
            if kind == "sparse":
                a = a * (rng.random(size=shape[: len(shape) - k]) < 0.25).reshape(
                    shape[: len(shape) - k] + (1,) * k
                )
        out[(k, p)] = a.astype(np.float32)
    return out


def to_multi_image(blocks: dict, D: int, is_torus=True):
    _, jnp, _, geom = _mods()
    if not isinstance(is_torus, bool):
        is_torus = tuple(bool(t) for t in is_torus)
    return geom.MultiImage({key: jnp.asarray(v) for key, v in blocks.items()}, D, is_torus)


def flags(D: int, is_torus) -> tuple:
    return (bool(is_torus),) * D if isinstance(is_torus, (bool, np.bool_)) else tuple(bool(t) for t in is_torus)


def group(D: int) -> list:
    return refs.signed_perms(D)


def group_subset(D: int, rng, n: int) -> list:
    """n distinct non-identity elements of B_D (all of them if n is large enough), seeded;
    always contains at least one reflection (det = -1) and one axis-swapping element"""
    gs = [g for g in refs.signed_perms(D) if not np.array_equal(g, np.eye(D, dtype=np.int64))]
    if n >= len(gs):
        return gs
    refl = [g for g in gs if refs.det(g) == -1]
    swap = [g for g in gs if np.any(np.abs(g) != np.eye(D, dtype=np.int64))]
    pick = [refl[int(rng.integers(len(refl)))], swap[int(rng.integers(len(swap)))]]
    order = rng.permutation(len(gs))
    for i in order:
        if len(pick) >= n:
            break
        if not any(np.array_equal(gs[i], h) for h in pick):
            pick.append(gs[i])
    return pick[:n]


# ---------------------------------------------------------------------------------------------
# leaves


def _is_mi(x) -> bool:
    _, _, _, geom = _mods()
    return isinstance(x, geom.MultiImage)


def _path_str(path) -> str:
    jax = _mods()[0]
    return jax.tree_util.keystr(path)


def _flat(model):
    jax = _mods()[0]
    return jax.tree_util.tree_flatten_with_path(model, is_leaf=_is_mi)


def bank_leaves(model) -> list:
    """[(path, ndarray)] for every array held in a MultiImage inside the module (the ConvContract
    `invariant_filters`), blocks in sorted key order; the same physical bank shared by several
    layers is listed once per layer (training treats them as separate leaves)"""
    leaves, _ = _flat(model)
    out = []
    for path, leaf in leaves:
        if _is_mi(leaf):
            for key in sorted(leaf.keys()):
                out.append((f"{_path_str(path)}[{key}]", np.asarray(leaf[key])))
    return out


def param_leaves(model) -> list:
    """[(path, ndarray)] for every inexact array leaf that is not part of a filter bank"""
    _, jnp, eqx, _ = _mods()
    leaves, _ = _flat(model)
    return [
        (_path_str(path), np.asarray(leaf))
        for path, leaf in leaves
        if not _is_mi(leaf) and eqx.is_inexact_array(leaf)
    ]


def static_fingerprint(model) -> dict:
    """what must not change under training: tree structure incl. static fields (equinox keeps
    them in the treedef), the non-array leaves, and the keys/shape/dtype of every array leaf"""
    jax, _, eqx, _ = _mods()
    leaves, treedef = jax.tree_util.tree_flatten_with_path(model)
    non_array = [(_path_str(p), repr(l)) for p, l in leaves if not eqx.is_array(l)]
    shapes = [(_path_str(p), tuple(l.shape), str(l.dtype)) for p, l in leaves if eqx.is_array(l)]
    return {"treedef": treedef, "non_array": non_array, "shapes": shapes}


def same_static(fp_a: dict, fp_b: dict) -> list:
    """list of differences between two fingerprints (empty = identical static structure)"""
    diff = []
    if fp_a["treedef"] != fp_b["treedef"]:
        diff.append("treedef (structure or a static field) differs")
    if fp_a["non_array"] != fp_b["non_array"]:
        diff.append("non-array leaves differ: " + str([a for a, b in zip(fp_a["non_array"], fp_b["non_array"]) if a != b][:3]))
    if fp_a["shapes"] != fp_b["shapes"]:
        diff.append("array leaf shapes/dtypes differ: " + str([a for a, b in zip(fp_a["shapes"], fp_b["shapes"]) if a != b][:3]))
    return diff


def perturb(model, rng, scale: float = 0.5):
    """a copy of `model` in which every inexact array leaf outside the filter banks is moved away
    from its initial value by independent normal noise of standard deviation `scale` (so biases
    that start at 0 and scales that start at 1 are moved as well); the filter-bank MultiImages,
    integer arrays, non-array leaves and all static fields are kept as they are"""
    jax, jnp, eqx, _ = _mods()
    leaves, treedef = jax.tree_util.tree_flatten(model, is_leaf=_is_mi)
    new = []
    for leaf in leaves:
        if not _is_mi(leaf) and eqx.is_inexact_array(leaf):
            noise = rng.normal(size=leaf.shape).astype(np.float32) * np.float32(scale)
            new.append(leaf + jnp.asarray(noise, dtype=leaf.dtype))
        else:
            new.append(leaf)
    return jax.tree_util.tree_unflatten(treedef, new)


def gradient_steps(model, blocks: dict, D: int, is_torus=True, steps: int = 2, rate: float = 0.1):
    """`steps` plain gradient steps on ||model(x) - 1||^2 over ALL inexact-array leaves of the model (the
    leaves `ml.train` hands to the optimiser), each normalised so that the largest update is `rate`"""
    jax, jnp, eqx, _ = _mods()
    x = to_multi_image(blocks, D, is_torus)

    def loss(params, static):
        y = _call(eqx.combine(params, static), x)
        return sum((jnp.sum((v - 1.0) ** 2) for v in y.data.values()), jnp.float32(0.0))

    for _ in range(steps):
        params, static = eqx.partition(model, eqx.is_inexact_array)
        grads = jax.grad(loss)(params, static)
        gmax = max([float(jnp.max(jnp.abs(g))) for g in jax.tree_util.tree_leaves(grads)] + [1e-12])
        model = eqx.apply_updates(model, jax.tree_util.tree_map(lambda g: -(rate / gmax) * g, grads))
    return model


# ---------------------------------------------------------------------------------------------
# evaluation and the metamorphic relation


def _call(model, x):
    out = model(x)
    if isinstance(out, tuple):  # MultiImageModule: (output, aux_data)
        out = out[0]
    return out


def apply_model(model, blocks: dict, D: int, is_torus=True, jit: bool = True) -> dict:
    """run the real module on a MultiImage built from `blocks`; returns numpy blocks by key"""
    global _FWD
    _, _, eqx, _ = _mods()
    x = to_multi_image(blocks, D, is_torus)
    if jit:
        if _FWD is None:
            _FWD = eqx.filter_jit(_call)
        out = _FWD(model, x)
    else:
        out = _call(model, x)
    return {key: np.asarray(v) for key, v in out.items()}


def equivariance_report(model, blocks: dict, D: int, is_torus, g, jit: bool = True) -> dict:
    """model(g.x) against g.model(x), the output block of key (k,p) transformed as a (k,p) tensor
    image.  `defect` = max over blocks and entries of |model(g.x) - g.model(x)| divided by
    `scale` = max |model(x)| over all blocks (1 if the output vanishes)."""
    g = np.asarray(g, dtype=np.int64)
    fl = flags(D, is_torus)
    y = apply_model(model, blocks, D, fl, jit)
    gx = refs.act_dict({key: np.asarray(v, dtype=np.float32) for key, v in blocks.items()}, D, g)
    gx = {key: v.astype(np.float32) for key, v in gx.items()}
    y_of_gx = apply_model(model, gx, D, refs.transport(g, fl), jit)
    g_of_y = refs.act_dict(y, D, g)
    scale = max([float(np.max(np.abs(v))) for v in y.values() if v.size] + [0.0])
    scale = scale if scale > 0 else 1.0
    rep = {"g": g.tolist(), "det": refs.det(g), "scale": scale, "per_key": {}, "problem": None}
    if set(y_of_gx.keys()) != set(g_of_y.keys()):
        rep["problem"] = f"output keys differ: {sorted(y_of_gx.keys())} vs {sorted(g_of_y.keys())}"
        rep["defect"] = float("inf")
        return rep
    worst = 0.0
    for key in g_of_y:
        a, b = y_of_gx[key], g_of_y[key]
        if a.shape != b.shape:
            rep["problem"] = f"block {key}: shape {a.shape} vs {b.shape}"
            rep["defect"] = float("inf")
            return rep
        if not (np.all(np.isfinite(a)) and np.all(np.isfinite(b))):
            rep["problem"] = f"block {key}: non-finite output"
            rep["defect"] = float("inf")
            return rep
        err = float(np.max(np.abs(a - b))) if a.size else 0.0
        rep["per_key"][str(key)] = err / scale
        worst = max(worst, err / scale)
    rep["defect"] = worst
    return rep


def equivariance_defect(model, blocks: dict, D: int, is_torus, g, jit: bool = True) -> float:
    return equivariance_report(model, blocks, D, is_torus, g, jit)["defect"]


def worst_defect(model, blocks: dict, D: int, is_torus, gs, jit: bool = True):
    """(max defect over gs, report of the worst g, list of all defects)"""
    best = None
    allv = []
    for g in gs:
        r = equivariance_report(model, blocks, D, is_torus, g, jit)
        allv.append(r["defect"])
        if best is None or r["defect"] > best["defect"]:
            best = r
    return (best["defect"] if best else 0.0), best, allv


def noise_floor(model, blocks: dict, D: int, is_torus, rng, trials: int = 3, rel: float = 2.0 ** -22) -> float:
    """eta = max change of the output (relative to the output scale) when every input entry is
    multiplied by 1 + rel*u, u uniform in [-1,1] (rel = 2 ulp of float32).  It measures how much
    float32 rounding noise the model amplifies at this input: the equivariance defect of an exactly
    equivariant model evaluated in float32 is of this order (measured: defect/eta between 0.1 and 6
    on well- and ill-conditioned trained DilResNets alike), independent of any group element."""
    fl = flags(D, is_torus)
    y = apply_model(model, blocks, D, fl)
    scale = max([float(np.max(np.abs(v))) for v in y.values() if v.size] + [0.0]) or 1.0
    eta = 0.0
    for _ in range(trials):
        xp = {k: (np.asarray(v, dtype=np.float64) * (1 + rel * rng.uniform(-1, 1, size=np.shape(v)))).astype(np.float32)
              for k, v in blocks.items()}
        yp = apply_model(model, xp, D, fl)
        if not all(np.all(np.isfinite(v)) for v in yp.values()):
            return float("inf")
        eta = max(eta, max(float(np.max(np.abs(yp[k] - y[k]))) for k in y) / scale)
    return eta


def tolerance(eta: float, ill: float = 1e-2):
    """defect accepted for a model whose measured noise amplification is eta: TOL for every
    reasonably conditioned model (eta <= 5e-5), 20*eta beyond; None (no verdict possible in
    float32) when that would exceed `ill`, far below the O(0.1..1) defect of broken equivariance"""
    t = max(TOL, 20.0 * eta)
    return None if not np.isfinite(t) or t > ill else t


def has_pool_ties(blocks: dict, D: int, patch: int = 2, rel: float = 1e-4) -> bool:
    """True when some patch of some channel has two pixels whose norms are within `rel` of each
    other at the maximum (the max-pool clause of C07/C08 is only claimed without such ties)"""
    for (k, p), b in blocks.items():
        b = np.asarray(b, dtype=np.float64)
        lead = b.ndim - D - k
        nrm = np.sqrt(np.sum(b * b, axis=tuple(range(lead + D, b.ndim)))) if k else np.abs(b)
        sp = nrm.shape[lead:]
        if any(s % patch for s in sp):
            continue
        v = nrm.reshape((-1,) + sp)
        for img in v:
            shp = []
            for s in sp:
                shp += [s // patch, patch]
            t = img.reshape(shp)
            t = np.moveaxis(t, [2 * i + 1 for i in range(D)], list(range(D, 2 * D)))
            t = t.reshape(t.shape[:D] + (-1,))
            srt = np.sort(t, axis=-1)
            if np.any(srt[..., -1] - srt[..., -2] <= rel * (1e-12 + srt[..., -1])):
                return True
    return False
